use std::collections::{BTreeMap, HashMap, HashSet};
use std::sync::Arc;
use bstr::BString;
use jj_lib::annotate::FileAnnotator;
use jj_lib::backend::{CommitId, FileId};
use jj_lib::bisect::{BisectionResult, Bisector, Evaluation, NextStep};
use jj_lib::commit::Commit;
use jj_lib::conflict_labels::ConflictLabels;
use jj_lib::conflicts::{self, ConflictMarkerStyle, ConflictMaterializeOptions};
use jj_lib::merge::Merge;
use jj_lib::repo::Repo;
use jj_lib::revset::RevsetExpression;
use jj_lib::stacked_table::{TableSegment as _, TableStore};
use pollster::FutureExt as _;
use testutils::{TestRepo, create_tree, repo_path, write_random_commit_with_parents};
use crate::Rng;

pub fn c21(r: &mut Rng, runs: usize) {
    let mut fail = 0;
    for _ in 0..runs {
        let dir = tempfile::tempdir().unwrap(); let path = dir.path().to_path_buf();
        let _ = TableStore::init(path.clone(), 2);
        let stores: Vec<TableStore> = (0..3).map(|_| TableStore::load(path.clone(), 2)).collect();
        // each store keeps its own (possibly stale) head
        let mut heads: Vec<Option<Arc<jj_lib::stacked_table::ReadonlyTable>>> = vec![None, None, None];
        let mut expected: BTreeMap<Vec<u8>, HashSet<Vec<u8>>> = BTreeMap::new(); // key -> set of values ever saved (any may win under concurrency)
        let mut last_seq: BTreeMap<Vec<u8>, Vec<u8>> = BTreeMap::new();
        for _ in 0..(3 + r.below(10)) {
            let s = r.below(3);
            let stale = r.below(3) == 0 && heads[s].is_some();
            let base = if stale { heads[s].clone().unwrap() } else { stores[s].get_head().unwrap() };
            let mut m = base.start_mutation();
            for _ in 0..(1 + r.below(4)) { let k = vec![r.below(3) as u8, r.below(4) as u8]; let v = vec![r.below(250) as u8; 1 + r.below(3)]; m.add_entry(k.clone(), v.clone()); expected.entry(k.clone()).or_default().insert(v.clone()); if !stale { last_seq.insert(k, v); } else { last_seq.remove(&k); } }
            let t = stores[s].save_table(m).unwrap(); heads[s] = Some(t);
            if r.below(3) == 0 { // reload point
                let fresh = TableStore::load(path.clone(), 2); let h = fresh.get_head().unwrap();
                for (k, vs) in &expected { match h.get_value(k) { Some(v) if vs.contains(v) => {}, other => { fail += 1; if fail < 4 { println!("C21 FAIL key={k:?} got={other:?} expected one of {vs:?}"); } } } }
            }
        }
        let fresh = TableStore::load(path.clone(), 2); let h = fresh.get_head().unwrap();
        for (k, vs) in &expected { match h.get_value(k) { Some(v) if vs.contains(v) => {}, other => { fail += 1; if fail < 4 { println!("C21 FAIL(final) key={k:?} got={other:?} expected one of {vs:?}"); } } } }
        let _ = &last_seq;
    }
    println!("SUMMARY7 c21_runs={runs} c21_fail={fail}");
}

pub fn c06(r: &mut Rng, n: usize) {
    let test_repo = TestRepo::init(); let store = test_repo.repo.store(); let path = repo_path("file");
    let pool: [&str; 6] = ["a\n", "b\n", "c\n", "d\n", "", "x"];
    let (mut fail, mut conflicts_seen) = (0, 0);
    for _ in 0..n {
        let sides = 2 + r.below(2);
        let mk = |r: &mut Rng| -> Option<FileId> { if r.below(6) == 0 { None } else { let k = r.below(4); let s: String = (0..k).map(|_| pool[r.below(pool.len())]).collect(); Some(testutils::write_file(store, path, &s)) } };
        let mut terms: Vec<Option<FileId>> = (0..2*sides-1).map(|_| mk(r)).collect();
        // add a redundant pair sometimes
        if r.below(2) == 0 { let x = mk(r); terms.push(x.clone()); terms.push(x); let l = terms.len(); terms.swap(l-1, r.below(l)); }
        if terms.len() % 2 == 0 { terms.pop(); }
        let ids = Merge::from_vec(terms);
        let simplified = ids.simplify();
        let contents = conflicts::extract_as_single_hunk(&simplified, store, path).block_on().unwrap();
        for style in [ConflictMarkerStyle::Diff, ConflictMarkerStyle::Snapshot, ConflictMarkerStyle::Git] {
            let len = conflicts::choose_materialized_conflict_marker_len(&contents);
            let mo = ConflictMaterializeOptions { marker_style: style, marker_len: Some(len), merge: store.merge_options().clone() };
            let bytes: BString = conflicts::materialize_merge_result_to_bytes(&contents, &ConflictLabels::unlabeled(), &mo);
            let back = conflicts::update_from_content(&ids, store, path, &bytes, len).block_on().unwrap();
            if !simplified.is_resolved() { conflicts_seen += 1; }
            if back != ids { fail += 1; if fail < 5 { println!("C06 FAIL style={style:?} ids={ids:?}\n back={back:?}\n bytes={:?}", bytes); } }
        }
    }
    println!("SUMMARY7 c06_cases={n} conflicted={conflicts_seen} c06_fail={fail}");
}

pub fn c37(r: &mut Rng, graphs: usize) {
    let (mut unsound, mut repeat, mut incomplete_unique, mut incomplete_multi, mut runs) = (0, 0, 0, 0, 0);
    for _ in 0..graphs {
        let test_repo = TestRepo::init(); let repo = &test_repo.repo; let mut tx = repo.start_transaction();
        let root = repo.store().root_commit(); let n = 3 + r.below(5);
        let mut cs: Vec<Commit> = vec![write_random_commit_with_parents(tx.repo_mut(), &[&root])];
        for _ in 1..n { let np = 1 + r.below(2); let mut ps: Vec<&Commit> = vec![]; for _ in 0..np { let c = &cs[r.below(cs.len())]; if !ps.iter().any(|p| p.id() == c.id()) { ps.push(c); } } let c = write_random_commit_with_parents(tx.repo_mut(), &ps); cs.push(c); }
        // single head: merge all heads
        let repo = tx.commit("t").block_on().unwrap();
        let par: HashMap<CommitId, Vec<CommitId>> = cs.iter().map(|c| (c.id().clone(), c.parent_ids().iter().filter(|p| **p != *root.id()).cloned().collect())).collect();
        let anc = |id: &CommitId| -> HashSet<CommitId> { let mut s = HashSet::new(); let mut st = vec![id.clone()]; while let Some(i) = st.pop() { if s.insert(i.clone()) { for p in &par[&i] { st.push(p.clone()); } } } s };
        let head = cs.last().unwrap().id().clone();
        let in_range: HashSet<CommitId> = anc(&head);
        // all monotone bad sets containing head: choose random generators, close upward within range
        for _ in 0..8 {
            let mut bad: HashSet<CommitId> = HashSet::new(); bad.insert(head.clone());
            for c in &cs { if in_range.contains(c.id()) && r.below(3) == 0 { bad.insert(c.id().clone()); } }
            // upward closure
            loop { let mut ch = false; for c in &cs { if in_range.contains(c.id()) && !bad.contains(c.id()) && par[c.id()].iter().any(|p| bad.contains(p)) { bad.insert(c.id().clone()); ch = true; } } if !ch { break; } }
            let minimal: HashSet<CommitId> = bad.iter().filter(|b| !par[*b].iter().any(|p| bad.contains(p))).cloned().collect();
            let range = RevsetExpression::commits(vec![root.id().clone()]).range(&RevsetExpression::commits(vec![head.clone()]));
            let mut bis = Bisector::new(repo.as_ref(), range).block_on().unwrap(); runs += 1;
            let mut asked: HashSet<CommitId> = HashSet::new(); let mut steps = 0;
            loop { steps += 1; if steps > 100 { repeat += 1; break; }
                match bis.next_step().block_on().unwrap() {
                    NextStep::Evaluate(c) => { if !asked.insert(c.id().clone()) { repeat += 1; } bis.mark(c.id().clone(), if bad.contains(c.id()) { Evaluation::Bad } else { Evaluation::Good }); }
                    NextStep::Done(BisectionResult::Found(found)) => {
                        let f: HashSet<CommitId> = found.iter().map(|c| c.id().clone()).collect();
                        if !f.iter().all(|c| minimal.contains(c)) || f.is_empty() { unsound += 1; println!("C37 UNSOUND found non-minimal"); }
                        else if f != minimal { if minimal.len() == 1 { incomplete_unique += 1; } else { incomplete_multi += 1; } }
                        break; }
                    NextStep::Done(other) => { unsound += 1; println!("C37 unexpected {other:?}"); break; } } }
        }
    }
    println!("SUMMARY7 c37_runs={runs} unsound={unsound} repeat={repeat} incomplete_with_unique_min={incomplete_unique} incomplete_with_multi_min={incomplete_multi}");
}

pub fn c38(r: &mut Rng, hist: usize) {
    let lines = ["a\n", "b\n", "c\n", "d\n", "e\n"]; let mut fail = 0; let mut total_lines = 0;
    for _ in 0..hist {
        let test_repo = TestRepo::init(); let repo = &test_repo.repo; let mut tx = repo.start_transaction();
        let root = repo.store().root_commit(); let path = repo_path("f");
        let mut cs: Vec<(Commit, String)> = vec![];
        for i in 0..(3 + r.below(6)) {
            let np = if cs.is_empty() { 0 } else { 1 + r.below(2) };
            let mut ps: Vec<usize> = vec![]; for _ in 0..np { let k = r.below(cs.len()); if !ps.contains(&k) { ps.push(k); } }
            let base: String = if ps.is_empty() { String::new() } else { cs[ps[0]].1.clone() };
            let mut ls: Vec<String> = base.split_inclusive('\n').map(|s| s.to_string()).collect();
            for _ in 0..(1 + r.below(3)) { match r.below(3) { 0 if !ls.is_empty() => { let k = r.below(ls.len()); ls.remove(k); } _ => { let k = r.below(ls.len() + 1); ls.insert(k, lines[r.below(lines.len())].to_string()); } } }
            let text: String = ls.concat();
            let tree = create_tree(repo, &[(path, &text)]);
            let parents: Vec<CommitId> = if ps.is_empty() { vec![root.id().clone()] } else { ps.iter().map(|k| cs[*k].0.id().clone()).collect() };
            let c = tx.repo_mut().new_commit(parents, tree).set_description(format!("c{i}")).write().block_on().unwrap();
            cs.push((c, text));
        }
        let repo = tx.commit("t").block_on().unwrap();
        let texts: HashMap<CommitId, String> = cs.iter().map(|(c, t)| (c.id().clone(), t.clone())).collect();
        let par: HashMap<CommitId, Vec<CommitId>> = cs.iter().map(|(c, _)| (c.id().clone(), c.parent_ids().iter().filter(|p| **p != *root.id()).cloned().collect())).collect();
        let (start, start_text) = cs.last().unwrap();
        let anc: HashSet<CommitId> = { let mut s = HashSet::new(); let mut st = vec![start.id().clone()]; while let Some(i) = st.pop() { if s.insert(i.clone()) { for p in &par[&i] { st.push(p.clone()); } } } s };
        let mut ann = FileAnnotator::from_commit(start, path).block_on().unwrap();
        ann.compute(repo.as_ref(), &RevsetExpression::all()).block_on().unwrap();
        let a = ann.to_annotation();
        let got_text: Vec<u8> = a.line_origins().flat_map(|(_, l)| l.to_vec()).collect();
        if got_text != start_text.as_bytes() { fail += 1; println!("C38 FAIL text"); }
        for (origin, line) in a.line_origins() { total_lines += 1;
            match origin { Ok(o) => { let t = &texts[&o.commit_id]; let ls: Vec<&str> = t.split_inclusive('\n').collect();
                    let ok = anc.contains(&o.commit_id) && ls.get(o.line_number).map(|l| l.as_bytes()) == Some(line.as_ref() as &[u8]);
                    if !ok { fail += 1; if fail < 4 { println!("C38 FAIL origin {o:?} line={line:?}"); } } }
                Err(o) => { fail += 1; if fail < 4 { println!("C38 unresolved origin {o:?}"); } } }
        }
    }
    println!("SUMMARY7 c38_hist={hist} lines={total_lines} c38_fail={fail}");
}
