use std::collections::{BTreeMap, HashSet};
use std::path::{Path, PathBuf};
use jj_lib::backend::CommitId;
use jj_lib::merge::Merge;
use jj_lib::op_store::{OpStore, RefTarget, RemoteRef, RemoteRefState, RemoteView, RootOperationData, View};
use jj_lib::refs::merge_ref_targets;
use jj_lib::repo::Repo;
use jj_lib::repo_path::RepoPathBuf;
use jj_lib::simple_op_store::SimpleOpStore;
use jj_lib::git;
use jj_lib::ref_name::GitRefName;
use pollster::FutureExt as _;
use testutils::{TestRepo, write_random_commit, write_random_commit_with_parents};
use crate::Rng;

fn cid(r: &mut Rng) -> CommitId { CommitId::new(vec![r.below(4) as u8; 1 + r.below(2)]) }
fn target(r: &mut Rng) -> RefTarget {
    match r.below(4) { 0 => RefTarget::normal(cid(r)), 1 => RefTarget::absent(),
        _ => { let n = 1 + 2 * r.below(3); RefTarget::from_merge(Merge::from_vec((0..n).map(|_| if r.below(4) == 0 { None } else { Some(cid(r)) }).collect::<Vec<_>>())) } }
}
pub fn c16(r: &mut Rng, n: usize) {
    let dir = tempfile::tempdir().unwrap();
    let store = SimpleOpStore::init(dir.path(), RootOperationData { root_commit_id: CommitId::new(vec![0; 4]) }).unwrap();
    let names = ["a", "b", "main", "x/y"]; let remotes = ["origin", "git", "up"];
    let (mut fail, mut idclash) = (0, 0);
    let mut seen: std::collections::HashMap<Vec<u8>, View> = Default::default();
    for _ in 0..n {
        let mut v = View::make_root(CommitId::new(vec![0; 4]));
        v.head_ids = (0..1 + r.below(3)).map(|_| cid(r)).collect::<HashSet<_>>();
        for nm in names { if r.below(2) == 0 { let t = target(r); if t.is_present() { v.local_bookmarks.insert(nm.into(), t); } } if r.below(3) == 0 { let t = target(r); if t.is_present() { v.local_tags.insert(nm.into(), t); } } }
        for rm in remotes { if r.below(2) == 0 { let mut rv = RemoteView::default();
            for nm in names { if r.below(2) == 0 { rv.bookmarks.insert(nm.into(), RemoteRef { target: target(r), state: if r.below(2)==0 { RemoteRefState::New } else { RemoteRefState::Tracked } }); }
                              if r.below(4) == 0 { rv.tags.insert(nm.into(), RemoteRef { target: target(r), state: if r.below(2)==0 { RemoteRefState::New } else { RemoteRefState::Tracked } }); } }
            v.remote_views.insert(rm.into(), rv); } }
        for nm in ["refs/heads/a", "refs/tags/t"] { if r.below(2) == 0 { v.git_refs.insert(nm.into(), target(r)); } }
        for ws in ["default", "w2"] { if r.below(3) == 0 { v.git_heads.insert(ws.into(), target(r)); } if r.below(2) == 0 { v.wc_commit_ids.insert(ws.into(), cid(r)); } }
        let id = store.write_view(&v).block_on().unwrap();
        let back = store.read_view(&id).block_on().unwrap();
        if back != v { fail += 1; if fail < 5 { println!("C16 FAIL view roundtrip\n wrote={v:?}\n read ={back:?}"); } }
        use jj_lib::object_id::ObjectId as _;
        if let Some(prev) = seen.get(id.as_bytes()) { if *prev != v { idclash += 1; } } else { seen.insert(id.to_bytes(), v); }
    }
    println!("SUMMARY3 c16_fail={fail} c16_idclash={idclash} distinct_views={}", seen.len());
}
pub fn c12(r: &mut Rng, n: usize) {
    let test_repo = TestRepo::init(); let repo = &test_repo.repo;
    let mut tx = repo.start_transaction();
    let mut commits = vec![write_random_commit(tx.repo_mut())];
    for _ in 0..9 { let np = 1 + r.below(2); let mut ps = vec![]; for _ in 0..np { let c = &commits[r.below(commits.len())]; if !ps.iter().any(|p: &&jj_lib::commit::Commit| p.id() == c.id()) { ps.push(c); } } let c = write_random_commit_with_parents(tx.repo_mut(), &ps); commits.push(c); }
    let repo = tx.commit("t").block_on().unwrap(); let index = repo.index();
    let pick = |r: &mut Rng| -> RefTarget { match r.below(5) { 0 => RefTarget::absent(), 1 | 2 | 3 => RefTarget::normal(commits[r.below(commits.len())].id().clone()), _ => RefTarget::from_merge(Merge::from_vec(vec![Some(commits[r.below(commits.len())].id().clone()), if r.below(3)==0 {None} else {Some(commits[r.below(commits.len())].id().clone())}, Some(commits[r.below(commits.len())].id().clone())])) } };
    let anc = |a: &CommitId, b: &CommitId| index.is_ancestor(a, b).block_on().unwrap();
    let mut fail = 0;
    for _ in 0..n {
        let (l, b, rt) = (pick(r), pick(r), pick(r));
        let res = merge_ref_targets(index, &l, &b, &rt).block_on().unwrap();
        let mut ok = true;
        if l == b && res != rt { ok = false; } if rt == b && res != l { ok = false; } if l == rt && res != l { ok = false; }
        if let (Some(li), Some(ri)) = (l.as_normal(), rt.as_normal()) { let base_ok = match b.as_resolved() { Some(None) => true, Some(Some(bi)) => anc(bi, li) && anc(bi, ri), None => false };
            if base_ok && anc(li, ri) && res != rt { ok = false; } if base_ok && anc(ri, li) && res != l { ok = false; } }
        let inputs: HashSet<Option<CommitId>> = l.as_merge().iter().chain(b.as_merge().iter()).chain(rt.as_merge().iter()).cloned().collect();
        if !res.as_merge().iter().all(|t| inputs.contains(t)) { ok = false; }
        if !ok { fail += 1; if fail < 5 { println!("C12 FAIL l={l:?} b={b:?} r={rt:?} res={res:?}"); } }
    }
    println!("SUMMARY3 c12_fail={fail}");
}
pub fn c33(r: &mut Rng, n: usize) {
    let parts = ["refs/heads/", "refs/remotes/", "refs/tags/", "refs/x/", ""]; let segs = ["a", "HEAD", "git", "origin", "b/c", "", "é"];
    let mut fail = 0;
    for _ in 0..n {
        let name = format!("{}{}{}", parts[r.below(parts.len())], segs[r.below(segs.len())], if r.below(2)==0 { format!("/{}", segs[r.below(segs.len())]) } else { String::new() });
        let g: &GitRefName = name.as_str().as_ref();
        if let Some((kind, sym)) = git::parse_git_ref(g) {
            // re-export direction can't be called (private); check structural expectations instead
            let valid = !name.split('/').any(|s| s.is_empty());
            let expect = match kind { git::GitRefKind::Bookmark => if sym.remote.as_str() == "git" { format!("refs/heads/{}", sym.name.as_str()) } else { format!("refs/remotes/{}/{}", sym.remote.as_str(), sym.name.as_str()) }, git::GitRefKind::Tag => format!("refs/tags/{}", sym.name.as_str()) };
            if valid && expect != name { fail += 1; if fail < 5 { println!("C33 FAIL {name} -> {kind:?} {sym:?} -> {expect}"); } }
        }
    }
    println!("SUMMARY3 c33_fail={fail}");
}
pub fn c32(r: &mut Rng, n: usize) {
    let comps = ["a", "b", ".", "..", "", "é", "c d"]; let mut fail = 0; let mut okc = 0;
    for _ in 0..n {
        let k = 1 + r.below(4); let rel: Vec<&str> = (0..k).map(|_| comps[r.below(comps.len())]).collect(); let input = rel.join("/");
        let cwd = Path::new("/ws/sub"); let base = Path::new("/ws");
        match RepoPathBuf::parse_fs_path(cwd, base, &input) {
            Ok(p) => { okc += 1; let s = p.as_internal_file_string(); let bad = s.split('/').any(|c| c == "." || c == ".." || (c.is_empty() && !s.is_empty()));
                let fs = p.to_fs_path(base); let esc = match &fs { Ok(f) => !f.starts_with(base), Err(_) => true };
                let back = fs.as_ref().ok().and_then(|f| RepoPathBuf::parse_fs_path(base, base, f).ok());
                if bad || esc || back.as_ref() != Some(&p) { fail += 1; if fail < 5 { println!("C32 FAIL input={input:?} p={p:?} fs={fs:?} back={back:?}"); } } }
            Err(_) => {}
        }
    }
    println!("SUMMARY3 c32_ok={okc} c32_fail={fail}");
    let _ = PathBuf::new(); let _: BTreeMap<u8,u8> = BTreeMap::new();
}
