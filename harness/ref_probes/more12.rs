use std::collections::HashMap;
use std::panic::{catch_unwind, AssertUnwindSafe};
use jj_lib::fileset::{self, FilesetAliasesMap, FilesetDiagnostics, FilesetParseContext};
use jj_lib::repo_path::RepoPathUiConverter;
use jj_lib::revset::{self, RevsetAliasesMap};
use crate::Rng;

const TOK: &[&str] = &["a", "b", "main", "@", "x@y", "::", "..", "|", "&", "~", "-", "+", "(", ")", ",", " ", "\"q\"", "'r'", "\"\\n\"", "\"\\x", "\"", "'", "all()", "none()", "f(", "ancestors(a, 2)", "heads(", "description(", "glob:", "exact:\"x\"", "regex:", ":", "=", "file:\"a\"", "root:", "cwd:", "é", "\u{301}", "日", "\\", "\t", "\n", "0", "9999999999999999999999", "x.y-z+w", "a/b", "*", "%", "#", "^", "$$", "latest(a,", "bisect(", "remote_bookmarks(remote=", "\u{0}"];
fn gen_in(r: &mut Rng) -> String { match r.below(10) { 0 => { let n = r.below(12); (0..n).map(|_| (r.below(256) as u8) as char).collect() } _ => { let n = 1 + r.below(10); (0..n).map(|_| TOK[r.below(TOK.len())]).collect::<Vec<_>>().concat() } } }
pub fn run(r: &mut Rng, n: usize) {
    std::panic::set_hook(Box::new(|_| {}));
    let mut aliases = RevsetAliasesMap::new(); let mut faliases = FilesetAliasesMap::new();
    for (k, v) in [("A", "B | a"), ("B", "C & b"), ("C", "A"), ("f(x)", "x | f(x)"), ("g(x, y)", "x..y"), ("h()", "g(a)"), ("p:x", "description(x)"), ("D", "((("), ("E", "\"")] { let _ = aliases.insert(k, v, None); let _ = faliases.insert(k, v, None); }
    let conv = RepoPathUiConverter::Fs { cwd: "/ws/sub".into(), base: "/ws".into() };
    let (mut panics, mut ok, mut err) = (0usize, 0usize, 0usize); let mut seen: HashMap<String, String> = HashMap::new();
    for _ in 0..n {
        let s = gen_in(r);
        let res = catch_unwind(AssertUnwindSafe(|| {
            let a = revset::parse_program(&s).map(|_| ()).is_ok();
            // parse + alias expansion + lowering through the public parse()
            let mut diag = revset::RevsetDiagnostics::new();
            let ctx_ext = revset::RevsetExtensions::default();
            let pc = revset::RevsetParseContext { aliases_map: &aliases, local_variables: Default::default(), user_email: "u@e", date_pattern_context: chrono_now().into(), default_ignored_remote: None, fileset_aliases_map: &faliases, extensions: &ctx_ext, workspace: None };
            let b = revset::parse(&mut diag, &s, &pc).is_ok();
            let mut fd = FilesetDiagnostics::new(); let fc = FilesetParseContext { aliases_map: &faliases, path_converter: &conv };
            let c = fileset::parse(&mut fd, &s, &fc).is_ok(); let d = fileset::parse_maybe_bare(&mut fd, &s, &fc).is_ok();
            (a, b, c, d) }));
        match res { Ok((a, b, c, d)) => { if a || b || c || d { ok += 1; } else { err += 1; } } Err(e) => { panics += 1; let msg = e.downcast_ref::<String>().cloned().or_else(|| e.downcast_ref::<&str>().map(|s| s.to_string())).unwrap_or_default(); if seen.len() < 8 && !seen.contains_key(&msg) { println!("C36 PANIC input={s:?} msg={msg:?}"); seen.insert(msg, s); } } }
    }
    println!("SUMMARY14 c36_inputs={n} parsed_by_some={ok} rejected_by_all={err} panics={panics}");
}
fn chrono_now() -> chrono::DateTime<chrono::Local> { chrono::Local::now() }
