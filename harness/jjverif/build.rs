// Generates the property dispatch table from the files present in src/props/ (cNN.rs).
use std::{env, fs, path::Path};
fn main() {
    let dir = Path::new("src/props");
    println!("cargo:rerun-if-changed=src/props");
    let mut names: Vec<String> = fs::read_dir(dir)
        .unwrap()
        .filter_map(|e| e.ok())
        .filter_map(|e| e.file_name().into_string().ok())
        .filter(|n| n.starts_with('c') && n.ends_with(".rs") && n[1..n.len() - 3].chars().all(|c| c.is_ascii_digit()))
        .map(|n| n[..n.len() - 3].to_string())
        .collect();
    names.sort();
    let mut s = String::new();
    let root = env::var("CARGO_MANIFEST_DIR").unwrap();
    for n in &names {
        s += &format!("#[path = \"{root}/src/props/{n}.rs\"] pub mod {n};\n");
    }
    s += "pub fn dispatch(id: &str) -> Option<fn(&crate::rt::Cfg, &mut crate::rt::Out)> {\n    match id {\n";
    for n in &names {
        s += &format!("        \"{}\" => Some({n}::run),\n", n.to_uppercase());
    }
    s += "        _ => None,\n    }\n}\n";
    s += &format!("pub const ALL: &[&str] = &[{}];\n", names.iter().map(|n| format!("\"{}\"", n.to_uppercase())).collect::<Vec<_>>().join(", "));
    fs::write(Path::new(&env::var("OUT_DIR").unwrap()).join("props_gen.rs"), s).unwrap();
}
