//! Runtime shared by all property drivers: PRNG, output files, statistics, oracle failures.
use std::collections::{BTreeMap, HashSet};
use std::fs::File;
use std::hash::{Hash, Hasher};
use std::io::{BufWriter, Write};

#[derive(Clone, Copy, PartialEq, Eq, Debug)]
pub enum Tier { Quick, Thorough }

pub struct Cfg {
    pub tier: Tier,
    pub seed: u64,
    /// replay: run only the case with this index
    pub only: Option<u64>,
    /// multiplier for random case counts (the extended search after a broken obligation uses 10)
    pub scale: u64,
    pub extra: Vec<String>,
}

impl Cfg {
    /// number of random cases: `quick` or `thorough`, times the scale
    pub fn n(&self, quick: u64, thorough: u64) -> u64 {
        (if self.tier == Tier::Quick { quick } else { thorough }) * self.scale
    }
    pub fn rng(&self, stream: u64) -> Rng {
        Rng(self.seed.wrapping_mul(0x9E3779B97F4A7C15) ^ stream.wrapping_mul(0xD1B54A32D192ED03))
    }
}

/// splitmix64; every random choice of a run derives from `VERIF_SEED`.
pub struct Rng(pub u64);
impl Rng {
    pub fn next(&mut self) -> u64 {
        self.0 = self.0.wrapping_add(0x9E3779B97F4A7C15);
        let mut z = self.0;
        z = (z ^ (z >> 30)).wrapping_mul(0xBF58476D1CE4E5B9);
        z = (z ^ (z >> 27)).wrapping_mul(0x94D049BB133111EB);
        z ^ (z >> 31)
    }
    pub fn below(&mut self, n: usize) -> usize { (self.next() % n.max(1) as u64) as usize }
    pub fn range(&mut self, lo: usize, hi_incl: usize) -> usize { lo + self.below(hi_incl - lo + 1) }
    pub fn chance(&mut self, num: usize, den: usize) -> bool { self.below(den) < num }
    pub fn pick<'a, T>(&mut self, xs: &'a [T]) -> &'a T { &xs[self.below(xs.len())] }
}

pub struct OracleFailure { pub signature: String, pub detail: String, pub case: u64 }

pub struct Out {
    pub id: String,
    dir: String,
    req: BufWriter<File>,
    imp: BufWriter<File>,
    pub evaluations: u64,
    distinct: HashSet<u64>,
    tallies: BTreeMap<String, BTreeMap<String, u64>>,
    samples: Vec<String>,
    pub oracle_evals: u64,
    pub failures: Vec<OracleFailure>,
    failure_count: u64,
    exhaustive: bool,
    notes: Vec<String>,
}

impl Out {
    pub fn create(id: &str, dir: &str) -> Self {
        std::fs::create_dir_all(dir).unwrap();
        let req = BufWriter::new(File::create(format!("{dir}/{id}.req")).unwrap());
        let imp = BufWriter::new(File::create(format!("{dir}/{id}.impl")).unwrap());
        Out { id: id.to_string(), dir: dir.to_string(), req, imp, evaluations: 0, distinct: HashSet::new(),
              tallies: BTreeMap::new(), samples: vec![], oracle_evals: 0, failures: vec![], failure_count: 0,
              exhaustive: false, notes: vec![] }
    }
    /// One correspondence case: `req` (without the property prefix) is sent to the model,
    /// `resp` is what the implementation answered.  Returns the case index.
    pub fn case(&mut self, req: &str, resp: &str) -> u64 {
        debug_assert!(!req.contains('\n') && !resp.contains('\n'));
        writeln!(self.req, "{} {}", self.id, req).unwrap();
        writeln!(self.imp, "{}", resp).unwrap();
        if self.samples.len() < 6 || (self.evaluations % 997 == 0 && self.samples.len() < 12) {
            let mut s = format!("{req} -> {resp}");
            if s.len() > 400 { s.truncate(400); s.push('…'); }
            self.samples.push(s);
        }
        self.evaluations += 1;
        self.evaluations - 1
    }
    /// A case evaluated on the implementation only (no model request), e.g. an oracle-only probe.
    pub fn impl_only(&mut self) { self.evaluations += 1; }
    /// Count a distinct non-trivial case (by hash of its canonical form).
    pub fn nontrivial<K: Hash>(&mut self, key: K) {
        let mut h = std::collections::hash_map::DefaultHasher::new();
        key.hash(&mut h);
        self.distinct.insert(h.finish());
    }
    pub fn tally(&mut self, cat: &str, key: &str) {
        *self.tallies.entry(cat.to_string()).or_default().entry(key.to_string()).or_default() += 1;
    }
    pub fn sample(&mut self, s: String) { if self.samples.len() < 16 { self.samples.push(s); } }
    pub fn note(&mut self, s: String) { self.notes.push(s); }
    pub fn set_exhaustive(&mut self, e: bool) { self.exhaustive = e; }
    /// The property's own statement, evaluated on the implementation's output, was checked once.
    pub fn oracle_ok(&mut self) { self.oracle_evals += 1; }
    /// … and found false.  `signature` classifies *how* it failed (matched against known_findings.json).
    pub fn oracle_fail(&mut self, signature: &str, detail: String) {
        self.oracle_evals += 1;
        self.failure_count += 1;
        // keep the first 5 failures of every distinct signature (so a flood of one known class
        // can never hide a failure of another kind), at most 60 signatures
        let same = self.failures.iter().filter(|f| f.signature == signature).count();
        let sigs = self.failures.iter().map(|f| f.signature.as_str()).collect::<std::collections::BTreeSet<_>>().len();
        if same < 5 && (same > 0 || sigs < 60) {
            self.failures.push(OracleFailure { signature: signature.to_string(), detail, case: self.evaluations });
        }
    }
    pub fn finish(mut self, wall: f64) {
        self.req.flush().unwrap();
        self.imp.flush().unwrap();
        let v = serde_json::json!({
            "property_id": self.id,
            "evaluations": self.evaluations,
            "distinct_nontrivial": self.distinct.len(),
            "exhaustive": self.exhaustive,
            "samples": self.samples,
            "distribution": self.tallies,
            "oracle_evaluations": self.oracle_evals,
            "oracle_failure_count": self.failure_count,
            "oracle_failures": self.failures.iter().map(|f| serde_json::json!({
                "signature": f.signature, "detail": f.detail, "case": f.case })).collect::<Vec<_>>(),
            "notes": self.notes,
            "harness_wall_s": wall,
        });
        std::fs::write(format!("{}/{}.stats.json", self.dir, self.id), serde_json::to_string_pretty(&v).unwrap()).unwrap();
    }
}

/// Run `f`, converting a panic of the implementation into `Err(message)`.
pub fn guard<T>(f: impl FnOnce() -> T) -> Result<T, String> {
    match std::panic::catch_unwind(std::panic::AssertUnwindSafe(f)) {
        Ok(v) => Ok(v),
        Err(e) => Err(if let Some(s) = e.downcast_ref::<&str>() { s.to_string() }
                      else if let Some(s) = e.downcast_ref::<String>() { s.clone() } else { "panic".into() }),
    }
}

pub fn show_list(l: &[u64]) -> String {
    if l.is_empty() { "-".into() } else { l.iter().map(|x| x.to_string()).collect::<Vec<_>>().join(",") }
}
pub fn show_opt(o: Option<u64>) -> String { match o { None => "none".into(), Some(x) => format!("some:{x}") } }
pub fn hex(b: &[u8]) -> String {
    if b.is_empty() { "-".into() } else { b.iter().map(|x| format!("{x:02x}")).collect() }
}
/// all odd-length sequences over `k` symbols of exactly `len` terms
pub fn all_seqs(len: usize, k: u64, mut f: impl FnMut(&[u64])) {
    let mut cur = vec![0u64; len];
    loop {
        f(&cur);
        let mut i = 0;
        loop {
            if i == len { return; }
            cur[i] += 1;
            if cur[i] < k { break; }
            cur[i] = 0;
            i += 1;
        }
    }
}
