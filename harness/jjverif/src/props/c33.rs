//! C33 — Git ref names and jj bookmark/tag symbols map one-to-one.
//!
//! `parse_git_ref` is public and called directly.  `to_git_ref_name` and `validate_remote_name`
//! are private; they are observed through the nearest public behaviour on a real Git-backed repo:
//!   * `export k n r`: set the single bookmark/tag `n@r` in a transaction, `git::export_refs`,
//!     read the ref name recorded in the view's `git_refs` (`none` iff the export reports
//!     `InvalidGitName`, which is exactly `to_git_ref_name(..) == None`).  Names that Git itself
//!     refuses (`FailedToSet`) are not observable and are skipped (tallied);
//!   * `validate r`: `git::rename_remote(<missing>, r)` — validates `r` first, then fails with
//!     `NoSuchRemote` (= accepted) without touching the Git config; else the error variant.
//! Strings travel as comma-separated code points.
//!
//! Oracle (from the property text):
//!   * every exported symbol (local, or remote bookmark with a remote name the real
//!     `validate_remote_name` accepts) parses back to the same (kind, name, remote);
//!   * no two distinct exported symbols (with valid remotes) share a ref name;
//!   * every ref name without empty path component (Git's rule) that parses is produced again by
//!     exporting the parsed symbol.
use crate::rt::*;
use jj_lib::backend::CommitId;
use jj_lib::git::{self, FailedRefExportReason, GitRefKind, GitRemoteManagementError, GitRemoteNameError};
use jj_lib::op_store::{RefTarget, RemoteRef, RemoteRefState};
use jj_lib::ref_name::{GitRefName, RefName, RemoteName, RemoteRefSymbol};
use jj_lib::repo::{ReadonlyRepo, Repo as _};
use pollster::FutureExt as _;
use std::collections::{BTreeSet, HashMap};
use std::sync::Arc;
use testutils::{TestRepo, TestRepoBackend};

fn cps(s: &str) -> String {
    if s.is_empty() { "-".into() } else { s.chars().map(|c| (c as u32).to_string()).collect::<Vec<_>>().join(",") }
}
fn kind_str(k: GitRefKind) -> &'static str { match k { GitRefKind::Bookmark => "b", GitRefKind::Tag => "t" } }

#[derive(Clone, Debug, PartialEq, Eq)]
enum Exported { None, Some(String), GitRejected(String), Unobservable }

struct Real { poisoned: u32, _test_repo: TestRepo, repo: Arc<ReadonlyRepo>, commit: CommitId, validate_cache: HashMap<String, String>, export_cache: HashMap<(GitRefKind, String, String), Exported> }

impl Real {
    fn new() -> Self {
        let test_repo = TestRepo::init_with_backend(TestRepoBackend::Git);
        let mut tx = test_repo.repo.start_transaction();
        let commit = testutils::write_random_commit(tx.repo_mut());
        let repo = tx.commit("c33 base").block_on().unwrap();
        Real { poisoned: 0, _test_repo: test_repo, repo, commit: commit.id().clone(), validate_cache: HashMap::new(), export_cache: HashMap::new() }
    }

    fn set(&self, mr: &mut jj_lib::repo::MutableRepo, kind: GitRefKind, name: &str, remote: &str, target: RefTarget) {
        match (kind, remote == "git") {
            (GitRefKind::Bookmark, true) => mr.set_local_bookmark_target(RefName::new(name), target),
            (GitRefKind::Bookmark, false) => mr.set_remote_bookmark(
                RemoteRefSymbol { name: RefName::new(name), remote: RemoteName::new(remote) },
                RemoteRef { target, state: RemoteRefState::New }),
            (GitRefKind::Tag, _) => mr.set_local_tag_target(RefName::new(name), target),
        }
    }

    /// the real `to_git_ref_name(kind, name@remote)` as far as `export_refs` exposes it
    fn export(&mut self, kind: GitRefKind, name: &str, remote: &str) -> Exported {
        let key = (kind, name.to_string(), remote.to_string());
        if let Some(e) = self.export_cache.get(&key) { return e.clone(); }
        let e = self.export_uncached(kind, name, remote);
        self.export_cache.insert(key, e.clone());
        e
    }

    fn export_uncached(&mut self, kind: GitRefKind, name: &str, remote: &str) -> Exported {
        if kind == GitRefKind::Tag && remote != "git" { return Exported::Unobservable; } // export never looks at remote tags
        let mut tx = self.repo.start_transaction();
        let mr = tx.repo_mut();
        self.set(mr, kind, name, remote, RefTarget::normal(self.commit.clone()));
        let before: BTreeSet<String> = mr.view().git_refs().keys().map(|k| k.as_str().to_string()).collect();
        let stats = git::export_refs(mr).unwrap();
        let failed = match kind { GitRefKind::Bookmark => &stats.failed_bookmarks, GitRefKind::Tag => &stats.failed_tags };
        let res = if let Some((_, reason)) = failed.iter().find(|(s, _)| s.name.as_str() == name && s.remote.as_str() == remote) {
            match reason {
                FailedRefExportReason::InvalidGitName => Exported::None,
                other => Exported::GitRejected(format!("{other:?}")),
            }
        } else {
            let after: Vec<String> = mr.view().git_refs().keys().map(|k| k.as_str().to_string()).filter(|k| !before.contains(k)).collect();
            match after.as_slice() {
                [one] => Exported::Some(one.clone()),
                other => Exported::GitRejected(format!("expected one new git ref, found {other:?}")),
            }
        };
        // clean up the Git repo: delete the symbol again and export the deletion
        if matches!(res, Exported::Some(_)) {
            self.set(mr, kind, name, remote, RefTarget::absent());
            // With a remote name starting with "git/" (rejected by validate_remote_name) the ref
            // just stored is `refs/remotes/git/…`, which `parse_git_ref` refuses, and the next
            // export panics ("stored git ref should be parsable").  Out of the property's scope
            // (invalid remote); start over with a fresh repo.
            let cleaned = guard(|| git::export_refs(mr).map(|stats| stats.failed_bookmarks.is_empty() && stats.failed_tags.is_empty()));
            if !matches!(cleaned, Ok(Ok(true))) {
                assert!(remote.starts_with("git/"), "cleanup export failed for {name:?}@{remote:?}: {cleaned:?}");
                drop(tx);
                let fresh = Real::new();
                self._test_repo = fresh._test_repo; self.repo = fresh.repo; self.commit = fresh.commit;
                self.poisoned += 1;
            }
        }
        res
    }

    /// the real `validate_remote_name(remote)` through `add_remote`
    fn validate(&mut self, remote: &str) -> String {
        if let Some(v) = self.validate_cache.get(remote) { return v.clone(); }
        let mut tx = self.repo.start_transaction();
        let mr = tx.repo_mut();
        // `rename_remote` validates the *new* name first and then fails with NoSuchRemote for the
        // (non-existent) old one: no side effect on the Git config
        let v = match git::rename_remote(mr, RemoteName::new("verif-no-such-remote"), RemoteName::new(remote)) {
            Err(GitRemoteManagementError::NoSuchRemote(_)) => "ok".to_string(),
            Ok(()) => "err:renamed".to_string(),
            Err(GitRemoteManagementError::RemoteName(GitRemoteNameError::ReservedForLocalGitRepo)) => "reserved".into(),
            Err(GitRemoteManagementError::RemoteName(GitRemoteNameError::WithSlash(_))) => "slash".into(),
            Err(GitRemoteManagementError::RemoteName(GitRemoteNameError::InvalidName(_))) => "invalid".into(),
            Err(e) => format!("err:{e:?}"),
        };
        self.validate_cache.insert(remote.to_string(), v.clone());
        v
    }
}

fn parse_real(g: &str) -> Option<(GitRefKind, String, String)> {
    let name: &GitRefName = g.as_ref();
    git::parse_git_ref(name).map(|(k, s)| (k, s.name.as_str().to_string(), s.remote.as_str().to_string()))
}
fn show_parse(p: &Option<(GitRefKind, String, String)>) -> String {
    match p { None => "none".into(), Some((k, n, r)) => format!("some:{}:{}:{}", kind_str(*k), cps(n), cps(r)) }
}

const ATOMS: [&str; 14] = ["a", "b", "HEAD", "git", "origin", "é", "日本", "x-y", "refs", "heads", "tags", "remotes", "HEA", "gi"];

fn gen_name(r: &mut Rng) -> String {
    match r.below(10) {
        0 => (0..r.below(5)).map(|_| *r.pick(&['a', '/', 'H', 'g'])).collect(),
        1 => String::new(),
        2 => "HEAD".into(),
        _ => {
            let k = r.range(1, 3);
            let mut s = String::new();
            for i in 0..k {
                if i > 0 { s.push('/'); }
                if r.chance(1, 25) { continue; } // empty component
                s.push_str(*r.pick(&ATOMS[..]));
                if r.chance(1, 8) { s.push_str(*r.pick(&ATOMS[..])); }
            }
            s
        }
    }
}
fn gen_remote(r: &mut Rng) -> String {
    match r.below(12) {
        0 | 1 | 2 | 3 => "git".into(),
        4 => String::new(),
        5 => format!("{}/{}", r.pick(&ATOMS), r.pick(&ATOMS)),
        6 => (0..r.below(4)).map(|_| *r.pick(&['a', '/', 'g', 'i', 't'])).collect(),
        _ => r.pick(&ATOMS).to_string(),
    }
}
fn gen_ref(r: &mut Rng) -> String {
    let prefix = *r.pick(&["refs/heads/", "refs/heads/", "refs/remotes/", "refs/remotes/", "refs/remotes/", "refs/tags/", "refs/tags/", "refs/x/", "refs/heads", "refs/remote/", "refs/jj/remote-tags/", "", "refs/remotes/git/", "refs/remotes/origin/"]);
    format!("{prefix}{}", gen_name(r))
}
fn safe_remote_alphabet(s: &str) -> bool { s.chars().all(|c| c.is_ascii_alphanumeric() || c == '-' || c == '_' || c == '/') }
fn no_empty_component(s: &str) -> bool { s.split('/').all(|c| !c.is_empty()) }

struct St { real: Real, by_ref: HashMap<String, (GitRefKind, String, String)> }

fn export_case(out: &mut Out, st: &mut St, kind: GitRefKind, name: &str, remote: &str) -> Exported {
    let e = match guard(|| st.real.export(kind, name, remote)) { Ok(e) => e, Err(p) => { out.case(&format!("export {} {} {}", kind_str(kind), cps(name), cps(remote)), "panic"); out.oracle_fail("gitref:panic", format!("export_refs panicked for {name:?}@{remote:?}: {p}")); return Exported::Unobservable; } };
    match &e {
        Exported::None => { out.case(&format!("export {} {} {}", kind_str(kind), cps(name), cps(remote)), "none"); out.tally("export", "none"); }
        Exported::Some(g) => { out.case(&format!("export {} {} {}", kind_str(kind), cps(name), cps(remote)), &format!("some:{}", cps(g))); out.tally("export", "some"); }
        Exported::GitRejected(_) => { out.impl_only(); out.tally("export", "refused-by-git(unobservable)"); }
        Exported::Unobservable => { out.tally("export", "remote-tag(unobservable)"); }
    }
    e
}

fn validate_case(out: &mut Out, st: &mut St, remote: &str) -> String {
    let known = st.real.validate_cache.contains_key(remote);
    let v = st.real.validate(remote);
    if !known && safe_remote_alphabet(remote) {
        out.case(&format!("validate {}", cps(remote)), &v);
        out.tally("validate", &v);
    }
    v
}

/// symbol → ref → symbol
fn symbol_case(out: &mut Out, st: &mut St, kind: GitRefKind, name: &str, remote: &str) {
    let e = export_case(out, st, kind, name, remote);
    let valid_remote = remote == "git" || validate_case(out, st, remote) == "ok";
    if name.contains('/') || name == "HEAD" || !valid_remote { out.nontrivial((kind_str(kind), name.to_string(), remote.to_string())); }
    let Exported::Some(g) = e else { return; };
    let back = parse_real(&g);
    out.case(&format!("parse {}", cps(&g)), &show_parse(&back));
    if !valid_remote { out.tally("premise", "invalid-remote(out of scope)"); return; }
    out.tally("premise", "valid-remote");
    let sym = (kind, name.to_string(), remote.to_string());
    if back.as_ref() != Some(&sym) {
        out.oracle_fail("gitref:exported-name-parses-to-other-symbol", format!("{sym:?} exported as {g:?} parses to {back:?}"));
        return;
    }
    match st.by_ref.get(&g) {
        Some(other) if *other != sym => out.oracle_fail("gitref:two-symbols-one-ref", format!("{sym:?} and {other:?} both export to {g:?}")),
        _ => { st.by_ref.insert(g, sym); out.oracle_ok(); }
    }
}

/// ref → symbol → ref
fn ref_case(out: &mut Out, st: &mut St, g: &str) {
    let p = match guard(|| parse_real(g)) { Ok(p) => p, Err(e) => { out.case(&format!("parse {}", cps(g)), "panic"); out.oracle_fail("gitref:panic", format!("parse_git_ref({g:?}) panicked: {e}")); return; } };
    out.case(&format!("parse {}", cps(g)), &show_parse(&p));
    out.tally("parse", if p.is_some() { "some" } else { "none" });
    let Some((kind, name, remote)) = p else { out.oracle_ok(); return; };
    out.nontrivial(g.to_string());
    let e = export_case(out, st, kind, &name, &remote);
    if !no_empty_component(g) { out.tally("git-validity", "empty-component(excluded by Git)"); return; }
    match e {
        Exported::Some(g2) if g2 == g => out.oracle_ok(),
        Exported::Some(g2) => out.oracle_fail("gitref:imported-ref-exports-to-other-name", format!("{g:?} parses to {kind:?} {name:?}@{remote:?} which exports to {g2:?}")),
        Exported::None => out.oracle_fail("gitref:imported-ref-not-exportable", format!("{g:?} parses to {kind:?} {name:?}@{remote:?} which has no Git name")),
        Exported::GitRejected(_) | Exported::Unobservable => out.tally("git-validity", "refused-by-git"),
    }
}

pub fn run(cfg: &Cfg, out: &mut Out) {
    let mut st = St { real: Real::new(), by_ref: HashMap::new() };
    // adversarial fixed cases first
    for g in ["refs/heads/", "refs/heads/HEAD", "refs/heads/HEAD/x", "refs/heads/a", "refs/heads/a/b", "refs/remotes/origin/HEAD", "refs/remotes/origin/a",
              "refs/remotes/git/a", "refs/remotes/x", "refs/remotes//x", "refs/remotes/o/", "refs/remotes/a/b/c", "refs/tags/", "refs/tags/HEAD", "refs/tags/v1",
              "refs/heads", "refs/", "", "refs/jj/remote-tags/o/t", "refs/remotes/gitx/a", "refs/remotes/gi/t"] {
        ref_case(out, &mut st, g);
    }
    for (k, n, r) in [(GitRefKind::Bookmark, "c", "a/b"), (GitRefKind::Bookmark, "b/c", "a"), (GitRefKind::Bookmark, "HEAD", "git"), (GitRefKind::Bookmark, "HEAD", "o"),
                      (GitRefKind::Tag, "HEAD", "git"), (GitRefKind::Tag, "v", "o"), (GitRefKind::Bookmark, "", "git"), (GitRefKind::Bookmark, "a", ""), (GitRefKind::Bookmark, "a", "git"),
                      (GitRefKind::Tag, "a", "git"), (GitRefKind::Bookmark, "heads/a", "git"), (GitRefKind::Bookmark, "a", "heads")] {
        symbol_case(out, &mut st, k, n, r);
    }
    for r in ["", "git", "a", "a/b", "/a", "a/", "a//b", "gi", "gitt", "git/x", "x_y-0"] { validate_case(out, &mut st, r); }
    out.note("export observed through git::export_refs on a Git-backed repo (one symbol per export); validate through git::rename_remote; parse_git_ref called directly".into());
    let mut r = cfg.rng(33);
    for _ in 0..cfg.n(2000, 30_000) {
        let kind = if r.chance(2, 3) { GitRefKind::Bookmark } else { GitRefKind::Tag };
        let (n, rem) = (gen_name(&mut r), gen_remote(&mut r));
        symbol_case(out, &mut st, kind, &n, &rem);
        let g = gen_ref(&mut r);
        ref_case(out, &mut st, &g);
        if r.chance(1, 4) { let rem = gen_remote(&mut r); validate_case(out, &mut st, &rem); }
    }
    out.note(format!("repos restarted after the stored-ref-unparsable panic on cleanup (remote name starting with git/, invalid): {}", st.real.poisoned));
}
