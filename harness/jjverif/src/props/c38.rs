//! C38 — annotations blame the commit that introduced each line (`jj_lib::annotate`).
//!
//! Cases: random histories (≤ 9 commits above the root, merges, commits that do not touch the file,
//! commits without the file) editing one file; annotate from a random commit within a random domain
//! (`all()`, `::start`, `x..start`, an arbitrary commit set containing the start).
//! Two text streams: "ordered" (every version is an increasing sequence of distinct line tokens, so
//! the line diff is forced: a line is carried over iff the token is in both versions) and "free"
//! (few distinct lines, duplicates, moves).
//! The model gets: the DAG, the evaluated search set (computed with the real revset engine), the
//! line tokens of every version, and the matching ranges of `ContentDiff::by_line` for every
//! (commit, ancestor) pair.  Compared: the complete list of line origins.
//! Oracle (property text, on the real output): text/line count; origin commit is an ancestor of the
//! start; its version has that line at that number; `Ok` origins lie in the domain; an `Ok` origin's
//! line is not matched by the line diff against any of its parents inside the domain; an `Err`
//! origin is not a commit that was searched.
use super::c37::{Dag, anc_sets, random_dag, show_dag, show_us};
use crate::rt::*;
use futures::TryStreamExt as _;
use jj_lib::annotate::FileAnnotator;
use jj_lib::backend::CommitId;
use jj_lib::commit::Commit;
use jj_lib::diff::{ContentDiff, DiffHunkKind};
use jj_lib::fileset::FilesetExpression;
use jj_lib::repo::Repo;
use jj_lib::revset::{ResolvedRevsetExpression, RevsetExpression, RevsetFilterPredicate};
use pollster::FutureExt as _;
use std::collections::{BTreeSet, HashMap};
use std::sync::Arc;
use testutils::{TestRepo, create_tree, repo_path};

/// a file version: line tokens; token `t` is the line `"L<t>\n"`, token `1000+t` the unterminated
/// line `"L<t>"` (only as last line)
type Text = Vec<usize>;

fn render(t: &Text) -> String {
    t.iter().map(|&k| if k >= 1000 { format!("L{}", k - 1000) } else { format!("L{k}\n") }).collect()
}

/// matching ranges exactly as `copy_same_lines_with` reports them
fn matching_ranges(cur: &str, par: &str) -> Vec<(usize, usize, usize)> {
    fn count_lines(t: &[u8]) -> usize { t.split_inclusive(|b| *b == b'\n').count() }
    let diff = ContentDiff::by_line([cur.as_bytes(), par.as_bytes()]);
    let (mut c, mut p, mut out) = (0usize, 0usize, vec![]);
    for h in diff.hunks() {
        match h.kind {
            DiffHunkKind::Matching => { let n = count_lines(h.contents[0]); out.push((c, p, n)); c += n; p += n; }
            DiffHunkKind::Different => { c += count_lines(h.contents[0]); p += count_lines(h.contents[1]); }
        }
    }
    out
}

fn edit_ordered(r: &mut Rng, base: &Text, alphabet: usize) -> Text {
    let mut s: BTreeSet<usize> = base.iter().copied().filter(|&k| k < 1000).chain(base.iter().filter(|&&k| k >= 1000).map(|k| k - 1000)).collect();
    for _ in 0..r.range(1, 3) {
        if r.chance(1, 3) && !s.is_empty() { let v: Vec<usize> = s.iter().copied().collect(); s.remove(r.pick(&v)); }
        else { s.insert(r.below(alphabet)); }
    }
    s.into_iter().collect()
}

fn edit_free(r: &mut Rng, base: &Text, alphabet: usize) -> Text {
    let mut t: Text = base.iter().map(|&k| if k >= 1000 { k - 1000 } else { k }).collect();
    for _ in 0..r.range(1, 3) {
        match r.below(4) {
            0 if !t.is_empty() => { let k = r.below(t.len()); t.remove(k); }
            1 if t.len() >= 2 => { let k = r.below(t.len()); let x = t.remove(k); let j = r.below(t.len() + 1); t.insert(j, x); }
            _ => { let k = r.below(t.len() + 1); t.insert(k, r.below(alphabet)); }
        }
    }
    t
}

/// F10 (known): a *merge* is blamed for a line of an in-domain parent whose content lives at a searched
/// commit `t` (the parent itself, or the commit it inherited the file from), and the edge merge -> `t`
/// was dropped from the walked graph as transitive.
const KNOWN_SIG: &str = "annotate:merge-blamed-for-line-of-parent-not-walked";

/// F11 (known): a commit is blamed for a line of an in-domain parent whose content is an auto-merge that
/// no searched commit has (the parent is, or inherits the file from, a merge that leaves the file as
/// auto-merged and is therefore outside `files(path)`); the walk compares the commit with the merge's
/// parents one by one instead of with the merge result.
const KNOWN_SIG_AUTOMERGED: &str = "annotate:blamed-for-line-of-automerged-parent-not-walked";

/// F9 (repaired in /repo a594350; listed as `fixed`, so it is a VIOLATION if it comes back)
const FIXED_SIG_UNRESOLVED: &str = "annotate:line-left-unresolved-at-start-after-root-counted-twice";

#[derive(Clone)]
enum Domain { All, AncOfStart, Range(Vec<usize>), Set(Vec<usize>) }

struct Hist { dag: Dag, texts: Vec<Option<Text>>, commits: Vec<Commit> }

fn one(out: &mut Out, repo: &dyn Repo, h: &Hist, anc: &[BTreeSet<usize>], start: usize, dom: &Domain, stream: &'static str,
       expect: Option<&str>, deferred: &mut Vec<(&'static str, String)>) {
    let n = h.dag.len() - 1;
    let path = repo_path("f");
    let idx: HashMap<CommitId, usize> = h.commits.iter().enumerate().map(|(i, c)| (c.id().clone(), i)).collect();
    let ids = |v: &[usize]| -> Arc<ResolvedRevsetExpression> { RevsetExpression::commits(v.iter().map(|&i| h.commits[i].id().clone()).collect()) };
    let (dom_expr, dom_set): (Arc<ResolvedRevsetExpression>, BTreeSet<usize>) = match dom {
        Domain::All => (RevsetExpression::all(), (0..=n).collect()),
        Domain::AncOfStart => (ids(&[start]).ancestors(), anc[start].clone()),
        Domain::Range(xs) => (ids(xs).range(&ids(&[start])),
                              anc[start].iter().copied().filter(|a| !xs.iter().any(|&x| anc[x].contains(a))).collect()),
        Domain::Set(v) => (ids(v), v.iter().copied().collect()),
    };
    let text_of = |i: usize| -> String { h.texts[i].as_ref().map(render).unwrap_or_default() };
    let start_text = text_of(start);
    let start_lines: Vec<&str> = start_text.split_inclusive('\n').collect();

    // the searched set, evaluated by the real engine exactly as `process_commits` builds it
    let heads = ids(&[start]);
    let pred = RevsetFilterPredicate::File(FilesetExpression::file_path(path.to_owned()));
    let searched_expr = heads.union(&dom_expr.intersection(&heads.ancestors()).filtered(pred));
    let searched: Vec<usize> = {
        let rs = searched_expr.clone().evaluate(repo).unwrap();
        let v: Vec<CommitId> = rs.stream().try_collect().block_on().unwrap();
        let mut v: Vec<usize> = v.iter().map(|c| idx[c]).collect();
        v.sort();
        v
    };
    // the graph the search walks (real `stream_graph` of the searched set): commit -> edge targets
    let mut missing_edges_to: HashMap<usize, usize> = HashMap::new();
    let walked: HashMap<usize, Vec<usize>> = {
        let rs = searched_expr.evaluate(repo).unwrap();
        let nodes: Vec<(CommitId, Vec<jj_lib::graph::GraphEdge<CommitId>>)> = rs.stream_graph().try_collect().block_on().unwrap();
        for (_, es) in &nodes { for e in es { if e.is_missing() { *missing_edges_to.entry(idx[&e.target]).or_default() += 1; } } }
        nodes.into_iter().map(|(c, es)| (idx[&c], es.into_iter().map(|e| idx[&e.target]).collect())).collect()
    };
    // matching ranges for every (commit, proper ancestor) pair in the ancestry of the start
    let mut diffs: Vec<String> = vec![];
    let mut sound = true;
    for &c in anc[start].iter() {
        for &t in anc[c].iter().filter(|&&t| t != c) {
            let (a, b) = (text_of(c), text_of(t));
            if a.is_empty() || b.is_empty() { continue; }
            let rs = matching_ranges(&a, &b);
            if rs.is_empty() { continue; }
            let (ta, tb) = (h.texts[c].as_ref().unwrap(), h.texts[t].as_ref().unwrap());
            for &(cs, ps, cnt) in &rs { for k in 0..cnt { if ta.get(cs + k) != tb.get(ps + k) || ta.get(cs + k).is_none() { sound = false; } } }
            diffs.push(format!("{c},{t},{}", rs.iter().map(|(x, y, z)| format!("{x},{y},{z}")).collect::<Vec<_>>().join(",")));
        }
    }
    let texts_s = h.texts.iter().map(|t| t.as_ref().map(|t| show_us(t)).unwrap_or("-".into())).collect::<Vec<_>>().join(";");
    let req = format!("ann {} {} {start} {texts_s} {}", show_dag(&h.dag), show_us(&searched), if diffs.is_empty() { "-".to_string() } else { diffs.join(";") });

    let res = guard(|| {
        let mut ann = FileAnnotator::from_commit(&h.commits[start], path).block_on().unwrap();
        ann.compute(repo, &dom_expr).block_on().unwrap();
        let a = ann.to_annotation();
        let origins: Vec<(bool, usize, usize, Vec<u8>)> = a.line_origins().map(|(o, line)| match o {
            Ok(o) => (true, idx[&o.commit_id], o.line_number, line.to_vec()),
            Err(o) => (false, idx[&o.commit_id], o.line_number, line.to_vec()) }).collect();
        (origins, a.text().to_vec())
    });
    let (origins, text) = match res {
        Err(e) => { let k = out.case(&req, "panic"); out.oracle_fail("annotate:panic", format!("case {k} {req}: {e}")); return; }
        Ok(x) => x,
    };
    let os = if origins.is_empty() { "-".to_string() } else { origins.iter().map(|(ok, c, l, _)| format!("{}{c}.{l}", if *ok { 'o' } else { 'e' })).collect::<Vec<_>>().join(",") };
    let resp = format!("sound={} n={} {os}", if sound { 1 } else { 0 }, origins.len());
    let k = out.case(&req, &resp);

    // ---- oracle ----
    let detail = |what: String| format!("case {k} [{stream}] {what}; start={start} domain={:?} searched={searched:?} dag={} texts={texts_s} -> {os}",
                                        dom_set, show_dag(&h.dag));
    let mut fail: Option<(&'static str, String)> = None;
    if text != start_text.as_bytes() || origins.len() != start_lines.len() || origins.iter().zip(&start_lines).any(|(o, l)| o.3 != l.as_bytes()) {
        fail = Some(("annotate:text-differs-from-file", detail("annotated text is not the file content".into())));
    }
    let searched_set: BTreeSet<usize> = searched.iter().copied().collect();
    // fixed scenarios: the origins that the repaired code must produce
    if let Some(want) = expect { if fail.is_none() && want != os {
        let f9 = origins.iter().enumerate().any(|(j, (ok, o, l, _))| !*ok && *o == start && *l == j);
        fail = Some((if f9 { FIXED_SIG_UNRESOLVED } else { "annotate:fixed-scenario-origins-changed" }, detail(format!("fixed scenario: expected origins {want}"))));
    } }
    // side condition for the "not carried over from a parent" clause: the domain is a contiguous range
    // (the source documents that non-contiguous domains may mask changes: TODO in `process_commits`)
    let dom_in: BTreeSet<usize> = dom_set.iter().copied().filter(|a| anc[start].contains(a)).collect();
    let contiguous = dom_in.iter().all(|&c| anc[c].iter().all(|&b| dom_in.contains(&b) || !anc[b].iter().any(|a| dom_in.contains(a))));
    out.tally("domain_contiguous", if contiguous { "yes" } else { "no" });
    for (j, (ok, o, l, line)) in origins.iter().enumerate() {
        if fail.is_some() { break; }
        let ot = text_of(*o);
        let olines: Vec<&str> = ot.split_inclusive('\n').collect();
        if !anc[start].contains(o) { fail = Some(("annotate:origin-not-ancestor", detail(format!("line {j}: commit {o} is not an ancestor of the start")))); }
        else if olines.get(*l).map(|s| s.as_bytes()) != Some(line.as_slice()) { fail = Some(("annotate:origin-lacks-line", detail(format!("line {j}: commit {o} does not have this line at {l}")))); }
        else if *ok {
            if !dom_set.contains(o) { fail = Some(("annotate:origin-outside-domain", detail(format!("line {j}: Ok origin {o} outside the domain")))); continue; }
            for &p in &h.dag[*o] {
                if !dom_set.contains(&p) || !contiguous { continue; }
                let pt = text_of(p);
                if pt.is_empty() { continue; }
                if matching_ranges(&ot, &pt).iter().any(|&(cs, _, cnt)| cs <= *l && *l < cs + cnt) {
                    // Two known classes, both with the line unmatched against every edge target the search walked
                    // from the blamed commit and the parent that has the line not among those targets.
                    // `carriers` = where the walk looks for the parent's content: the parent itself if it is
                    // searched, else the nearest searched ancestors through commits that are not searched.
                    let targets = walked.get(o).cloned().unwrap_or_default();
                    let unmatched_vs_walked = targets.iter().all(|&t| { let tt = text_of(t); tt.is_empty() || !matching_ranges(&ot, &tt).iter().any(|&(cs, _, cnt)| cs <= *l && *l < cs + cnt) });
                    let (mut carriers, mut skipped_merge, mut todo, mut seen) = (BTreeSet::new(), false, vec![p], BTreeSet::new());
                    while let Some(q) = todo.pop() {
                        if !seen.insert(q) { continue; }
                        if searched_set.contains(&q) { carriers.insert(q); continue; }
                        if h.dag[q].len() >= 2 { skipped_merge = true; }
                        todo.extend(h.dag[q].iter().copied());
                    }
                    let same_text: Vec<usize> = carriers.iter().copied().filter(|&t| text_of(t) == pt).collect();
                    // F10: the blamed commit is a merge, the parent's content lives at a searched commit, and
                    //      the edge to every such commit was dropped (transitive)
                    let f10 = h.dag[*o].len() >= 2 && !same_text.is_empty() && same_text.iter().all(|t| !targets.contains(t));
                    // F11: the parent does not touch the file, below it (through unsearched commits) there is a
                    //      merge, and no searched commit the walk can reach from it has the parent's content
                    let f11 = !searched_set.contains(&p) && skipped_merge && same_text.is_empty();
                    let sig = if !targets.contains(&p) && unmatched_vs_walked && f10 { KNOWN_SIG }
                              else if !targets.contains(&p) && unmatched_vs_walked && f11 { KNOWN_SIG_AUTOMERGED }
                              else { "annotate:line-carried-over-from-parent" };
                    fail = Some((sig, detail(format!("line {j}: blamed commit {o} line {l}, but the line is unchanged from its parent {p}, which is inside the domain (edges walked from {o}: {targets:?}; the parent's content is searched for at {carriers:?}, found at {same_text:?})"))));
                    break;
                }
            }
        } else if searched_set.contains(o) {
            // Repaired defect F9: the line still carries its initial value Err(start, j) and some commit outside
            // the searched set is the target of two or more missing edges (it used to be counted once per edge
            // in `num_unresolved_roots`, which ended the walk while other commits were still pending).
            let sig = if *o == start && *l == j && missing_edges_to.values().any(|&k| k >= 2) { FIXED_SIG_UNRESOLVED } else { "annotate:unresolved-line-at-searched-commit" };
            fail = Some((sig, detail(format!("line {j}: Err origin {o} is a commit of the searched set (missing-edge targets with multiplicity: {missing_edges_to:?})"))));
        }
    }
    match fail {
        None => out.oracle_ok(),
        // known classes are reported after all other failures (the recorded list is capped)
        Some((sig, d)) if sig == KNOWN_SIG || sig == KNOWN_SIG_AUTOMERGED => { out.tally("known_class", sig); deferred.push((sig, d)); }
        Some((sig, d)) => out.oracle_fail(sig, d),
    }

    out.tally("stream", stream);
    out.tally("domain", match dom { Domain::All => "all", Domain::AncOfStart => "::start", Domain::Range(_) => "x..start", Domain::Set(_) => "set" });
    out.tally("lines", &format!("{:>2}", origins.len().min(12)));
    let n_err = origins.iter().filter(|o| !o.0).count();
    out.tally("unresolved_lines", &n_err.min(3).to_string());
    let blamed: BTreeSet<usize> = origins.iter().map(|o| o.1).collect();
    out.tally("distinct_blamed", &blamed.len().min(5).to_string());
    if blamed.len() >= 2 { out.nontrivial((h.dag.clone(), h.texts.clone(), start, searched.clone())); }
}

fn build(tx: &mut jj_lib::transaction::Transaction, base: &Arc<jj_lib::repo::ReadonlyRepo>, counter: &mut u64, dag: &Dag, texts: &[Option<Text>]) -> Vec<Commit> {
    let path = repo_path("f");
    let root = base.store().root_commit();
    let mut commits: Vec<Commit> = vec![root];
    for i in 1..dag.len() {
        let tree = match &texts[i] { Some(t) => create_tree(base, &[(path, render(t).as_str())]), None => base.store().empty_merged_tree() };
        let parents: Vec<CommitId> = dag[i].iter().map(|&p| commits[p].id().clone()).collect();
        *counter += 1;
        let c = tx.repo_mut().new_commit(parents, tree).set_description(format!("a{counter}")).write().block_on().unwrap();
        commits.push(c);
    }
    commits
}

pub fn run(cfg: &Cfg, out: &mut Out) {
    let mut test_repo = TestRepo::init();
    let mut base = test_repo.repo.clone();
    let mut tx = base.start_transaction();
    let mut deferred: Vec<(&'static str, String)> = vec![];
    let mut made = 0usize;
    let mut counter = 0u64;
    // hand-written scenarios: (dag, texts, start, domain, expected origins)
    let scenarios: Vec<(Dag, Vec<Option<Text>>, usize, Domain, Option<&str>)> = vec![
        // Reproducer of the repaired defect F9 (/repo a594350): two children c1=3, c2=4 of the out-of-domain
        // commit t=1 both pass lines to it while the shown parent x=2 of c1 is pending. t is ONE unresolved
        // root, so the walk must go on to x and resolve line "b" there: b -> Ok(x, 0) within t..h.
        (vec![vec![], vec![0], vec![0], vec![1, 2], vec![1], vec![3, 4]],
         vec![None, Some(vec![1, 4]), Some(vec![2]), Some(vec![1, 2]), Some(vec![1, 4, 3]), Some(vec![1, 2, 4, 3])], 5, Domain::Range(vec![1]),
         Some("e1.0,o2.0,e1.1,o4.2")),
        // the same with all() as domain (no unresolved roots)
        (vec![vec![], vec![0], vec![0], vec![1, 2], vec![1], vec![3, 4]],
         vec![None, Some(vec![1, 4]), Some(vec![2]), Some(vec![1, 2]), Some(vec![1, 4, 3]), Some(vec![1, 2, 4, 3])], 5, Domain::All,
         Some("o1.0,o2.0,o1.1,o4.2")),
        // F10: merge whose second parent does not touch the file (line re-added by the merge)
        (vec![vec![], vec![0], vec![1], vec![1], vec![2, 3]],
         vec![None, Some(vec![1, 2]), Some(vec![1]), Some(vec![1, 2]), Some(vec![1, 2])], 4, Domain::All, None),
        // F11: m=4=merge(p1=2, p2=3) has exactly the auto-merged content (p1 moves the block "1 2 3" behind
        // "4 5 6 7", p2 inserts line 8), so m is outside files(path); its child c=5 only deletes lines 4, 6, 7
        // and is compared with p1 and p2 separately; against p2 the diff keeps the block "1 2 3" and not "5 8"
        (vec![vec![], vec![0], vec![1], vec![1], vec![2, 3], vec![4]],
         vec![None, Some(vec![1, 2, 3, 4, 5, 6, 7]), Some(vec![4, 5, 6, 7, 1, 2, 3]), Some(vec![1, 2, 3, 4, 5, 8, 6, 7]),
              Some(vec![4, 5, 8, 6, 7, 1, 2, 3]), Some(vec![5, 8, 1, 2, 3])], 5, Domain::All, None),
    ];
    for (dag, texts, start, dom, expect) in &scenarios {
        let commits = build(&mut tx, &base, &mut counter, dag, texts);
        let h = Hist { dag: dag.clone(), texts: texts.clone(), commits };
        let anc = anc_sets(&h.dag);
        one(out, tx.repo(), &h, &anc, *start, dom, "scenario", *expect, &mut deferred);
    }
    for (stream, seed, ordered) in [("ordered", 381u64, true), ("free", 382, false)] {
        let mut r = cfg.rng(seed);
        for _ in 0..cfg.n(3000, 60000) {
            if made > 3000 { // fresh repository: keeps index and file-predicate evaluation fast
                test_repo = TestRepo::init(); base = test_repo.repo.clone(); tx = base.start_transaction(); made = 0;
            }
            let n = r.range(2, 9);
            made += n;
            let local = *r.pick(&[0usize, 2, 3]);
            let dag = random_dag(&mut r, n, 2, local);
            let alphabet = if ordered { 12 } else { *r.pick(&[2usize, 3, 5]) };
            let mut texts: Vec<Option<Text>> = vec![None];
            for i in 1..=n {
                let ps = &dag[i];
                let base_t: Text = texts[*r.pick(ps)].clone().unwrap_or_default();
                let mut t = if r.chance(1, 5) { Some(base_t.clone()) }               // file untouched
                            else if r.chance(1, 25) { None }                                  // file absent
                            else { Some(if ordered { edit_ordered(&mut r, &base_t, alphabet) } else { edit_free(&mut r, &base_t, alphabet) }) };
                if ps.len() == 2 && r.chance(1, 2) {
                    // merges: mix in the other parent's lines
                    let other: Text = texts[ps[1]].clone().unwrap_or_default();
                    let mut m: Text = t.clone().unwrap_or_default().iter().map(|&k| if k >= 1000 { k - 1000 } else { k }).collect();
                    if ordered { let mut s: BTreeSet<usize> = m.iter().chain(other.iter()).map(|&k| if k >= 1000 { k - 1000 } else { k }).collect(); if r.chance(1, 2) && !s.is_empty() { let v: Vec<usize> = s.iter().copied().collect(); s.remove(r.pick(&v)); } m = s.into_iter().collect(); }
                    else { for &x in &other { if r.chance(1, 2) { let k = r.below(m.len() + 1); m.insert(k, if x >= 1000 { x - 1000 } else { x }); } } }
                    t = Some(m);
                }
                if let Some(tt) = t.as_mut() { if !tt.is_empty() && r.chance(1, 8) { let l = tt.len() - 1; if tt[l] < 1000 { tt[l] += 1000; } } }
                texts.push(t);
            }
            let commits = build(&mut tx, &base, &mut counter, &dag, &texts);
            let h = Hist { dag, texts, commits };
            let anc = anc_sets(&h.dag);
            for _ in 0..3 {
                let start = if r.chance(2, 3) { n } else { r.range(1, n) };
                let dom = match r.below(6) {
                    0 | 1 => Domain::All,
                    2 => Domain::AncOfStart,
                    3 | 4 => { let cands: Vec<usize> = anc[start].iter().copied().filter(|&a| a != start).collect();
                               Domain::Range((0..r.range(1, 2)).map(|_| if cands.is_empty() { 0 } else { *r.pick(&cands) }).collect()) }
                    _ => { let mut v: Vec<usize> = (0..=n).filter(|_| r.chance(1, 2)).collect(); if !v.contains(&start) { v.push(start); v.sort(); } Domain::Set(v) }
                };
                one(out, tx.repo(), &h, &anc, start, &dom, stream, None, &mut deferred);
            }
        }
    }
    out.note(format!("failures of known classes: {}", deferred.len()));
    // one example of every known signature first, then the rest
    let mut seen: BTreeSet<&'static str> = BTreeSet::new();
    let (first, rest): (Vec<_>, Vec<_>) = deferred.into_iter().partition(|(sig, _)| seen.insert(*sig));
    for (sig, d) in first.into_iter().chain(rest) { out.oracle_fail(sig, d); }
}
