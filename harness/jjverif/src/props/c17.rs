//! C17 — commit backends return on read exactly what write reported.
//!
//! `git <fix> <k> <commit>{k}`: a sequence of `Store::write_commit` calls on the real Git backend
//! (`TestRepoBackend::Git`, one repo per run, requests made independent by a per-request salt); per
//! write the *returned* commit (the one cached by `Store`), the id class (earliest write of the
//! request with the same id) and what a **freshly loaded** `GitBackend` reads for that id.
//! `simple <commit>`: the same for the simple backend.
//! Both are compared with the Lean model (`Model/GitBackend.lean`).
//!
//! Oracle (from the property text): for every accepted commit that satisfies the documented
//! invariant of `backend::Commit::conflict_labels` ("if resolved, must be empty string; otherwise
//! same number of terms as `root_tree`"): read-back == returned == cached; commits that differ get
//! different ids, equal commits equal ids; files, symlinks and trees read back identical.
//!
//! F1 switch: `JJ_VERIF_C17_SUBSECOND_AUTHOR=1` generates author timestamps that are not whole
//! seconds (and tells the model to expect the *fixed* behaviour: author truncated in the returned
//! commit).  TODO(integrator): once the `fix:` commit of notes/C17.md is applied to /repo, make
//! this the default (`SUBSECOND_AUTHOR_DEFAULT = true`).
use crate::rt::*;
use jj_lib::backend::{self, Backend as _, ChangeId, CommitId, MillisSinceEpoch, Signature, Timestamp, TreeId};
use jj_lib::git_backend::{GitBackend, synthetic_change_id_from_git_commit_id};
use jj_lib::merge::Merge;
use jj_lib::object_id::ObjectId as _;
use jj_lib::repo::Repo as _;
use jj_lib::simple_backend::SimpleBackend;
use pollster::FutureExt as _;
use std::collections::HashMap;
use testutils::{TestRepo, TestRepoBackend, create_random_tree, repo_path};

const SUBSECOND_AUTHOR_DEFAULT: bool = false; // TODO(integrator): true once F1 is fixed in /repo

fn fail(out: &mut Out, sig: &str, detail: String) { out.tally("oracle.fail", sig); if std::env::var("JJ_VERIF_DEBUG").is_ok_and(|f| sig.contains(&f)) { eprintln!("{sig}\n{detail}"); } out.oracle_fail(sig, detail); }
fn hs(s: &str) -> String { hex(s.as_bytes()) }
fn counted<T>(items: impl IntoIterator<Item = T>, f: impl Fn(T) -> String) -> String {
    let v: Vec<String> = items.into_iter().map(f).collect();
    if v.is_empty() { "0".to_string() } else { format!("{} {}", v.len(), v.join(" ")) }
}
fn show_sig(s: &Signature) -> String {
    format!("{} {} {} {}", hs(&s.name), hs(&s.email), s.timestamp.timestamp.0, s.timestamp.tz_offset)
}
/// `P n id* Q n id* T n id* L n label* C changeid D desc A sig K sig`
fn show_commit(c: &backend::Commit, change_id_override: Option<&str>) -> String {
    format!("P {} Q {} T {} L {} C {} D {} A {} K {}",
        counted(c.parents.iter(), |p| hex(p.as_bytes())),
        counted(c.predecessors.iter(), |p| hex(p.as_bytes())),
        counted(c.root_tree.iter(), |t| hex(t.as_bytes())),
        counted(c.conflict_labels.iter(), |l| hs(l)),
        change_id_override.map(str::to_string).unwrap_or_else(|| hex(c.change_id.as_bytes())),
        hs(&c.description), show_sig(&c.author), show_sig(&c.committer))
}

const PLACEHOLDER: &str = "JJ_EMPTY_STRING";
const NAMES: &[&str] = &["", "A U Thor", "é日本", "x", "name with  spaces", "a.b-c", "JJ_EMPTY_STRING2", "jj_empty_string"];
const EMAILS: &[&str] = &["", "a@example.com", "x", "é@ü", "no-at-sign", "a b"];
const DESCS: &[&str] = &["", "msg", "multi\nline\n", "no newline", "ünï\n", "\n\nleading", "trailing  \n\n", "a\n\nb\n", " ", "change-id x\n"];
const LABELS: &[&str] = &["", "side", "base é", "a b", " lead", "trail ", "x\ty", "\r"];

struct Gen { subsecond_author: bool, hostile: bool }

fn gen_ts(r: &mut Rng, subsecond: bool) -> Timestamp {
    let secs: i64 = match r.below(8) {
        0 => 0, 1 => -(r.below(100_000) as i64), 2 => -1, 3 => 253_402_300_799, // 9999-12-31
        _ => r.below(2_000_000_000) as i64,
    };
    let ms = if subsecond && r.chance(2, 3) { r.range(1, 999) as i64 } else { 0 };
    let tz = match r.below(6) { 0 => 0, 1 => -720, 2 => 840, 3 => -(r.below(721) as i32), _ => r.below(841) as i32 };
    Timestamp { timestamp: MillisSinceEpoch(secs * 1000 + ms), tz_offset: tz }
}
fn gen_sig(r: &mut Rng, g: &Gen, subsecond: bool) -> Signature {
    let mut name: String = (*r.pick(NAMES)).into();
    let mut email: String = (*r.pick(EMAILS)).into();
    // (the placeholder itself and names with surrounding whitespace are *planted*, see `planted_known`)
    if g.hostile && r.chance(1, 4) { name = (*r.pick(&["a<b", "a>b", "a\nb", "<", "a\0b", "in ner"])).into(); }
    if g.hostile && r.chance(1, 4) { email = (*r.pick(&["a<b", "a>b", "a\nb", ">", "<>"])).into(); }
    let mut timestamp = gen_ts(r, subsecond);
    if g.hostile && r.chance(1, 3) { timestamp.tz_offset = *r.pick(&[841, 1439, 1440, -1440, 5939, -721, -5939, 3000]); }
    if g.hostile && r.chance(1, 4) { timestamp.timestamp = MillisSinceEpoch(*r.pick(&[i64::MAX / 2, i64::MIN / 2, 253_402_300_800_000, -62_167_219_200_000 - 1000])); }
    if !subsecond { timestamp.timestamp = MillisSinceEpoch(timestamp.timestamp.0.div_euclid(1000) * 1000); }
    Signature { name, email, timestamp }
}

struct Pools { trees: Vec<TreeId>, root: CommitId }

fn gen_commit(r: &mut Rng, g: &Gen, pools: &Pools, prior: &[CommitId], salt: u64) -> backend::Commit {
    let mut parents: Vec<CommitId> = vec![];
    let np = match r.below(6) { 0 => 2, 1 if !prior.is_empty() => 3, _ => 1 };
    for _ in 0..np {
        let p = if prior.is_empty() || r.chance(1, 3) { pools.root.clone() } else { r.pick(prior).clone() };
        if !parents.contains(&p) { parents.push(p); }
    }
    if parents.len() > 1 && !(g.hostile && r.chance(1, 2)) { parents.retain(|p| *p != pools.root); }
    if g.hostile && r.chance(1, 12) { parents.clear(); }
    let conflicted = r.chance(1, 3);
    let (root_tree, conflict_labels) = if conflicted {
        let k = 3 + 2 * r.below(2);
        let trees = Merge::from_vec((0..k).map(|_| r.pick(&pools.trees).clone()).collect::<Vec<_>>());
        let labels = match r.below(10) {
            0 | 1 | 2 => Merge::resolved(String::new()),
            3 if g.hostile => Merge::from_vec((0..k + 2).map(|i| format!("l{i}")).collect::<Vec<_>>()), // arity mismatch
            4 if g.hostile => Merge::resolved("resolved but not empty".to_string()),
            _ => {
                let mut ls: Vec<String> = (0..k).map(|_| (*r.pick(LABELS)).to_string()).collect();
                if ls.iter().all(|l| l.is_empty()) { ls[0] = "side".into(); } // all-empty labels are planted, not random
                Merge::from_vec(ls)
            }
        };
        (trees, labels)
    } else {
        let labels = match r.below(12) {
            0 if g.hostile => Merge::resolved("x".to_string()),
            1 if g.hostile => Merge::from_vec(vec!["a".to_string(), "b".to_string(), "c".to_string()]), // labels on a resolved tree
            _ => Merge::resolved(String::new()),
        };
        (Merge::resolved(r.pick(&pools.trees).clone()), labels)
    };
    let mut change_id: Vec<u8> = salt.to_be_bytes().to_vec();
    change_id.extend((0..8).map(|_| r.below(3) as u8 * 127));
    if g.hostile { match r.below(6) { 0 => change_id.clear(), 1 => change_id.truncate(9), 2 => change_id.push(1), _ => {} } }
    let predecessors = match r.below(4) {
        0 if !prior.is_empty() => vec![r.pick(prior).clone()],
        1 => vec![CommitId::new(vec![r.below(3) as u8; 20]), CommitId::new(vec![7; 20])],
        2 if g.hostile => vec![CommitId::new(vec![1, 2, 3])],
        _ => vec![],
    };
    backend::Commit {
        parents, predecessors, root_tree, conflict_labels,
        change_id: ChangeId::new(change_id),
        description: (*r.pick(DESCS)).into(),
        author: gen_sig(r, g, g.subsecond_author),
        committer: gen_sig(r, g, true),
        secure_sig: None,
    }
}

/// the documented invariants of `backend::Commit` (the oracle's domain)
fn documented_wf(c: &backend::Commit) -> bool {
    if c.conflict_labels.is_resolved() { c.conflict_labels.first().is_empty() }
    else { c.conflict_labels.num_sides() == c.root_tree.num_sides() }
}
fn tz_in_git_range(c: &backend::Commit) -> bool {
    // Git's "+HHMM" zone field; the property's quantifier names real-world offsets
    [&c.author, &c.committer].iter().all(|s| (-5939..=5939).contains(&s.timestamp.tz_offset))
}
fn diff_fields(a: &backend::Commit, b: &backend::Commit) -> Vec<&'static str> {
    let mut why = vec![];
    if a.parents != b.parents { why.push("parents"); }
    if a.predecessors != b.predecessors { why.push("predecessors"); }
    if a.root_tree != b.root_tree { why.push("root_tree"); }
    if a.conflict_labels != b.conflict_labels { why.push("labels"); }
    if a.change_id != b.change_id { why.push("change_id"); }
    if a.description != b.description { why.push("description"); }
    if a.author.name != b.author.name || a.committer.name != b.committer.name { why.push("name"); }
    if a.author.email != b.author.email || a.committer.email != b.committer.email { why.push("email"); }
    if a.author.timestamp != b.author.timestamp { why.push("author_ts"); }
    if a.committer.timestamp != b.committer.timestamp { why.push("committer_ts"); }
    if a.secure_sig != b.secure_sig { why.push("secure_sig"); }
    why
}
fn trunc_author(c: &backend::Commit) -> backend::Commit {
    let mut c = c.clone();
    c.author.timestamp.timestamp = MillisSinceEpoch(c.author.timestamp.timestamp.0.div_euclid(1000) * 1000);
    c
}
fn placeholder_to_empty(c: &backend::Commit) -> backend::Commit {
    let mut c = c.clone();
    for s in [&mut c.author, &mut c.committer] {
        if s.name == PLACEHOLDER { s.name.clear(); }
        if s.email == PLACEHOLDER { s.email.clear(); }
    }
    c
}

fn trim_names(c: &backend::Commit) -> backend::Commit {
    let mut c = c.clone();
    for s in [&mut c.author, &mut c.committer] {
        s.name = s.name.trim().to_string();
        s.email = s.email.trim().to_string();
    }
    c
}

/// read-back == returned?  A difference is attributed to the smallest set of the three known
/// normalisations the Git backend applies on disk (each is reported under its own signature).
fn judge_readback(out: &mut Out, backend: &str, input: &backend::Commit, returned: &backend::Commit, read: &backend::Commit) -> bool {
    if returned == read { out.oracle_ok(); return true; }
    let detail = format!("input    {}\nreturned {}\nread     {}", show_commit(input, None), show_commit(returned, None), show_commit(read, None));
    if backend == "git" {
        let norms: [(&str, fn(&backend::Commit) -> backend::Commit); 3] = [
            ("gitbackend:returned-author-ms-not-truncated", trunc_author),
            ("gitbackend:name-email-whitespace-trimmed", trim_names),
            ("gitbackend:empty-string-placeholder-collision", placeholder_to_empty),
        ];
        let mut masks: Vec<u32> = (1..8).collect();
        masks.sort_by_key(|m: &u32| m.count_ones());
        for m in masks {
            let mut x = returned.clone();
            for (i, (_, f)) in norms.iter().enumerate() { if m & (1 << i) != 0 { x = f(&x); } }
            if x == *read {
                for (i, (sig, _)) in norms.iter().enumerate() { if m & (1 << i) != 0 { fail(out, sig, detail.clone()); } }
                return false;
            }
        }
    }
    if backend == "simple" && !returned.conflict_labels.is_resolved() && returned.conflict_labels.iter().all(|l| l.is_empty())
        && read.conflict_labels == Merge::resolved(String::new()) && diff_fields(returned, read) == vec!["labels"] {
        fail(out, "simplebackend:all-empty-labels-normalized", detail);
    } else {
        fail(out, &format!("{backend}backend:readback-differs:{}", diff_fields(returned, read).join("+")), detail);
    }
    false
}

fn classify_err(e: &str) -> String {
    if e.contains("no parents") { "err:noparents".into() }
    else if e.contains("does not support creating merge commits with the root") { "err:rootmerge".into() }
    else if e.contains("Invalid hash length") { "err:hashlen".into() }
    else if e.contains("Could not write object of type commit") { "err:writeobject".into() }
    else { format!("err:other:{}", e.chars().take(80).collect::<String>().replace([' ', '\n'], "_")) }
}

/// The three known findings are exercised rarely but deliberately: a fixed handful of planted
/// commits at the *end* of each backend's run (so that at most ~10 of the 25 recorded oracle
/// failures can be known ones and any new kind of failure is always recorded and reported).
fn planted_known(r: &mut Rng, g: &Gen, pools: &Pools, salt0: u64, backend: &str) -> Vec<backend::Commit> {
    let mut v = vec![];
    let fresh = |r: &mut Rng, i: u64| {
        let mut c = gen_commit(r, g, pools, &[], salt0 + i);
        c.author.timestamp.timestamp = MillisSinceEpoch(c.author.timestamp.timestamp.0.div_euclid(1000) * 1000);
        c
    };
    if backend == "git" {
        let mut c = fresh(r, 0); c.author.name = PLACEHOLDER.into(); v.push(c);
        let mut c = fresh(r, 1); c.committer.email = PLACEHOLDER.into(); v.push(c);
        let mut c = fresh(r, 2); c.author.email = PLACEHOLDER.into(); c.committer.name = PLACEHOLDER.into(); v.push(c);
        let mut c = fresh(r, 3); c.author.name = " lead".into(); c.committer.email = "trail ".into(); v.push(c);
        let mut c = fresh(r, 4); c.committer.name = "\ttab\u{a0}".into(); c.author.email = "\u{2003}em\r".into(); v.push(c);
        let mut c = fresh(r, 5); c.author.name = "wide\u{3000}".into(); c.committer.name = " ".into(); v.push(c);
    } else {
        for (i, k) in [3usize, 5, 3].into_iter().enumerate() {
            let mut c = fresh(r, 6 + i as u64);
            c.root_tree = Merge::from_vec((0..k).map(|_| r.pick(&pools.trees).clone()).collect::<Vec<_>>());
            c.conflict_labels = Merge::from_vec(vec![String::new(); k]);
            v.push(c);
        }
    }
    v
}

struct IdBook { by_id: HashMap<Vec<u8>, String>, by_value: HashMap<String, Vec<u8>> }
impl IdBook {
    fn check(&mut self, out: &mut Out, backend: &str, id: &CommitId, value_read: &backend::Commit) {
        let text = show_commit(value_read, None);
        match self.by_id.get(id.as_bytes()) {
            Some(prev) if *prev != text => fail(out, &format!("{backend}backend:same-id-different-commits"), format!("{}\n  {prev}\n  {text}", id.hex())),
            _ => out.oracle_ok(),
        }
        match self.by_value.get(&text) {
            // the same stored value under two ids is only legitimate for the Git backend's
            // placeholder collision (reported separately); anything else is reported
            Some(prev) if prev != id.as_bytes() => fail(out, &format!("{backend}backend:equal-commits-different-ids"), format!("{text}: {} vs {}", hex(prev), id.hex())),
            _ => out.oracle_ok(),
        }
        self.by_id.insert(id.to_bytes(), text.clone());
        self.by_value.insert(text, id.to_bytes());
    }
}

fn run_git(cfg: &Cfg, out: &mut Out, g0: &Gen) {
    let test_repo = TestRepo::init_with_backend(TestRepoBackend::Git);
    let repo = &test_repo.repo;
    let store = repo.store();
    let store_path = test_repo.repo_path().join("store");
    let settings = testutils::user_settings();
    let pools = Pools {
        trees: (0..4).map(|_| create_random_tree(repo).into_tree_ids().into_resolved().unwrap())
            .chain([store.empty_tree_id().clone()]).collect(),
        root: store.root_commit_id().clone(),
    };
    let mut book = IdBook { by_id: HashMap::new(), by_value: HashMap::new() };
    let mut r = cfg.rng(171);
    let fix = if g0.subsecond_author { 1 } else { 0 };
    let n = cfg.n(800, 20_000);
    let plain = Gen { subsecond_author: g0.subsecond_author, hostile: false };
    let planted = planted_known(&mut r, &plain, &pools, (n + 1) * 4, "git");
    for case in 0..n + planted.len() as u64 {
        let planted_case = case.checked_sub(n).map(|i| planted[i as usize].clone());
        let hostile = case % 8 == 7 && planted_case.is_none();
        let g = Gen { subsecond_author: g0.subsecond_author, hostile };
        let k = if planted_case.is_some() { 1 } else { r.range(1, 3) };
        let mut prior: Vec<CommitId> = vec![];
        let mut inputs: Vec<backend::Commit> = vec![];
        let mut results: Vec<Result<(CommitId, backend::Commit), String>> = vec![];
        for j in 0..k {
            // later writes: often a near-copy of an earlier one (same Git object, different extras ⇒ the
            // committer-timestamp adjustment loop), else a fresh commit possibly on top of the earlier ones
            let c = if let Some(c) = &planted_case { c.clone() } else if j > 0 && r.chance(1, 2) {
                let mut c = inputs[r.below(inputs.len())].clone();
                match r.below(5) {
                    0 => c.predecessors.push(CommitId::new(vec![9; 20])),
                    1 => { c.predecessors.clear(); }
                    2 => {}
                    3 => c.author.timestamp.tz_offset = c.author.timestamp.tz_offset.wrapping_add(1),
                    _ => c.committer.timestamp.timestamp.0 = c.committer.timestamp.timestamp.0.saturating_sub(1000).max(i64::MIN + 1000),
                }
                c
            } else { gen_commit(&mut r, &g, &pools, &prior, case * 4 + j as u64) };
            let res = guard(|| store.write_commit(c.clone(), None).block_on());
            let res = match res {
                Err(p) => Err(if c.parents.is_empty() { "err:noparents".to_string() } else { format!("panic:{p}") }),
                Ok(Err(e)) => Err(classify_err(&format!("{e}"))),
                Ok(Ok(w)) => { prior.push(w.id().clone()); Ok((w.id().clone(), (**w.store_commit()).clone())) }
            };
            inputs.push(c);
            results.push(res);
        }
        // read everything back through a freshly loaded backend
        let fresh = GitBackend::load(&settings, &store_path).unwrap();
        let mut req = format!("git {fix} {k}");
        let mut ans: Vec<String> = vec![];
        for (j, (c, res)) in inputs.iter().zip(&results).enumerate() {
            req += &format!(" {}", show_commit(c, None));
            out.tally("git.kind", if planted_case.is_some() { "planted-known-finding" } else if hostile { "hostile" } else { "plain" });
            match res {
                Err(e) => {
                    ans.push(if e.starts_with("panic") { "panic".to_string() } else { e.clone() });
                    out.tally("git.result", if e.starts_with("panic") { "panic" } else { e });
                    if e.starts_with("panic") && documented_wf(c) && !c.conflict_labels.iter().any(|l| l.contains('\n')) {
                        fail(out, "gitbackend:panic", format!("{}: {e}", show_commit(c, None)));
                    }
                }
                Ok((id, returned)) => {
                    let cls = results.iter().position(|r2| matches!(r2, Ok((id2, _)) if id2 == id)).unwrap();
                    let read = guard(|| fresh.read_commit(id).block_on());
                    let read_txt = match &read {
                        Ok(Ok(b)) => {
                            let syn = c.change_id.as_bytes().is_empty() && b.change_id == synthetic_change_id_from_git_commit_id(id);
                            show_commit(b, if syn { Some("syn") } else { None })
                        }
                        Ok(Err(e)) => classify_err(&format!("{e}")),
                        Err(_) => "panic".to_string(),
                    };
                    ans.push(format!("ok {cls} R {} B {}", show_commit(returned, None), read_txt));
                    out.tally("git.result", "ok");
                    out.tally("git.tree", if c.root_tree.is_resolved() { "resolved" } else if c.conflict_labels.is_resolved() { "conflict-unlabeled" } else { "conflict-labeled" });
                    if cls != j { out.tally("git.collision", "same-id-as-earlier-write"); }
                    if returned.committer.timestamp.timestamp.0 != c.committer.timestamp.timestamp.0.div_euclid(1000) * 1000 { out.tally("git.collision", "committer-adjusted"); }
                    if !c.root_tree.is_resolved() || c.parents.len() > 1 || !c.predecessors.is_empty() { out.nontrivial(("g", show_commit(c, None))); }
                    // ---- oracle ----
                    let in_domain = documented_wf(c) && tz_in_git_range(c) && !c.change_id.as_bytes().is_empty();
                    if in_domain {
                        match &read {
                            Ok(Ok(b)) => {
                                if judge_readback(out, "git", c, returned, b) { book.check(out, "git", id, b); }
                            }
                            other => fail(out, "gitbackend:unreadable", format!("{}: {:?}", show_commit(c, None), other.as_ref().map(|r| r.as_ref().map(|_| ()).map_err(|e| e.to_string())))),
                        }
                        match store.get_commit(id) {
                            Ok(cached) if **cached.store_commit() == *returned => out.oracle_ok(),
                            _ => fail(out, "gitbackend:cache-differs-from-returned", show_commit(c, None)),
                        }
                    }
                }
            }
        }
        out.case(&req, &ans.join(" ; "));
    }
}

fn run_simple(cfg: &Cfg, out: &mut Out) {
    let test_repo = TestRepo::init_with_backend(TestRepoBackend::Simple);
    let repo = &test_repo.repo;
    let store = repo.store();
    let store_path = test_repo.repo_path().join("store");
    let pools = Pools {
        trees: (0..4).map(|_| create_random_tree(repo).into_tree_ids().into_resolved().unwrap())
            .chain([store.empty_tree_id().clone()]).collect(),
        root: store.root_commit_id().clone(),
    };
    let mut book = IdBook { by_id: HashMap::new(), by_value: HashMap::new() };
    let mut r = cfg.rng(172);
    let mut prior: Vec<CommitId> = vec![];
    let mut inputs: Vec<backend::Commit> = vec![];
    let n = cfg.n(1600, 40_000);
    let planted = planted_known(&mut r, &Gen { subsecond_author: true, hostile: false }, &pools, 1000, "simple");
    for case in 0..n + planted.len() as u64 {
        let planted_case = case.checked_sub(n).map(|i| planted[i as usize].clone());
        let hostile = case % 8 == 7 && planted_case.is_none();
        let g = Gen { subsecond_author: true, hostile };
        // salt only sometimes: exact duplicates and near-duplicates must occur
        let c = if let Some(c) = planted_case.clone() { c } else if !inputs.is_empty() && r.chance(1, 5) {
            let mut c = inputs[r.below(inputs.len())].clone();
            match r.below(6) {
                0 => {}
                1 => c.author.timestamp.timestamp.0 = c.author.timestamp.timestamp.0.wrapping_add(1),
                2 => c.committer.timestamp.tz_offset = c.committer.timestamp.tz_offset.wrapping_sub(1),
                3 => { let ch = c.description.pop(); if let Some(ch) = ch { c.author.name.insert(0, ch); } else { c.description.push('x'); } }
                4 => std::mem::swap(&mut c.parents, &mut c.predecessors),
                _ => { if c.conflict_labels.is_resolved() { c.change_id = ChangeId::new(vec![]); } else { c.conflict_labels = Merge::resolved(String::new()); } }
            }
            c
        } else { let salt = r.below(50) as u64; gen_commit(&mut r, &g, &pools, &prior, salt) };
        out.tally("simple.kind", if planted_case.is_some() { "planted-known-finding" } else if hostile { "hostile" } else { "plain" });
        let req = format!("simple {}", show_commit(&c, None));
        let res = guard(|| store.write_commit(c.clone(), None).block_on());
        match res {
            Err(p) => {
                let noparents = c.parents.is_empty();
                out.case(&req, if noparents { "err:noparents" } else { "panic" });
                out.tally("simple.result", if noparents { "err:noparents" } else { "panic" });
                if !noparents { fail(out, "simplebackend:panic", format!("{}: {p}", show_commit(&c, None))); }
            }
            Ok(Err(e)) => { let k = classify_err(&format!("{e}")); out.case(&req, &k); out.tally("simple.result", &k); }
            Ok(Ok(w)) => {
                let id = w.id().clone();
                let returned = (**w.store_commit()).clone();
                let fresh = SimpleBackend::load(&store_path);
                let read = guard(|| fresh.read_commit(&id).block_on());
                let read_txt = match &read { Ok(Ok(b)) => show_commit(b, None), Ok(Err(e)) => classify_err(&format!("{e}")), Err(_) => "panic".into() };
                // the byte stream hashed for the id (recording digest), and id == BLAKE2b of it
                struct Rec(Vec<u8>);
                impl jj_lib::content_hash::DigestUpdate for Rec { fn update(&mut self, d: &[u8]) { self.0.extend_from_slice(d); } }
                struct Raw<'a>(&'a [u8]);
                impl jj_lib::content_hash::ContentHash for Raw<'_> { fn hash(&self, st: &mut impl jj_lib::content_hash::DigestUpdate) { st.update(self.0); } }
                let mut rec = Rec(vec![]);
                jj_lib::content_hash::ContentHash::hash(&returned, &mut rec);
                out.case(&req, &format!("ok H {} R {} B {}", hex(&rec.0), show_commit(&returned, None), read_txt));
                if jj_lib::content_hash::blake2b_hash(&Raw(&rec.0)).as_slice() == id.as_bytes() { out.oracle_ok(); }
                else { fail(out, "simplebackend:id-not-hash-of-encoding", show_commit(&c, None)); }
                out.tally("simple.result", "ok");
                if !c.root_tree.is_resolved() || c.parents.len() > 1 || !c.predecessors.is_empty() { out.nontrivial(("s", show_commit(&c, None))); }
                if documented_wf(&c) {
                    if returned == c { out.oracle_ok(); } else { fail(out, "simplebackend:returned-differs-from-written", show_commit(&c, None)); }
                    match &read {
                        Ok(Ok(b)) => { if judge_readback(out, "simple", &c, &returned, b) { book.check(out, "simple", &id, b); } }
                        _ => fail(out, "simplebackend:unreadable", show_commit(&c, None)),
                    }
                }
                if r.chance(1, 3) && prior.len() < 40 { prior.push(id); }
            }
        }
        inputs.push(c);
        if inputs.len() > 60 { inputs.remove(0); }
    }
}

/// files, symlinks, trees: byte-identical read-back (oracle only; the model is the identity store)
fn run_objects(cfg: &Cfg, out: &mut Out) {
    use jj_lib::backend::{Tree, TreeValue, CopyId};
    use jj_lib::repo_path::RepoPathComponentBuf;
    for (backend, bname) in [(TestRepoBackend::Git, "git"), (TestRepoBackend::Simple, "simple")] {
        let test_repo = TestRepo::init_with_backend(backend);
        let store = test_repo.repo.store();
        let b = store.backend();
        let mut r = cfg.rng(173);
        let path = repo_path("dir/file");
        let mut file_ids = vec![];
        let mut symlink_ids = vec![];
        for _ in 0..cfg.n(150, 3000) {
            let len = *r.pick(&[0usize, 1, 2, 7, 64, 1000, 5000]);
            let content: Vec<u8> = (0..len).map(|_| *r.pick(&[0u8, b'\n', b'\r', b'a', 0xff, 0x80, b'<'])).collect();
            let res = guard(|| {
                let id = b.write_file(path, &mut content.as_slice()).block_on().unwrap();
                let back = testutils::read_file(store, path, &id);
                (id, back)
            });
            out.impl_only();
            out.tally("objects", &format!("{bname}.file"));
            match res { Ok((id, back)) if back == content => { out.oracle_ok(); file_ids.push(id); }
                        _ => fail(out, &format!("{bname}backend:file-readback-differs"), format!("{content:?}")) }
            let target: String = (0..r.below(6)).map(|_| *r.pick(&["a", "/", "..", "é", " ", "\n", "\\"])).collect();
            let res = guard(|| { let id = b.write_symlink(path, &target).block_on().unwrap(); (b.read_symlink(path, &id).block_on().unwrap(), id) });
            out.impl_only();
            out.tally("objects", &format!("{bname}.symlink"));
            match res { Ok((back, id)) if back == target => { out.oracle_ok(); symlink_ids.push(id); }
                        _ => fail(out, &format!("{bname}backend:symlink-readback-differs"), format!("{target:?}")) }
        }
        let mut tree_ids = vec![];
        for _ in 0..cfg.n(150, 3000) {
            let mut entries: Vec<(RepoPathComponentBuf, TreeValue)> = vec![];
            for name in ["a", "b", "c.txt", "d é", "z"] {
                if r.chance(1, 2) {
                    let v = match r.below(4) {
                        0 if !symlink_ids.is_empty() => TreeValue::Symlink(r.pick(&symlink_ids).clone()),
                        1 if !tree_ids.is_empty() => TreeValue::Tree(r.pick::<TreeId>(&tree_ids).clone()),
                        _ => TreeValue::File { id: r.pick(&file_ids).clone(), executable: r.chance(1, 2), copy_id: CopyId::placeholder() },
                    };
                    entries.push((RepoPathComponentBuf::new(name).unwrap(), v));
                }
            }
            let tree = Tree::from_sorted_entries(entries);
            let dir = repo_path("dir");
            let res = guard(|| { let id = b.write_tree(dir, &tree).block_on().unwrap(); (b.read_tree(dir, &id).block_on().unwrap(), id) });
            out.impl_only();
            out.tally("objects", &format!("{bname}.tree"));
            match res { Ok((back, id)) if back == tree => { out.oracle_ok(); tree_ids.push(id); }
                        _ => fail(out, &format!("{bname}backend:tree-readback-differs"), format!("{tree:?}")) }
        }
    }
}

pub fn run(cfg: &Cfg, out: &mut Out) {
    let subsecond = match std::env::var("JJ_VERIF_C17_SUBSECOND_AUTHOR").ok().as_deref() {
        Some("1") => true, Some("0") => false, _ => SUBSECOND_AUTHOR_DEFAULT,
    };
    out.note(format!("sub-second author timestamps on the Git backend: {} (JJ_VERIF_C17_SUBSECOND_AUTHOR)", if subsecond { "generated" } else { "NOT generated (F1 pending)" }));
    let prev_hook = std::panic::take_hook();
    let debug = std::env::var("JJ_VERIF_DEBUG").is_ok();
    std::panic::set_hook(Box::new(move |info| { if debug { eprintln!("{info}"); } }));
    let g0 = Gen { subsecond_author: subsecond, hostile: false };
    run_git(cfg, out, &g0);
    run_simple(cfg, out);
    run_objects(cfg, out);
    std::panic::set_hook(prev_hook);
}
