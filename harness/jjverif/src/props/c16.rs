//! C16 — operations and views round-trip through `SimpleOpStore` and are content-addressed.
//!
//! Per case the real code is observed at three points:
//!   1. the byte stream `ContentHash::hash` feeds to the digest (a recording `DigestUpdate`);
//!   2. the protobuf message `write_view`/`write_operation` put on disk (file decoded with prost);
//!   3. the value `read_view`/`read_operation` return from a *fresh* store instance.
//! All three are compared with the Lean model (`encView`, `viewToProto`, `viewRoundTrip`, …).
//!
//! Oracle (from the property text, independent of the model):
//!   * read(write(x)) == x for every well-formed x;
//!   * the id is the BLAKE2b-512 of the recorded stream, is the same in another store (depends on
//!     the value only), and over everything generated in the run: equal ids ⇔ equal values ⇔ equal
//!     hashed streams (near-duplicates are generated on purpose).
//! Well-formed = what the `View` layer (`view.rs`) maintains: no *absent* target stored for a local
//! bookmark (the on-disk legacy bookmark form cannot represent it; `set_local_bookmark_target`
//! removes such entries).  Ill-formed views/operations are still run for correspondence.
use crate::rt::*;
use jj_lib::backend::{CommitId, MillisSinceEpoch, Timestamp};
use jj_lib::content_hash::{ContentHash, DigestUpdate, blake2b_hash};
use jj_lib::merge::Merge;
use jj_lib::object_id::ObjectId as _;
use jj_lib::op_store::{
    OpStore, Operation, OperationId, OperationMetadata, RefTarget, RemoteRef, RemoteRefState, RemoteView,
    RootOperationData, TimestampRange, View, ViewId,
};
use jj_lib::protos::simple_op_store as pb;
use jj_lib::ref_name::{GitRefNameBuf, RefNameBuf, RemoteNameBuf, WorkspaceNameBuf};
use jj_lib::simple_op_store::SimpleOpStore;
use pollster::FutureExt as _;
use prost::Message as _;
use std::collections::{BTreeMap, HashMap, HashSet};
use std::path::Path;

struct Rec(Vec<u8>);
impl DigestUpdate for Rec {
    fn update(&mut self, data: &[u8]) { self.0.extend_from_slice(data); }
}
struct Raw<'a>(&'a [u8]);
impl ContentHash for Raw<'_> {
    fn hash(&self, state: &mut impl DigestUpdate) { state.update(self.0); }
}
fn hashed_stream(x: &impl ContentHash) -> Vec<u8> {
    let mut r = Rec(vec![]);
    x.hash(&mut r);
    r.0
}

// ---------- canonical printing (mirrors lean/JjModel/Drv/C16.lean) ----------
fn hx(b: &[u8]) -> String { hex(b) }
fn hs(s: &str) -> String { hex(s.as_bytes()) }
fn counted<T>(items: impl IntoIterator<Item = T>, f: impl Fn(T) -> String) -> String {
    let v: Vec<String> = items.into_iter().map(f).collect();
    if v.is_empty() { "0".to_string() } else { format!("{} {}", v.len(), v.join(" ")) }
}
fn term(t: &Option<CommitId>) -> String { match t { None => "~".into(), Some(id) => hx(id.as_bytes()) } }
fn target(t: &RefTarget) -> String {
    let terms: Vec<String> = t.as_merge().iter().map(term).collect();
    format!("T{} {}", terms.len(), terms.join(" "))
}
fn state(s: RemoteRefState) -> &'static str { match s { RemoteRefState::New => "N", RemoteRefState::Tracked => "K" } }
fn remote_refs(m: &BTreeMap<jj_lib::ref_name::RefNameBuf, RemoteRef>) -> String {
    counted(m.iter(), |(n, r)| format!("{} {} {}", hs(n.as_str()), target(&r.target), state(r.state)))
}
fn show_view(v: &View) -> String {
    let mut heads: Vec<&CommitId> = v.head_ids.iter().collect();
    heads.sort();
    format!("H {} LB {} LT {} RV {} GR {} GH {} WC {}",
        counted(heads, |id| hx(id.as_bytes())),
        counted(v.local_bookmarks.iter(), |(n, t)| format!("{} {}", hs(n.as_str()), target(t))),
        counted(v.local_tags.iter(), |(n, t)| format!("{} {}", hs(n.as_str()), target(t))),
        counted(v.remote_views.iter(), |(n, rv)| format!("{} B {} G {}", hs(n.as_str()), remote_refs(&rv.bookmarks), remote_refs(&rv.tags))),
        counted(v.git_refs.iter(), |(n, t)| format!("{} {}", hs(n.as_str()), target(t))),
        counted(v.git_heads.iter(), |(n, t)| format!("{} {}", hs(n.as_str()), target(t))),
        counted(v.wc_commit_ids.iter(), |(n, id)| format!("{} {}", hs(n.as_str()), hx(id.as_bytes()))))
}
fn opt_bytes(o: Option<&str>) -> String { match o { None => "none".into(), Some(s) => format!("some:{}", hs(s)) } }
fn show_op(o: &Operation) -> String {
    let m = &o.metadata;
    format!("{} P {} M {} {} {} {} {} {} {} {} {} A {} CP {}",
        hx(o.view_id.as_bytes()), counted(o.parents.iter(), |p| hx(p.as_bytes())),
        m.time.start.timestamp.0, m.time.start.tz_offset, m.time.end.timestamp.0, m.time.end.tz_offset,
        hs(&m.description), hs(&m.hostname), hs(&m.username), if m.is_snapshot { 1 } else { 0 },
        opt_bytes(m.workspace_name.as_ref().map(|w| w.as_str())),
        counted(m.attributes.iter(), |(k, v)| format!("{} {}", hs(k), hs(v))),
        match &o.commit_predecessors {
            None => "none".to_string(),
            Some(cp) => format!("some {}", counted(cp.iter(), |(c, ps)| format!("{} {}", hx(c.as_bytes()), counted(ps.iter(), |p| hx(p.as_bytes()))))),
        })
}
fn pterm(t: &Option<Vec<u8>>) -> String { match t { None => "~".into(), Some(b) => hx(b) } }
#[allow(deprecated)]
fn ptarget(t: &Option<pb::RefTarget>) -> String {
    match t {
        None => "none".into(),
        Some(rt) => match &rt.value {
            None => "unset".into(),
            Some(pb::ref_target::Value::CommitId(id)) => format!("cid {}", hx(id)),
            Some(pb::ref_target::Value::ConflictLegacy(c)) => format!("cl {} {}", counted(c.removes.iter(), |b| hx(b)), counted(c.adds.iter(), |b| hx(b))),
            Some(pb::ref_target::Value::Conflict(c)) => format!("c {} {}", counted(c.removes.iter(), |t| pterm(&t.value)), counted(c.adds.iter(), |t| pterm(&t.value))),
        },
    }
}
fn premote_refs(l: &[pb::RemoteRef]) -> String {
    counted(l.iter(), |e| format!("{} {} {}", hs(&e.name), counted(e.target_terms.iter(), |t| pterm(&t.value)), e.state))
}
#[allow(deprecated)]
fn show_pview(p: &pb::View) -> String {
    let mut heads: Vec<&Vec<u8>> = p.head_ids.iter().collect();
    heads.sort(); heads.dedup();
    let wcs: BTreeMap<&String, &Vec<u8>> = p.wc_commit_ids.iter().collect();
    format!("h {} wc1 {} wcs {} bm {} lt {} rv {} gr {} ghl {} gh {} mig {} ghs {}",
        counted(heads, |b| hx(b)), hx(&p.wc_commit_id),
        counted(wcs.iter(), |(k, v)| format!("{} {}", hs(k), hx(v))),
        counted(p.bookmarks.iter(), |b| format!("{} {} {}", hs(&b.name), ptarget(&b.local_target),
            counted(b.remote_bookmarks.iter(), |rb| format!("{} {} {}", hs(&rb.remote_name), ptarget(&rb.target),
                match rb.state { None => "none".to_string(), Some(n) => format!("some:{n}") })))),
        counted(p.local_tags.iter(), |t| format!("{} {}", hs(&t.name), ptarget(&t.target))),
        counted(p.remote_views.iter(), |rv| format!("{} b {} t {}", hs(&rv.name), premote_refs(&rv.bookmarks), premote_refs(&rv.tags))),
        counted(p.git_refs.iter(), |g| format!("{} {} {}", hs(&g.name), hx(&g.commit_id), ptarget(&g.target))),
        hx(&p.git_head_legacy), ptarget(&p.git_head), if p.has_git_refs_migrated_to_remote_tags { 1 } else { 0 },
        counted(p.git_heads.iter(), |g| format!("{} {}", hs(&g.name), ptarget(&g.target))))
}
fn ptimestamp(t: &Option<pb::Timestamp>) -> String {
    match t { None => "none".into(), Some(t) => format!("some:{}:{}", t.millis_since_epoch, t.tz_offset) }
}
fn show_pop(p: &pb::Operation) -> String {
    format!("{} p {} m {} cp {} scp {}",
        hx(&p.view_id), counted(p.parents.iter(), |b| hx(b)),
        match &p.metadata {
            None => "none".to_string(),
            Some(m) => {
                let attrs: BTreeMap<&String, &String> = m.attributes.iter().collect();
                format!("some {} {} {} {} {} {} {} {}", ptimestamp(&m.start_time), ptimestamp(&m.end_time),
                    hs(&m.description), hs(&m.hostname), hs(&m.username), if m.is_snapshot { 1 } else { 0 },
                    opt_bytes(m.workspace_name.as_deref()), counted(attrs.iter(), |(k, v)| format!("{} {}", hs(k), hs(v))))
            }
        },
        counted(p.commit_predecessors.iter(), |e| format!("{} {}", hx(&e.commit_id), counted(e.predecessor_ids.iter(), |b| hx(b)))),
        if p.stores_commit_predecessors { 1 } else { 0 })
}

// ---------- generators ----------
const NAMES: &[&str] = &["", "a", "b", "main", "x/y", "é", "default", "git", "w2", "aa"];
const REMOTES: &[&str] = &["origin", "git", "up", ""];
const GITREFS: &[&str] = &["refs/heads/a", "refs/tags/t", "refs/tags/", "refs/remotes/o/m", "HEAD"];
const WORKSPACES: &[&str] = &["default", "w2", ""];

fn cid(r: &mut Rng) -> CommitId {
    match r.below(12) {
        0 => CommitId::new(vec![]),
        1 => CommitId::new(vec![r.below(3) as u8, r.below(3) as u8]),
        2 => CommitId::new(vec![0xff; 20]),
        _ => CommitId::new(vec![r.below(4) as u8]),
    }
}
fn gen_target(r: &mut Rng) -> RefTarget {
    match r.below(8) {
        0 => RefTarget::absent(),
        1 | 2 | 3 => RefTarget::normal(cid(r)),
        _ => {
            let n = 3 + 2 * r.below(2);
            RefTarget::from_merge(Merge::from_vec((0..n).map(|_| if r.chance(1, 4) { None } else { Some(cid(r)) }).collect::<Vec<_>>()))
        }
    }
}
fn gen_present_target(r: &mut Rng) -> RefTarget {
    loop { let t = gen_target(r); if t.is_present() { return t; } }
}
fn gen_remote_ref(r: &mut Rng) -> RemoteRef {
    RemoteRef { target: gen_target(r), state: if r.chance(1, 2) { RemoteRefState::New } else { RemoteRefState::Tracked } }
}
fn gen_view(r: &mut Rng, allow_nonwf: bool) -> View {
    let mut v = View::make_root(CommitId::new(vec![0]));
    v.head_ids = (0..r.below(4)).map(|_| cid(r)).collect::<HashSet<_>>();
    let dens = 1 + r.below(4); // overall density: 1/dens per slot
    for nm in NAMES {
        if r.chance(1, dens + 1) {
            let t = if allow_nonwf && r.chance(1, 6) { RefTarget::absent() } else { gen_present_target(r) };
            v.local_bookmarks.insert((*nm).into(), t);
        }
        if r.chance(1, dens + 2) { v.local_tags.insert((*nm).into(), gen_target(r)); }
    }
    for rm in REMOTES {
        if r.chance(1, 2) {
            let mut rv = RemoteView::default();
            if !r.chance(1, 5) {
                for nm in NAMES {
                    if r.chance(1, dens + 1) { rv.bookmarks.insert((*nm).into(), gen_remote_ref(r)); }
                    if r.chance(1, dens + 3) { rv.tags.insert((*nm).into(), gen_remote_ref(r)); }
                }
            }
            v.remote_views.insert((*rm).into(), rv);
        }
    }
    for nm in GITREFS { if r.chance(1, dens + 1) { v.git_refs.insert((*nm).into(), gen_target(r)); } }
    for ws in WORKSPACES {
        if r.chance(1, 3) { v.git_heads.insert((*ws).into(), gen_target(r)); }
        if r.chance(1, 2) { v.wc_commit_ids.insert((*ws).into(), cid(r)); }
    }
    v
}
/// a near-duplicate: one small edit somewhere
fn mutate_view(r: &mut Rng, v: &View) -> View {
    let mut w = v.clone();
    match r.below(9) {
        0 => { let c = cid(r); if !w.head_ids.remove(&c) { w.head_ids.insert(c); } }
        1 => { let n = *r.pick(NAMES); if w.local_bookmarks.remove(&RefNameBuf::from(n)).is_none() { w.local_bookmarks.insert(n.into(), gen_present_target(r)); } }
        2 => { let n = *r.pick(NAMES); if w.local_tags.remove(&RefNameBuf::from(n)).is_none() { w.local_tags.insert(n.into(), gen_target(r)); } }
        3 => { let n = *r.pick(REMOTES); if w.remote_views.remove(&RemoteNameBuf::from(n)).is_none() { w.remote_views.insert(n.into(), RemoteView::default()); } }
        4 => { // flip one tracking state / move a bookmark to tags
            let n = *r.pick(REMOTES);
            if let Some(rv) = w.remote_views.get_mut(&RemoteNameBuf::from(n)) {
                if let Some((_, rr)) = rv.bookmarks.iter_mut().next() {
                    rr.state = if rr.state == RemoteRefState::New { RemoteRefState::Tracked } else { RemoteRefState::New };
                } else if let Some((k, rr)) = rv.tags.pop_first() { rv.bookmarks.insert(k, rr); }
                else { rv.tags.insert((*r.pick(NAMES)).into(), gen_remote_ref(r)); }
            } else { let mut rv = RemoteView::default(); rv.bookmarks.insert((*r.pick(NAMES)).into(), gen_remote_ref(r)); w.remote_views.insert(n.into(), rv); }
        }
        5 => { let n = *r.pick(GITREFS); if w.git_refs.remove(&GitRefNameBuf::from(n)).is_none() { w.git_refs.insert(n.into(), gen_target(r)); } }
        6 => { let n = *r.pick(WORKSPACES); if w.git_heads.remove(&WorkspaceNameBuf::from(n)).is_none() { w.git_heads.insert(n.into(), gen_target(r)); } }
        7 => { let n = *r.pick(WORKSPACES); if w.wc_commit_ids.remove(&WorkspaceNameBuf::from(n)).is_none() { w.wc_commit_ids.insert(n.into(), cid(r)); } }
        _ => { // move an entry between two maps with the same encoding shape (local bookmark <-> local tag <-> git head)
            if let Some((k, t)) = w.local_bookmarks.pop_first() { w.local_tags.insert(k, t); }
            else if let Some((k, t)) = w.local_tags.pop_first() { if t.is_present() { w.local_bookmarks.insert(k, t); } }
            else { w.local_tags.insert("".into(), RefTarget::normal(CommitId::new(vec![]))); }
        }
    }
    w
}
fn view_wf(v: &View) -> bool { v.local_bookmarks.values().all(|t| t.is_present()) }

fn id64(r: &mut Rng) -> Vec<u8> {
    match r.below(5) {
        0 => vec![r.below(3) as u8; 64],
        1 => { let mut v = vec![0u8; 64]; v[r.below(64)] = 1 + r.below(2) as u8; v }
        _ => { let mut v = vec![0u8; 64]; v[63] = r.below(4) as u8; v[0] = r.below(2) as u8; v }
    }
}
const STRS: &[&str] = &["", "a", "ab", "b", "commit", "héllo wörld", "multi\nline", "k", "default"];
fn gen_ts(r: &mut Rng) -> Timestamp {
    let ms = match r.below(8) {
        0 => i64::MIN, 1 => i64::MAX, 2 => -1, 3 => 0, 4 => -(r.below(1_000_000) as i64),
        5 => (r.next() >> 1) as i64, 6 => r.next() as i64, _ => 1_700_000_000_000 + r.below(5000) as i64,
    };
    let tz = match r.below(6) { 0 => i32::MIN, 1 => i32::MAX, 2 => 0, 3 => -(r.below(721) as i32), 4 => r.below(841) as i32, _ => r.next() as i32 };
    Timestamp { timestamp: MillisSinceEpoch(ms), tz_offset: tz }
}
fn gen_op(r: &mut Rng, malformed: bool) -> Operation {
    let mut view_id = id64(r);
    let mut parents: Vec<OperationId> = (0..r.range(1, 3)).map(|_| OperationId::new(id64(r))).collect();
    if malformed {
        match r.below(4) {
            0 => { view_id.pop(); }
            1 => { view_id.clear(); }
            2 => { let i = r.below(parents.len()); let mut b = parents[i].to_bytes(); b.push(7); parents[i] = OperationId::new(b); }
            _ => { parents.clear(); }
        }
    }
    let mut attributes = BTreeMap::new();
    for _ in 0..r.below(4) { attributes.insert((*r.pick(STRS)).to_string(), (*r.pick(STRS)).to_string()); }
    let commit_predecessors = match r.below(4) {
        0 => None,
        1 => Some(BTreeMap::new()),
        _ => Some((0..r.range(1, 3)).map(|_| (cid(r), (0..r.below(3)).map(|_| cid(r)).collect())).collect()),
    };
    Operation {
        view_id: ViewId::new(view_id),
        parents,
        metadata: OperationMetadata {
            time: TimestampRange { start: gen_ts(r), end: gen_ts(r) },
            description: (*r.pick(STRS)).into(), hostname: (*r.pick(STRS)).into(), username: (*r.pick(STRS)).into(),
            is_snapshot: r.chance(1, 2),
            workspace_name: if r.chance(1, 3) { None } else { Some((*r.pick(WORKSPACES)).into()) },
            attributes,
        },
        commit_predecessors,
    }
}
fn mutate_op(r: &mut Rng, o: &Operation) -> Operation {
    let mut p = o.clone();
    match r.below(9) {
        0 => p.view_id = ViewId::new(id64(r)),
        1 => { if p.parents.len() > 1 && r.chance(1, 2) { p.parents.pop(); } else { p.parents.push(OperationId::new(id64(r))); } }
        2 => p.metadata.time.start.timestamp.0 = p.metadata.time.start.timestamp.0.wrapping_add(1),
        3 => p.metadata.time.end.tz_offset = p.metadata.time.end.tz_offset.wrapping_sub(1),
        4 => { // shift a byte between adjacent strings (same concatenation, different split)
            if let Some(c) = p.metadata.description.pop() { p.metadata.hostname.insert(0, c); } else { std::mem::swap(&mut p.metadata.hostname, &mut p.metadata.username); p.metadata.description.push('x'); }
        }
        5 => p.metadata.is_snapshot = !p.metadata.is_snapshot,
        6 => p.metadata.workspace_name = match &p.metadata.workspace_name { None => Some("".into()), Some(w) if w.as_str().is_empty() => None, Some(_) => Some("".into()) },
        7 => { let k = (*r.pick(STRS)).to_string(); if p.metadata.attributes.remove(&k).is_none() { p.metadata.attributes.insert(k, String::new()); } }
        _ => p.commit_predecessors = match &p.commit_predecessors { None => Some(BTreeMap::new()), Some(m) if m.is_empty() => None,
                Some(m) => { let mut m = m.clone(); let (k, mut v) = m.pop_first().unwrap(); if v.pop().is_none() { v.push(cid(r)); } m.insert(k, v); Some(m) } },
    }
    p
}
fn op_wf(o: &Operation) -> bool {
    !o.parents.is_empty() && o.view_id.as_bytes().len() == 64 && o.parents.iter().all(|p| p.as_bytes().len() == 64)
}

// ---------- running ----------
struct Stores { dir: tempfile::TempDir, dir2: tempfile::TempDir }
fn root_data() -> RootOperationData { RootOperationData { root_commit_id: CommitId::new(vec![0; 4]) } }
fn open(p: &Path) -> SimpleOpStore { SimpleOpStore::load(p, root_data()) }

#[derive(Default)]
struct Seen {
    by_id: HashMap<Vec<u8>, String>,
    by_value: HashMap<String, Vec<u8>>,
    by_stream: HashMap<Vec<u8>, String>,
}
impl Seen {
    fn check(&mut self, out: &mut Out, what: &str, id: &[u8], value: &str, stream: &[u8]) {
        match self.by_id.get(id) {
            Some(prev) if prev != value => out.oracle_fail(&format!("opstore:{what}-id-collision"), format!("id {} for both\n  {prev}\n  {value}", hex(id))),
            _ => out.oracle_ok(),
        }
        match self.by_value.get(value) {
            Some(prev) if prev != id => out.oracle_fail(&format!("opstore:{what}-id-not-function-of-value"), format!("{value}: ids {} and {}", hex(prev), hex(id))),
            _ => out.oracle_ok(),
        }
        match self.by_stream.get(stream) {
            Some(prev) if prev != value => out.oracle_fail(&format!("opstore:{what}-encoding-not-injective"), format!("same hashed bytes for\n  {prev}\n  {value}")),
            _ => out.oracle_ok(),
        }
        self.by_id.insert(id.to_vec(), value.to_string());
        self.by_value.insert(value.to_string(), id.to_vec());
        self.by_stream.insert(stream.to_vec(), value.to_string());
    }
}

fn one_view(out: &mut Out, st: &Stores, seen: &mut Seen, v: &View, kind: &str) {
    let text = show_view(v);
    let stream = hashed_stream(v);
    let store = open(st.dir.path());
    let res = guard(|| -> Result<(ViewId, String, Result<View, String>), String> {
        let id = store.write_view(v).block_on().map_err(|e| format!("write: {e}"))?;
        let buf = std::fs::read(st.dir.path().join("views").join(id.hex())).map_err(|e| format!("file: {e}"))?;
        let proto = pb::View::decode(&*buf).map_err(|e| format!("decode: {e}"))?;
        let fresh = open(st.dir.path());
        let back = fresh.read_view(&id).block_on().map_err(|e| format!("{e}: {}", std::error::Error::source(&e).map(|s| s.to_string()).unwrap_or_default()));
        Ok((id, show_pview(&proto), back))
    });
    let wf = view_wf(v);
    out.tally("view.kind", kind);
    out.tally("view.wf", if wf { "wf" } else { "absent-local-bookmark" });
    let conflicted = v.local_bookmarks.values().chain(v.local_tags.values()).chain(v.git_refs.values()).chain(v.git_heads.values())
        .chain(v.remote_views.values().flat_map(|rv| rv.bookmarks.values().chain(rv.tags.values()).map(|r| &r.target)))
        .filter(|t| t.has_conflict()).count();
    let remote_refs_n: usize = v.remote_views.values().map(|rv| rv.bookmarks.len() + rv.tags.len()).sum();
    out.tally("view.conflicted_targets", &conflicted.min(5).to_string());
    out.tally("view.remote_refs", &remote_refs_n.min(8).to_string());
    if conflicted > 0 || remote_refs_n > 0 || !v.git_heads.is_empty() { out.nontrivial(("v", text.clone())); }
    match res {
        Ok(Ok((id, proto, back))) => {
            let third = match &back { Ok(b) => format!("ok {}", show_view(b)), Err(e) => classify_err(e) };
            out.case(&format!("view {text}"), &format!("{} | {} | {}", hex(&stream), proto, third));
            // oracle
            if wf {
                match &back {
                    Ok(b) if b == v => out.oracle_ok(),
                    Ok(b) => out.oracle_fail("opstore:view-readback-differs", format!("wrote {text}\n read {}", show_view(b))),
                    Err(e) => out.oracle_fail("opstore:view-unreadable", format!("wrote {text}: {e}")),
                }
            }
            if blake2b_hash(&Raw(&stream)).as_slice() == id.as_bytes() { out.oracle_ok(); }
            else { out.oracle_fail("opstore:view-id-not-hash-of-encoding", text.clone()); }
            // the id depends on the value only: another store, another time
            match open(st.dir2.path()).write_view(&v.clone()).block_on() {
                Ok(id2) if id2 == id => out.oracle_ok(),
                other => out.oracle_fail("opstore:view-id-not-function-of-value", format!("{text}: second store gave {other:?}")),
            }
            seen.check(out, "view", id.as_bytes(), &text, &stream);
        }
        Ok(Err(e)) => { out.case(&format!("view {text}"), &format!("{} | write-failed", hex(&stream))); out.oracle_fail("opstore:view-write-failed", format!("{text}: {e}")); }
        Err(p) => { out.case(&format!("view {text}"), "panic"); out.oracle_fail("opstore:view-panic", format!("{text}: {p}")); }
    }
}

fn classify_err(e: &str) -> String {
    if e.contains("Invalid hash length") { "err:hashlen".into() }
    else if e.contains("Invalid remote ref state") { "err:badstate".into() }
    else if e.contains("Invalid number of ref target terms") { "err:eventerms".into() }
    else { format!("err:other:{}", e.replace(['\n', ' '], "_")) }
}

fn one_op(out: &mut Out, st: &Stores, seen: &mut Seen, o: &Operation, kind: &str) {
    let text = show_op(o);
    let stream = hashed_stream(o);
    let store = open(st.dir.path());
    let res = guard(|| -> Result<(OperationId, String, Result<Operation, String>), String> {
        let id = store.write_operation(o).block_on().map_err(|e| format!("write: {e}"))?;
        let buf = std::fs::read(st.dir.path().join("operations").join(id.hex())).map_err(|e| format!("file: {e}"))?;
        let proto = pb::Operation::decode(&*buf).map_err(|e| format!("decode: {e}"))?;
        let fresh = open(st.dir.path());
        let back = fresh.read_operation(&id).block_on().map_err(|e| format!("{e}: {}", std::error::Error::source(&e).map(|s| s.to_string()).unwrap_or_default()));
        Ok((id, show_pop(&proto), back))
    });
    let wf = op_wf(o);
    out.tally("op.kind", kind);
    out.tally("op.wf", if wf { "wf" } else { "malformed" });
    out.tally("op.predecessors", match &o.commit_predecessors { None => "none", Some(m) if m.is_empty() => "some-empty", _ => "some" });
    if wf && (o.commit_predecessors.as_ref().is_some_and(|m| !m.is_empty()) || !o.metadata.attributes.is_empty()) { out.nontrivial(("o", text.clone())); }
    match res {
        Ok(Ok((id, proto, back))) => {
            let third = match &back { Ok(b) => format!("ok {}", show_op(b)), Err(e) => classify_err(e) };
            out.case(&format!("op {text}"), &format!("{} | {} | {}", hex(&stream), proto, third));
            if wf {
                match &back {
                    Ok(b) if b == o => out.oracle_ok(),
                    Ok(b) => out.oracle_fail("opstore:operation-readback-differs", format!("wrote {text}\n read {}", show_op(b))),
                    Err(e) => out.oracle_fail("opstore:operation-unreadable", format!("wrote {text}: {e}")),
                }
            }
            if blake2b_hash(&Raw(&stream)).as_slice() == id.as_bytes() { out.oracle_ok(); }
            else { out.oracle_fail("opstore:operation-id-not-hash-of-encoding", text.clone()); }
            match open(st.dir2.path()).write_operation(&o.clone()).block_on() {
                Ok(id2) if id2 == id => out.oracle_ok(),
                other => out.oracle_fail("opstore:operation-id-not-function-of-value", format!("{text}: second store gave {other:?}")),
            }
            seen.check(out, "operation", id.as_bytes(), &text, &stream);
        }
        Ok(Err(e)) => { out.case(&format!("op {text}"), &format!("{} | write-failed", hex(&stream))); out.oracle_fail("opstore:operation-write-failed", format!("{text}: {e}")); }
        Err(_) if o.parents.is_empty() => {
            // `write_operation` asserts a non-empty parent list; outside the property's domain
            out.case(&format!("op {text}"), &format!("{} | {} | panic", hex(&stream), "-"));
        }
        Err(p) => { out.case(&format!("op {text}"), "panic"); out.oracle_fail("opstore:operation-panic", format!("{text}: {p}")); }
    }
}

// ---------- crafted / legacy protobuf messages (exercise every branch of `view_from_proto`) ----------
#[allow(deprecated)]
fn gen_ptarget(r: &mut Rng) -> Option<pb::RefTarget> {
    use pb::ref_target::Value;
    let bytes = |r: &mut Rng| cid(r).to_bytes();
    let term = |r: &mut Rng| pb::ref_conflict::Term { value: if r.chance(1, 4) { None } else { Some(cid(r).to_bytes()) } };
    let value = match r.below(10) {
        0 | 1 => return None,
        2 | 3 => Value::CommitId(bytes(r)),
        4 | 5 => {
            let nr = r.below(3);
            let na = match r.below(6) { 0 => 0, 1 => nr + 2, 2 => nr, _ => nr + 1 };
            Value::ConflictLegacy(pb::RefConflictLegacy { removes: (0..nr).map(|_| bytes(r)).collect(), adds: (0..na).map(|_| bytes(r)).collect() })
        }
        _ => {
            let nr = r.below(3);
            let na = if r.chance(1, 12) { *r.pick(&[0usize, nr, nr + 2]) } else { nr + 1 };
            Value::Conflict(pb::RefConflict { removes: (0..nr).map(|_| term(r)).collect(), adds: (0..na).map(|_| term(r)).collect() })
        }
    };
    Some(pb::RefTarget { value: Some(value) })
}
#[allow(deprecated)]
fn gen_pview(r: &mut Rng) -> pb::View {
    let name = |r: &mut Rng| (*r.pick(&NAMES[..6])).to_string();
    let remote = |r: &mut Rng| (*r.pick(REMOTES)).to_string();
    let remote_ref = |r: &mut Rng| pb::RemoteRef {
        name: name(r),
        target_terms: (0..if r.chance(1, 12) { 2 * r.below(2) } else { 1 + 2 * r.below(2) })
            .map(|_| pb::RefTargetTerm { value: if r.chance(1, 4) { None } else { Some(cid(r).to_bytes()) } }).collect(),
        state: if r.chance(1, 15) { *r.pick(&[2, -1, 7]) } else { r.below(2) as i32 },
    };
    pb::View {
        head_ids: (0..r.below(4)).map(|_| cid(r).to_bytes()).collect(),
        wc_commit_id: if r.chance(1, 3) { cid(r).to_bytes() } else { vec![] },
        wc_commit_ids: (0..r.below(3)).map(|_| ((*r.pick(WORKSPACES)).to_string(), cid(r).to_bytes())).collect(),
        bookmarks: (0..r.below(4)).map(|_| pb::Bookmark {
            name: name(r),
            local_target: gen_ptarget(r),
            remote_bookmarks: (0..r.below(3)).map(|_| pb::RemoteBookmark {
                remote_name: remote(r), target: gen_ptarget(r),
                state: match r.below(8) { 0 => None, 1 => Some(*r.pick(&[2, -1])), _ => Some(r.below(2) as i32) },
            }).collect(),
        }).collect(),
        local_tags: (0..r.below(3)).map(|_| pb::Tag { name: name(r), target: gen_ptarget(r) }).collect(),
        remote_views: (0..r.below(3)).map(|_| pb::RemoteView {
            name: remote(r),
            bookmarks: (0..r.below(3)).map(|_| remote_ref(r)).collect(),
            tags: (0..r.below(2)).map(|_| remote_ref(r)).collect(),
        }).collect(),
        git_refs: (0..r.below(4)).map(|_| pb::GitRef {
            name: (*r.pick(&["refs/heads/a", "refs/tags/t", "refs/tags/u", "refs/tags/", "refs/tags", "HEAD"])).to_string(),
            commit_id: if r.chance(1, 2) { cid(r).to_bytes() } else { vec![] },
            target: if r.chance(1, 3) { None } else { gen_ptarget(r) },
        }).collect(),
        git_head_legacy: if r.chance(1, 3) { cid(r).to_bytes() } else { vec![] },
        git_head: if r.chance(1, 2) { gen_ptarget(r) } else { None },
        has_git_refs_migrated_to_remote_tags: r.chance(3, 5),
        git_heads: (0..if r.chance(1, 2) { 0 } else { r.below(3) }).map(|_| pb::GitHead { name: (*r.pick(WORKSPACES)).to_string(), target: gen_ptarget(r) }).collect(),
    }
}
#[allow(deprecated)]
fn one_pview(out: &mut Out, st: &Stores, n: u64, p: &pb::View) {
    let mut id = vec![0xeeu8; 64];
    id[..8].copy_from_slice(&n.to_be_bytes());
    let id = ViewId::new(id);
    std::fs::write(st.dir.path().join("views").join(id.hex()), p.encode_to_vec()).unwrap();
    let res = guard(|| open(st.dir.path()).read_view(&id).block_on()
        .map_err(|e| format!("{e}: {}", std::error::Error::source(&e).map(|s| s.to_string()).unwrap_or_default())));
    let ans = match &res { Ok(Ok(v)) => format!("ok {}", show_view(v)), Ok(Err(e)) => classify_err(e), Err(_) => "panic".to_string() };
    out.case(&format!("pview {}", show_pview(p)), &ans);
    out.tally("pview.result", if ans.starts_with("ok") { "ok" } else { &ans });
    out.tally("pview.migrated", if p.has_git_refs_migrated_to_remote_tags { "yes" } else { "no" });
    out.tally("pview.remote_views", if p.remote_views.is_empty() { "legacy-only" } else { "new-style" });
    if ans.starts_with("ok") { out.nontrivial(("p", show_pview(p))); }
    // oracle: whatever an old file contains, reading it yields a view that round-trips from then on
    if let Ok(Ok(v)) = &res {
        if view_wf(v) {
            let again = guard(|| { let s = open(st.dir.path()); let id2 = s.write_view(v).block_on().unwrap(); s.read_view(&id2).block_on().unwrap() });
            match again {
                Ok(v2) if v2 == *v => out.oracle_ok(),
                Ok(v2) => out.oracle_fail("opstore:migrated-view-not-stable", format!("{}\n then {}", show_view(v), show_view(&v2))),
                Err(e) => out.oracle_fail("opstore:migrated-view-panic", format!("{}: {e}", show_view(v))),
            }
        }
    }
}

pub fn run(cfg: &Cfg, out: &mut Out) {
    let st = Stores { dir: tempfile::tempdir().unwrap(), dir2: tempfile::tempdir().unwrap() };
    SimpleOpStore::init(st.dir.path(), root_data()).unwrap();
    SimpleOpStore::init(st.dir2.path(), root_data()).unwrap();
    let prev_hook = std::panic::take_hook();
    std::panic::set_hook(Box::new(|_| {})); // expected panics (empty parent list) stay quiet
    let mut seen = Seen::default();

    // smallest views first: the root view, single-entry views
    let mut r = cfg.rng(16);
    let root = View::make_root(CommitId::new(vec![0]));
    one_view(out, &st, &mut seen, &root, "root");
    for _ in 0..40 { let m = mutate_view(&mut r, &root); one_view(out, &st, &mut seen, &m, "single-edit"); }
    let n_views = cfg.n(2000, 60_000);
    let mut prev = root.clone();
    for i in 0..n_views {
        let v = match r.below(10) {
            0 | 1 | 2 => { let m = mutate_view(&mut r, &prev); (m, "near-duplicate") }
            3 => (prev.clone(), "duplicate"),
            4 => (gen_view(&mut r, true), "random-maybe-nonwf"),
            _ => (gen_view(&mut r, false), "random"),
        };
        one_view(out, &st, &mut seen, &v.0, v.1);
        if view_wf(&v.0) || i % 2 == 0 { prev = v.0; }
    }
    let mut seen_ops = Seen::default();
    let mut r = cfg.rng(17);
    let n_ops = cfg.n(2000, 60_000);
    let mut prev = gen_op(&mut r, false);
    for _ in 0..n_ops {
        let o = match r.below(12) {
            0 | 1 | 2 | 3 => (mutate_op(&mut r, &prev), "near-duplicate"),
            4 => (prev.clone(), "duplicate"),
            5 => (gen_op(&mut r, true), "malformed"),
            _ => (gen_op(&mut r, false), "random"),
        };
        one_op(out, &st, &mut seen_ops, &o.0, o.1);
        if op_wf(&o.0) { prev = o.0; }
    }
    let mut r = cfg.rng(18);
    for n in 0..cfg.n(1200, 40_000) { let p = gen_pview(&mut r); one_pview(out, &st, n, &p); }
    std::panic::set_hook(prev_hook);
    out.note(format!("{} distinct views, {} distinct operations; every value written to two stores and read back from a fresh store instance", seen.by_value.len(), seen_ops.by_value.len()));
}
