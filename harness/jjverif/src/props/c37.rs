//! C37 — bisection finds the first bad commit (`jj_lib::bisect::Bisector`, revset `bisect()`).
//!
//! Cases: every DAG shape with ≤ 5 (quick) / ≤ 6 (thorough) commits above the root (≤ 2 parents per
//! commit) × every monotone bad set containing the heads, range `root()..heads`; the same with the
//! root inside the range (`::heads`) for ≤ 4; random larger DAGs with ranges `x..y` and arbitrary
//! commit sets; linear ranges up to 400 commits; random skip sets on convex ranges.
//! The real `Bisector` is driven to completion; the evaluation sequence and the result are compared
//! with the model.  Oracle (from the property text): no commit asked twice; without skips the
//! reported commits are exactly the earliest bad commits of the range; linear ranges need at most
//! ⌈log₂ n⌉ + 1 evaluations; with skips no false result.
//!
//! Side condition encoded (documented by `Bisector::new`: "The range's heads are assumed to be
//! bad"): every generated bad set contains the heads of the range.
use crate::rt::*;
use jj_lib::backend::CommitId;
use jj_lib::bisect::{BisectionResult, Bisector, Evaluation, NextStep};
use jj_lib::commit::Commit;
use jj_lib::repo::Repo;
use jj_lib::revset::{ResolvedRevsetExpression, RevsetExpression};
use jj_lib::transaction::Transaction;
use futures::TryStreamExt as _;
use pollster::FutureExt as _;
use std::collections::{BTreeSet, HashMap};
use std::sync::Arc;
use testutils::TestRepo;

// ------------------------------------------------------------------------------------------------
// shared DAG helpers (also used by c38.rs / c39.rs)

/// `dag[i]` = parent positions of commit `i`; commit 0 is the repository's root commit.
pub type Dag = Vec<Vec<usize>>;

pub fn show_dag(d: &Dag) -> String {
    d.iter().map(|ps| show_us(ps)).collect::<Vec<_>>().join(";")
}
pub fn show_us(l: &[usize]) -> String {
    if l.is_empty() { "-".into() } else { l.iter().map(|x| x.to_string()).collect::<Vec<_>>().join(",") }
}

/// ancestors-or-self bit sets (u128 masks need n ≤ 128; larger graphs use the Vec version)
pub fn anc_sets(d: &Dag) -> Vec<BTreeSet<usize>> {
    let mut a: Vec<BTreeSet<usize>> = Vec::with_capacity(d.len());
    for (i, ps) in d.iter().enumerate() {
        let mut s = BTreeSet::new();
        s.insert(i);
        for &p in ps { s.extend(a[p].iter().copied()); }
        a.push(s);
    }
    a
}

/// All DAG shapes with `k` commits above the root: commit i has one parent in 0..i or two distinct
/// non-root parents.
pub fn all_dags(k: usize, f: &mut dyn FnMut(&Dag)) {
    fn rec(d: &mut Dag, k: usize, f: &mut dyn FnMut(&Dag)) {
        let i = d.len();
        if i == k + 1 { f(d); return; }
        for p in 0..i { d.push(vec![p]); rec(d, k, f); d.pop(); }
        for a in 1..i { for b in (a + 1)..i { d.push(vec![a, b]); rec(d, k, f); d.pop(); } }
    }
    let mut d: Dag = vec![vec![]];
    rec(&mut d, k, f);
}

/// random DAG with `n` commits above the root; `local` biases parents towards recent commits
pub fn random_dag(r: &mut Rng, n: usize, max_parents: usize, local: usize) -> Dag {
    let mut d: Dag = vec![vec![]];
    for i in 1..=n {
        let np = if i == 1 { 1 } else if r.chance(2, 3) { 1 } else { r.range(2, max_parents.max(2)) };
        let mut ps: Vec<usize> = vec![];
        for _ in 0..np {
            let lo = if local > 0 && r.chance(3, 4) { i.saturating_sub(local) } else { 0 };
            let p = r.range(lo, i - 1);
            if !ps.contains(&p) { ps.push(p); }
        }
        if ps.len() > 1 { ps.retain(|&p| p != 0); }
        if ps.is_empty() { ps.push(0); }
        d.push(ps);
    }
    d
}

/// A repository in which many small DAGs are materialised inside one open transaction
/// (only the relative order of index positions matters to the code under test).
pub struct World {
    pub test_repo: TestRepo,
    pub tx: Option<Transaction>,
    pub commits_made: usize,
    counter: u64,
}

impl World {
    pub fn new() -> Self {
        let test_repo = TestRepo::init();
        let tx = test_repo.repo.start_transaction();
        World { test_repo, tx: Some(tx), commits_made: 0, counter: 0 }
    }
    pub fn repo(&self) -> &dyn Repo { self.tx.as_ref().unwrap().repo() }
    /// start over with an empty repository when this one has grown large
    pub fn recycle_if_larger(&mut self, limit: usize) {
        if self.commits_made > limit { *self = World::new(); }
    }
    /// create the commits of `d` (position order); element 0 of the result is the root commit
    pub fn build(&mut self, d: &Dag) -> Vec<Commit> {
        let tx = self.tx.as_mut().unwrap();
        let store = tx.repo().store().clone();
        let mut cs: Vec<Commit> = vec![store.root_commit()];
        for ps in d.iter().skip(1) {
            let parents: Vec<CommitId> = ps.iter().map(|&p| cs[p].id().clone()).collect();
            self.counter += 1;
            let c = tx.repo_mut().new_commit(parents, store.empty_merged_tree())
                .set_description(format!("c{}", self.counter)).write().block_on().unwrap();
            cs.push(c);
            self.commits_made += 1;
        }
        cs
    }
    /// harness self-check: the index streams `cs` in descending creation order
    pub fn check_position_order(&self, cs: &[Commit]) {
        let ids: Vec<CommitId> = cs.iter().map(|c| c.id().clone()).collect();
        let set = RevsetExpression::commits(ids.clone()).evaluate(self.repo()).unwrap();
        let got: Vec<CommitId> = set.stream().try_collect().block_on().unwrap();
        let want: Vec<CommitId> = ids.into_iter().rev().collect();
        assert_eq!(got, want, "harness assumption broken: index positions do not follow creation order");
    }
}

pub fn ids_expr(cs: &[Commit], which: &[usize]) -> Arc<ResolvedRevsetExpression> {
    RevsetExpression::commits(which.iter().map(|&i| cs[i].id().clone()).collect())
}

// ------------------------------------------------------------------------------------------------

#[derive(Clone, Copy, PartialEq)]
enum Kind { Convex, Subset, Linear }

struct Deferred { sig: &'static str, detail: String }

struct Case<'a> {
    dag: &'a Dag,
    anc: &'a [BTreeSet<usize>],
    range: &'a [usize],
    bad: &'a BTreeSet<usize>,
    skip: &'a BTreeSet<usize>,
    kind: Kind,
    stream: &'static str,
}

const KNOWN_SIG: &str = "bisect:reported-proper-subset-of-minimal-bad";

fn ceil_log2(n: usize) -> usize { let mut k = 0; while (1usize << k) < n { k += 1; } k }

fn one(out: &mut Out, world: &World, cs: &[Commit], range_expr: &Arc<ResolvedRevsetExpression>, c: &Case,
       deferred: &mut Vec<Deferred>) {
    let n = c.dag.len();
    let idx: HashMap<CommitId, usize> = cs.iter().enumerate().map(|(i, k)| (k.id().clone(), i)).collect();
    let in_range: BTreeSet<usize> = c.range.iter().copied().collect();
    let mut evals: Vec<usize> = vec![];
    let limit = 3 * n + 5;
    let res = guard(|| {
        let mut bis = Bisector::new(world.repo(), range_expr.clone()).block_on().unwrap();
        loop {
            match bis.next_step().block_on().unwrap() {
                NextStep::Evaluate(commit) => {
                    let i = idx[commit.id()];
                    evals.push(i);
                    if evals.len() > limit { return None; }
                    let e = if c.skip.contains(&i) { Evaluation::Skip } else if c.bad.contains(&i) { Evaluation::Bad } else { Evaluation::Good };
                    bis.mark(commit.id().clone(), e);
                }
                NextStep::Done(r) => return Some(r),
            }
        }
    });
    let loc = |v: &Vec<Commit>| -> Vec<usize> { v.iter().map(|k| idx[k.id()]).collect() };
    let (res_str, reported, possibly): (String, Option<Vec<usize>>, Vec<usize>) = match &res {
        Err(_) => ("panic".into(), None, vec![]),
        Ok(None) => ("nofuel".into(), None, vec![]),
        Ok(Some(BisectionResult::Found(v))) => { let l = loc(v); (format!("found:{}", show_us(&l)), Some(l), vec![]) }
        Ok(Some(BisectionResult::FoundDespiteSkips { bad_commits, possibly_bad })) => {
            let (b, p) = (loc(bad_commits), loc(possibly_bad));
            (format!("found-skips:{}:{}", show_us(&b), show_us(&p)), Some(b), p) }
        Ok(Some(BisectionResult::Indeterminate)) => ("indeterminate".into(), None, vec![]),
        Ok(Some(BisectionResult::Abort)) => ("abort".into(), None, vec![]),
    };
    let bad_l: Vec<usize> = c.bad.iter().copied().collect();
    let skip_l: Vec<usize> = c.skip.iter().copied().collect();
    let req = format!("run {} {} {} {}", show_dag(c.dag), show_us(c.range), show_us(&bad_l), show_us(&skip_l));
    let case_no = out.case(&req, &format!("evals={} {}", show_us(&evals), res_str));

    // ---- oracle, from the property text ----
    // earliest bad commits of the range: in the range, bad, no other bad commit of the range is an ancestor
    let minimal: BTreeSet<usize> = c.range.iter().copied()
        .filter(|&x| c.bad.contains(&x) && !c.range.iter().any(|&a| a != x && c.bad.contains(&a) && c.anc[x].contains(&a)))
        .collect();
    let detail = |what: &str| format!("case {case_no} [{}] {what}: {req} -> evals={} {res_str}; earliest bad = {:?}",
                                      c.stream, show_us(&evals), minimal);
    let mut fails: Vec<(&'static str, String)> = vec![];
    let distinct: BTreeSet<usize> = evals.iter().copied().collect();
    let repeated = distinct.len() != evals.len();
    if let Err(e) = &res { fails.push(("bisect:panic", detail(&format!("panic {e}")))); }
    if repeated || matches!(res, Ok(None)) { fails.push(("bisect:commit-evaluated-twice", detail("a commit was asked about twice"))); }
    if evals.iter().any(|e| !in_range.contains(e)) { fails.push(("bisect:evaluated-commit-outside-range", detail("asked about a commit outside the range"))); }
    if c.skip.is_empty() {
        match (&res, &reported) {
            (Ok(Some(BisectionResult::Found(_))), Some(rep)) => {
                let rs: BTreeSet<usize> = rep.iter().copied().collect();
                if rs.len() != rep.len() { fails.push(("bisect:reported-duplicate", detail("a commit is reported twice"))); }
                if rs.iter().any(|x| !c.bad.contains(x)) { fails.push(("bisect:reported-good-commit", detail("a good commit is reported as first bad"))); }
                else if rs.iter().any(|x| !minimal.contains(x)) { fails.push(("bisect:reported-non-minimal-bad", detail("a reported commit has a bad ancestor in the range"))); }
                else if rs.is_empty() { fails.push(("bisect:reported-nothing", detail("nothing reported"))); }
                else if rs != minimal {
                    // non-empty proper subset of the minimal bad commits, every reported commit minimal
                    if !repeated { fails.push((KNOWN_SIG, detail("only some of the earliest bad commits are reported"))); }
                    else { fails.push(("bisect:missed-minimal-bad", detail("earliest bad commits missed"))); }
                }
            }
            (Ok(Some(BisectionResult::Indeterminate)), _) if c.range.is_empty() => {}
            (Ok(Some(_)), _) => fails.push(("bisect:no-result-without-skips", detail("no Found result although nothing was skipped"))),
            _ => {}
        }
        if c.kind == Kind::Linear && !c.range.is_empty() && evals.len() > ceil_log2(c.range.len()) + 1 {
            fails.push(("bisect:too-many-steps-linear", detail(&format!("{} evaluations on a linear range of {}", evals.len(), c.range.len()))));
        }
    } else {
        // weaker guarantee with skips (convex ranges only): no false result
        match (&res, &reported) {
            (Ok(Some(BisectionResult::Found(_) | BisectionResult::FoundDespiteSkips { .. })), Some(rep)) => {
                let pset: BTreeSet<usize> = possibly.iter().copied().collect();
                if rep.is_empty() { fails.push(("bisect:reported-nothing", detail("nothing reported"))); }
                if rep.iter().any(|x| !c.bad.contains(x)) {
                    fails.push(("bisect:reported-good-commit", detail("a good commit is reported as first bad")));
                }
                if possibly.iter().any(|p| !c.skip.contains(p)) { fails.push(("bisect:possibly-bad-not-skipped", detail("possibly_bad lists a commit that was not skipped"))); }
                if matches!(res, Ok(Some(BisectionResult::FoundDespiteSkips { .. }))) && possibly.is_empty() {
                    fails.push(("bisect:found-despite-skips-without-skips", detail("FoundDespiteSkips with empty possibly_bad")));
                }
                for &x in rep {
                    for &a in c.anc[x].iter().filter(|&&a| a != x && in_range.contains(&a)) {
                        if c.bad.contains(&a) && !pset.contains(&a) {
                            fails.push(("bisect:false-result-with-skips", detail(&format!("reported {x} has bad ancestor {a} in the range that is not listed as possibly bad"))));
                        }
                    }
                }
            }
            (Ok(Some(BisectionResult::Indeterminate)), _) if c.range.is_empty() => {}
            (Ok(Some(_)), _) => fails.push(("bisect:indeterminate-on-nonempty-range", detail("no result"))),
            _ => {}
        }
    }
    if fails.is_empty() { out.oracle_ok(); }
    let mut first = true;
    for (sig, d) in fails {
        if !first { break; }
        first = false;
        // failures of the known class are reported after all others so that the recorded
        // (capped) failure list can never be filled by the known class alone
        if sig == KNOWN_SIG { out.tally("known_class", sig); deferred.push(Deferred { sig, detail: d }); }
        else { out.oracle_fail(sig, d); }
    }

    // ---- statistics ----
    out.tally("stream", c.stream);
    out.tally("evaluations", &format!("{:>2}", evals.len().min(12)));
    out.tally("result", res_str.split(':').next().unwrap());
    out.tally("minimal_bad", &minimal.len().min(4).to_string());
    let merges = c.dag.iter().filter(|p| p.len() > 1).count();
    if evals.len() >= 2 { out.nontrivial((c.dag.clone(), c.range.to_vec(), bad_l, skip_l)); }
    out.tally("merges_in_dag", &merges.min(4).to_string());
}

/// heads of `range` (no proper descendant in `range`)
fn heads_of(anc: &[BTreeSet<usize>], range: &[usize]) -> Vec<usize> {
    range.iter().copied().filter(|&x| !range.iter().any(|&y| y != x && anc[y].contains(&x))).collect()
}

/// close `gens` under descendants (whole DAG)
fn up_close(d: &Dag, gens: &BTreeSet<usize>) -> BTreeSet<usize> {
    let mut b = gens.clone();
    for i in 0..d.len() { if d[i].iter().any(|p| b.contains(p)) { b.insert(i); } }
    b
}

pub fn run(cfg: &Cfg, out: &mut Out) {
    let mut world = World::new();
    let mut deferred: Vec<Deferred> = vec![];
    let empty: BTreeSet<usize> = BTreeSet::new();

    // 1. exhaustive small DAGs × all monotone bad sets ⊇ heads
    let kmax = if cfg.tier == Tier::Quick { 5 } else { 6 };
    for k in 1..=kmax {
        for with_root in [false, true] {
            if with_root && k > 4 { continue; }
            let mut dags: Vec<Dag> = vec![];
            all_dags(k, &mut |d| dags.push(d.clone()));
            for d in &dags {
                world.recycle_if_larger(6000);
                let cs = world.build(d);
                if world.commits_made < 50 { world.check_position_order(&cs); }
                let anc = anc_sets(d);
                let range: Vec<usize> = if with_root { (0..=k).collect() } else { (1..=k).collect() };
                let heads = heads_of(&anc, &range);
                let expr = if with_root { ids_expr(&cs, &heads).ancestors() } else { ids_expr(&cs, &[0]).range(&ids_expr(&cs, &heads)) };
                let lo = if with_root { 0 } else { 1 };
                for mask in 0u32..(1 << (k + 1)) {
                    if !with_root && mask & 1 != 0 { continue; }
                    let bad: BTreeSet<usize> = (lo..=k).filter(|i| mask >> i & 1 == 1).collect();
                    if !heads.iter().all(|h| bad.contains(h)) { continue; }
                    if up_close(d, &bad) != bad { continue; }
                    let c = Case { dag: d, anc: &anc, range: &range, bad: &bad, skip: &empty, kind: Kind::Convex,
                                   stream: if with_root { "exhaustive-with-root" } else { "exhaustive" } };
                    one(out, &world, &cs, &expr, &c, &mut deferred);
                }
            }
        }
    }
    out.set_exhaustive(true);
    out.note(format!("exhaustive: every DAG shape with ≤ {kmax} commits above the root (≤ 2 parents each) × every monotone bad set containing the heads, range root()..heads; ≤ 4 commits also with the root in the range"));

    // 2. random larger DAGs, ranges x..y and arbitrary sets
    let mut r = cfg.rng(37);
    for _ in 0..cfg.n(300, 4000) {
        world.recycle_if_larger(6000);
        let n = r.range(6, 28);
        let local = *r.pick(&[0usize, 2, 3, 5]);
        let d = random_dag(&mut r, n, 3, local);
        let cs = world.build(&d);
        let anc = anc_sets(&d);
        for _ in 0..6 {
            let subset = r.chance(1, 5);
            let (range, expr): (Vec<usize>, Arc<ResolvedRevsetExpression>) = if subset {
                let rg: Vec<usize> = (0..=n).filter(|_| r.chance(1, 2)).collect();
                let e = ids_expr(&cs, &rg);
                (rg, e)
            } else {
                let ys: Vec<usize> = (0..r.range(1, 2)).map(|_| r.range(n / 2, n)).collect();
                let xs: Vec<usize> = (0..r.range(0, 2)).map(|_| r.range(0, n / 2)).collect();
                let rg: Vec<usize> = (0..=n).filter(|&i| ys.iter().any(|&y| anc[y].contains(&i)) && !xs.iter().any(|&x| anc[x].contains(&i))).collect();
                (rg, ids_expr(&cs, &xs).range(&ids_expr(&cs, &ys)))
            };
            if range.is_empty() && r.chance(9, 10) { continue; }
            let heads = heads_of(&anc, &range);
            for _ in 0..4 {
                let mut gens: BTreeSet<usize> = heads.iter().copied().collect();
                for _ in 0..r.range(0, 3) { if !range.is_empty() { gens.insert(*r.pick(&range)); } }
                let bad = up_close(&d, &gens);
                let c = Case { dag: &d, anc: &anc, range: &range, bad: &bad, skip: &empty,
                               kind: if subset { Kind::Subset } else { Kind::Convex }, stream: if subset { "random-subset" } else { "random-range" } };
                one(out, &world, &cs, &expr, &c, &mut deferred);
            }
        }
    }

    // 3. linear ranges
    let mut r = cfg.rng(38);
    for t in 0..cfg.n(60, 1500) {
        world.recycle_if_larger(6000);
        let n = if t < 24 { t as usize + 1 } else { r.range(20, if cfg.tier == Tier::Quick { 200 } else { 400 }) };
        let d: Dag = (0..=n).map(|i| if i == 0 { vec![] } else { vec![i - 1] }).collect();
        let cs = world.build(&d);
        let anc = anc_sets(&d);
        for _ in 0..4 {
            let hi = r.range(1, n);
            let lo = r.range(0, hi - 1);
            let range: Vec<usize> = (lo + 1..=hi).collect();
            let expr = ids_expr(&cs, &[lo]).range(&ids_expr(&cs, &[hi]));
            let m = r.range(lo + 1, hi);
            let bad: BTreeSet<usize> = (m..=n).collect();
            let c = Case { dag: &d, anc: &anc, range: &range, bad: &bad, skip: &empty, kind: Kind::Linear, stream: "linear" };
            one(out, &world, &cs, &expr, &c, &mut deferred);
        }
    }

    // 4. skips (convex ranges): weaker no-false-result guarantee
    let mut r = cfg.rng(39);
    for _ in 0..cfg.n(500, 5000) {
        world.recycle_if_larger(6000);
        let n = r.range(3, 12);
        let local = *r.pick(&[0usize, 2, 3]);
        let d = random_dag(&mut r, n, 2, local);
        let cs = world.build(&d);
        let anc = anc_sets(&d);
        for _ in 0..4 {
            let y = r.range(n / 2, n);
            let xs: Vec<usize> = if r.chance(1, 2) { vec![0] } else { vec![r.range(0, n / 2)] };
            let range: Vec<usize> = (0..=n).filter(|&i| anc[y].contains(&i) && !xs.iter().any(|&x| anc[x].contains(&i))).collect();
            if range.is_empty() { continue; }
            let expr = ids_expr(&cs, &xs).range(&ids_expr(&cs, &[y]));
            let heads = heads_of(&anc, &range);
            let mut gens: BTreeSet<usize> = heads.iter().copied().collect();
            for _ in 0..r.range(0, 2) { gens.insert(*r.pick(&range)); }
            let bad = up_close(&d, &gens);
            let skip: BTreeSet<usize> = range.iter().copied().filter(|x| !heads.contains(x) && r.chance(1, 4)).collect();
            let c = Case { dag: &d, anc: &anc, range: &range, bad: &bad, skip: &skip, kind: Kind::Convex, stream: "skips" };
            one(out, &world, &cs, &expr, &c, &mut deferred);
        }
    }

    // known-class failures last (see `one`)
    out.note(format!("failures of the known class ({KNOWN_SIG}): {}", deferred.len()));
    for f in deferred { out.oracle_fail(f.sig, f.detail); }
}
