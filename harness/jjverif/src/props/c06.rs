//! C06 — an unedited conflicted file is snapshotted as the same conflict; edits confined to
//! resolved regions are applied to every side.
//!
//! Real `conflicts::update_from_content` through a real `testutils` repo store (content-addressed
//! test backend).  File conflicts with absent sides and redundant (cancelling) term pairs are
//! materialized with the real code in every style, then fed back
//!   (1) unchanged                         — oracle: result == input ids (unsimplified arity kept);
//!   (2) with one resolved region replaced — oracle: signed multiset of the result's terms ==
//!       that of the input − old simplified terms + the simplified sides rebuilt from the edited
//!       hunks (edit applied to every side, cancelled pairs untouched), same arity, absent iff empty;
//!   (3) replaced by marker-free text      — oracle: a normal file with that content.
//! Model requests carry the ids by content and the real `merge_hunks` of the simplified contents.
use crate::rt::*;
use bstr::BString;
use jj_lib::backend::FileId;
use jj_lib::conflict_labels::ConflictLabels;
use jj_lib::conflicts::{self, ConflictMarkerStyle, ConflictMaterializeOptions};
use jj_lib::files::{self, MergeResult};
use jj_lib::merge::Merge;
use jj_lib::repo::Repo;
use jj_lib::repo_path::RepoPath;
use jj_lib::store::Store;
use pollster::FutureExt as _;
use std::collections::BTreeMap;
use std::sync::Arc;
use testutils::{TestRepo, repo_path};

const STYLES: [(ConflictMarkerStyle, &str); 4] = [
    (ConflictMarkerStyle::Diff, "diff"),
    (ConflictMarkerStyle::DiffExperimental, "diffexp"),
    (ConflictMarkerStyle::Snapshot, "snapshot"),
    (ConflictMarkerStyle::Git, "git"),
];
const PLAIN: &[&str] = &["a\n", "b\n", "c\n", "d\n", "e\n", "\n", "a\r\n"];
const TRICKY: &[&str] = &["a\n", "b\n", "c\n", "<<<<<<<\n", "+++++++ x\n", "------- y\n", "%%%%%%%\n", ">>>>>>>\n", "=======\n", "|||||||\n", "-a\n", " a\n",
    // look-alikes one character short of a marker: a `-`/`+` diff prefix completes them (seed C06)
    "------\n", "++++++\n", "------ z\n", "<<<<<<\n", "+\n", "-\n", "++++++++++ long\n"];

type Ids = Merge<Option<FileId>>;

fn write(store: &Arc<Store>, path: &RepoPath, c: &[u8]) -> FileId {
    store.write_file(path, &mut &c[..]).block_on().unwrap()
}
fn content_of(store: &Arc<Store>, path: &RepoPath, id: &Option<FileId>) -> Option<Vec<u8>> {
    id.as_ref().map(|i| testutils::read_file(store, path, i))
}
fn show_ids(store: &Arc<Store>, path: &RepoPath, ids: &Ids) -> String {
    ids.iter().map(|t| match content_of(store, path, t) { None => "n".to_string(), Some(c) => format!("s{}", hex(&c)) }).collect::<Vec<_>>().join(",")
}
fn show_old(m: &MergeResult) -> String {
    match m {
        MergeResult::Resolved(c) => format!("r{}", hex(c)),
        MergeResult::Conflict(hs) => format!("c{}", hs.iter().map(|h| h.iter().map(|t| hex(t)).collect::<Vec<_>>().join(",")).collect::<Vec<_>>().join(";")),
    }
}

fn gen_ids(r: &mut Rng, store: &Arc<Store>, path: &RepoPath, pool: &[&str]) -> Ids {
    let sides = r.range(2, 3);
    let derived = r.chance(1, 2);
    let base: Vec<&str> = (0..r.range(1, 4)).map(|_| *r.pick(pool)).collect();
    let mut mk = |r: &mut Rng| -> Option<FileId> {
        if r.chance(1, 7) { return None; }
        let mut lines: Vec<&str> = if derived { base.clone() } else { (0..r.below(4)).map(|_| *r.pick(pool)).collect() };
        if derived {
            for _ in 0..r.below(3) {
                match r.below(3) {
                    0 if !lines.is_empty() => { let i = r.below(lines.len()); lines.remove(i); }
                    1 => { let i = r.below(lines.len() + 1); lines.insert(i, *r.pick(pool)); }
                    _ if !lines.is_empty() => { let i = r.below(lines.len()); lines[i] = *r.pick(pool); }
                    _ => {}
                }
            }
        }
        let mut s: Vec<u8> = lines.concat().into_bytes();
        if r.chance(1, 6) && s.last() == Some(&b'\n') { s.pop(); }
        Some(write(store, path, &s))
    };
    let mut terms: Vec<Option<FileId>> = (0..2 * sides - 1).map(|_| mk(r)).collect();
    // redundant pairs: insert x as an add and as the following remove at a random even position,
    // then shuffle adds among adds / removes among removes so that the pair is not always adjacent
    for _ in 0..r.below(3) {
        let x = if r.chance(1, 3) { terms[r.below(terms.len())].clone() } else { mk(r) };
        let i = 2 * r.below(terms.len() / 2 + 1);
        terms.insert(i, x.clone());
        terms.insert(i + 1, x);
        if r.chance(1, 2) {
            let n = terms.len();
            let (a, b) = (2 * r.below(n / 2 + 1), 2 * r.below(n / 2 + 1));
            terms.swap(a, b);
            if n >= 5 { let (c, d) = (2 * r.below(n / 2) + 1, 2 * r.below(n / 2) + 1); terms.swap(c, d); }
        }
    }
    Merge::from_vec(terms)
}

fn signed(store: &Arc<Store>, path: &RepoPath, ids: &Ids, sign: i64, acc: &mut BTreeMap<Option<Vec<u8>>, i64>) {
    for (i, t) in ids.iter().enumerate() {
        *acc.entry(content_of(store, path, t)).or_default() += if i % 2 == 0 { sign } else { -sign };
    }
}

fn run_update(out: &mut Out, store: &Arc<Store>, path: &RepoPath, ids: &Ids, old: &MergeResult, content: &[u8], len: usize) -> Option<Ids> {
    let got = guard(|| conflicts::update_from_content(ids, store, path, content, len).block_on());
    let resp = match &got { Ok(Ok(m)) => show_ids(store, path, m), Ok(Err(_)) => "err:backend".into(), Err(_) => "panic".into() };
    out.case(&format!("update {len} {} {} {}", show_ids(store, path, ids), show_old(old), hex(content)), &resp);
    match got {
        Ok(Ok(m)) => Some(m),
        Ok(Err(e)) => { out.oracle_fail("update:backend-error", format!("{e:?}")); None }
        Err(e) => { out.oracle_fail("update:panic", format!("update_from_content panicked: {e}; ids={}", show_ids(store, path, ids))); None }
    }
}

/// split materialized text into segments; odd segments are conflict blocks (marker lines of length >= len)
fn segments(text: &[u8], len: usize) -> Vec<Vec<u8>> {
    let is = |l: &[u8], ch: u8| l.len() >= len && l[..len].iter().all(|b| *b == ch);
    let mut segs: Vec<Vec<u8>> = vec![vec![]];
    let mut inside = false;
    for l in text.split_inclusive(|b| *b == b'\n') {
        if !inside && is(l, b'<') { segs.push(vec![]); inside = true; segs.last_mut().unwrap().extend_from_slice(l); }
        else if inside && is(l, b'>') { segs.last_mut().unwrap().extend_from_slice(l); segs.push(vec![]); inside = false; }
        else { segs.last_mut().unwrap().extend_from_slice(l); }
    }
    segs
}

fn one(out: &mut Out, r: &mut Rng, store: &Arc<Store>, path: &RepoPath, ids: &Ids, plain: bool) {
    let simplified = ids.simplify();
    let contents = conflicts::extract_as_single_hunk(&simplified, store, path).block_on().unwrap();
    let old = files::merge_hunks(&contents, store.merge_options());
    let len = conflicts::choose_materialized_conflict_marker_len(&contents);
    out.tally("arity", &format!("{}->{}", ids.iter().len(), simplified.iter().len()));
    out.tally("old", match &old { MergeResult::Resolved(_) => "content-resolved", MergeResult::Conflict(_) => "conflict" });
    if ids.iter().any(|t| t.is_none()) { out.tally("feature", "absent-side"); }
    if ids.iter().len() != simplified.iter().len() { out.tally("feature", "redundant-pairs"); }
    for (style, sname) in STYLES {
        let mo = ConflictMaterializeOptions { marker_style: style, marker_len: Some(len), merge: store.merge_options().clone() };
        let text: BString = conflicts::materialize_merge_result_to_bytes(&contents, &ConflictLabels::unlabeled(), &mo);
        // (1) unedited
        if let Some(back) = run_update(out, store, path, ids, &old, &text, len) {
            if !simplified.is_resolved() { out.nontrivial((show_ids(store, path, ids), sname)); }
            if back == *ids { out.oracle_ok(); } else {
                out.oracle_fail(&format!("unedited:{}", if back.iter().len() != ids.iter().len() { "arity-changed" } else { "terms-changed" }),
                    format!("style={sname} len={len} ids={} back={} text={:?}", show_ids(store, path, ids), show_ids(store, path, &back), text));
            }
        }
        out.tally("stream", "unedited");
        let MergeResult::Conflict(hunks) = &old else { continue };
        // (2) edit one resolved region (or add one at either end); plain pools only, so that block
        // boundaries can be found without the parser under test
        if plain && r.chance(1, 2) {
            let segs = segments(&text, len);
            let resolved_idx: Vec<usize> = (0..segs.len()).step_by(2).collect();
            let k = *r.pick(&resolved_idx);
            // only keep the edit line-aligned: the new text ends with '\n' unless it is the end of the file
            let mut new_seg: Vec<u8> = (0..r.below(3)).flat_map(|_| r.pick(&["x\n", "y\n", "a\n", "\n"]).as_bytes().to_vec()).collect();
            if k == segs.len() - 1 && r.chance(1, 4) { new_seg.extend_from_slice(b"tail"); }
            if k != segs.len() - 1 && !segs[k].is_empty() && !segs[k].ends_with(b"\n") { continue; }
            // the end marker of the last block has no EOL (EOL spreading): nothing can be appended
            // after it without editing the marker line itself, so there is no resolved region there
            if k == segs.len() - 1 && k > 0 && segs[k].is_empty() && !text.ends_with(b"\n") { continue; }
            let mut edited_segs = segs.clone();
            edited_segs[k] = new_seg.clone();
            let edited: Vec<u8> = edited_segs.concat();
            // expected hunks: the merge hunks with the resolved region k/2 replaced (regions are
            // the gaps between consecutive conflict hunks, possibly empty)
            let mut regions: Vec<Vec<u8>> = vec![vec![]];
            let mut conflicts_in_order: Vec<&Merge<BString>> = vec![];
            for h in hunks { if let Some(c) = h.as_resolved() { regions.last_mut().unwrap().extend_from_slice(c); } else { conflicts_in_order.push(h); regions.push(vec![]); } }
            if regions.len() != (segs.len() + 1) / 2 || regions.iter().zip(segs.iter().step_by(2)).any(|(a, b)| a != b) {
                out.tally("stream", "edit-skipped(segmentation)"); continue;
            }
            regions[k / 2] = new_seg;
            let nterms = simplified.iter().len();
            let mut side: Vec<Vec<u8>> = vec![vec![]; nterms];
            for (j, reg) in regions.iter().enumerate() {
                for s in side.iter_mut() { s.extend_from_slice(reg); }
                if let Some(c) = conflicts_in_order.get(j) { for (s, t) in side.iter_mut().zip(c.iter()) { s.extend_from_slice(t); } }
            }
            if let Some(back) = run_update(out, store, path, ids, &old, &edited, len) {
                out.tally("stream", "edited-resolved-region");
                let mut want: BTreeMap<Option<Vec<u8>>, i64> = BTreeMap::new();
                signed(store, path, ids, 1, &mut want);
                signed(store, path, &simplified, -1, &mut want);
                for (i, (s, old_id)) in side.iter().zip(simplified.iter()).enumerate() {
                    let t = if old_id.is_some() || !s.is_empty() { Some(s.clone()) } else { None };
                    *want.entry(t).or_default() += if i % 2 == 0 { 1 } else { -1 };
                }
                let mut have: BTreeMap<Option<Vec<u8>>, i64> = BTreeMap::new();
                signed(store, path, &back, 1, &mut have);
                want.retain(|_, v| *v != 0); have.retain(|_, v| *v != 0);
                let unchanged_text = edited == text.as_slice();
                // a no-op edit is the unedited case (ids kept as they are, auto-resolved regions are *not* pushed into the sides)
                let ok = if unchanged_text { back == *ids } else { back.iter().len() == ids.iter().len() && want == have };
                if ok { out.oracle_ok(); } else {
                    out.oracle_fail(if back.iter().len() != ids.iter().len() { "edited:arity-changed" } else { "edited:sides-wrong" },
                        format!("style={sname} len={len} ids={} back={} edited={:?} want={want:?}", show_ids(store, path, ids), show_ids(store, path, &back), BString::from(edited.clone())));
                }
                out.nontrivial((show_ids(store, path, ids), sname, edited));
            }
        }
        // (3) all markers gone
        if r.chance(1, 5) {
            let c: Vec<u8> = (0..r.below(4)).flat_map(|_| r.pick(PLAIN).as_bytes().to_vec()).collect();
            if let Some(back) = run_update(out, store, path, ids, &old, &c, len) {
                out.tally("stream", "markers-removed");
                let want = Merge::normal(write(store, path, &c));
                if back == want { out.oracle_ok(); } else {
                    out.oracle_fail("resolved:not-normal-file", format!("ids={} content={:?} back={}", show_ids(store, path, ids), BString::from(c), show_ids(store, path, &back)));
                }
            }
        }
    }
}

fn one_unedited_word(out: &mut Out, store: &Arc<Store>, path: &RepoPath, ids: &Ids) {
    let contents = conflicts::extract_as_single_hunk(ids, store, path).block_on().unwrap();
    let old = files::merge_hunks(&contents, store.merge_options());
    let len = conflicts::choose_materialized_conflict_marker_len(&contents);
    let mo = ConflictMaterializeOptions { marker_style: ConflictMarkerStyle::Diff, marker_len: Some(len), merge: store.merge_options().clone() };
    let text: BString = conflicts::materialize_merge_result_to_bytes(&contents, &ConflictLabels::unlabeled(), &mo);
    if let Some(back) = run_update(out, store, path, ids, &old, &text, len) {
        out.tally("stream", "crafted-word-merge");
        if back == *ids { out.oracle_ok(); } else {
            out.oracle_fail("unedited:word-merge-synthesized-marker-in-resolved-hunk",
                format!("hunk-level=word len={len} ids={} back={} text={:?}", show_ids(store, path, ids), show_ids(store, path, &back), text));
        }
    }
}

pub fn run(cfg: &Cfg, out: &mut Out) {
    let test_repo = TestRepo::init();
    let store = test_repo.repo.store().clone();
    let path = repo_path("file");
    let mut r = cfg.rng(6);
    for i in 0..cfg.n(4000, 60_000) {
        let plain = i % 3 != 2;
        let ids = gen_ids(&mut r, &store, path, if plain { PLAIN } else { TRICKY });
        one(out, &mut r, &store, path, &ids, plain);
    }
    // the C05 finding seen through update_from_content: with merge.hunk-level = "word" an unedited
    // materialized file can be recorded as a different conflict (crafted input, see notes/C05.md)
    {
        let mut config = testutils::base_user_config();
        config.add_layer(jj_lib::config::ConfigLayer::parse(jj_lib::config::ConfigSource::User, "merge.hunk-level = \"word\"").unwrap());
        let settings = jj_lib::settings::UserSettings::from_config(config).unwrap();
        let word_repo = TestRepo::init_with_settings(&settings);
        let wstore = word_repo.repo.store().clone();
        let base = b"<<<<x<<<<<y\na\n||||x|||||y\nb\n====x=====y\nc\n>>>>x>>>>>y\nsep\nq\n".to_vec();
        let side1: Vec<u8> = base.iter().copied().filter(|b| *b != b'x').flat_map(|b| if b == b'q' { b"q1".to_vec() } else { vec![b] }).collect();
        let side2: Vec<u8> = base.iter().copied().filter(|b| *b != b'y').flat_map(|b| if b == b'q' { b"q2".to_vec() } else { vec![b] }).collect();
        let ids = Merge::from_vec(vec![Some(write(&wstore, path, &side1)), Some(write(&wstore, path, &base)), Some(write(&wstore, path, &side2))]);
        one_unedited_word(out, &wstore, path, &ids);
    }
    out.note("ids by content; 2–3 sides plus up to 2 redundant pairs, absent sides 1/7; every style; edits replace one resolved region of the materialized text".into());
}
