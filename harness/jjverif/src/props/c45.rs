//! C45 — Pushing never overwrites remote changes jj has not seen.
//!
//! A bare Git repo `source` is the remote `origin` of a clone on which a jj repo lives
//! (`GitBackend::init_external`), plus a second clone that pushes independently (real `git push`)
//! and direct ref edits on the bare repo (same effect on the remote's ref store).  A long random
//! history of local bookmark moves, `other` updates on the remote, `git fetch` + `import_some_refs(origin)`, track /
//! untrack and `git::push_refs` (real `git push --force-with-lease` subprocess) is cut into
//! segments = cases; updates between jj's fetch and push happen all the time.
//!
//! Oracle (from the property text): for every bookmark handed to `push_refs`, with `rec` = jj's
//! recorded remote position before the push and `cur` = the real position on the remote:
//!  * the remote branch changed  =>  cur == rec;
//!  * cur != rec  =>  the ref is reported rejected and jj's remote-tracking record and local
//!    bookmark are unchanged — except when the remote already is at the pushed position (Git
//!    reports "up to date": nothing is overwritten, the record becomes the true position);
//!  * cur == rec  =>  pushed, remote == pushed position, record = (pushed position, tracked).
//! Bookmarks not handed to the push are untouched on the remote and in the records.
#[path = "gitsync_common.rs"]
mod common;
use crate::rt::*;
use common::*;
use jj_lib::backend::CommitId;
use jj_lib::git::{self, GitImportOptions, GitProgress, GitPushOptions, GitPushRefTargets,
    GitSidebandLineTerminator, GitSubprocessCallback, GitSubprocessOptions};
use jj_lib::git_backend::GitBackend;
use jj_lib::merge::Diff;
use jj_lib::op_store::RefTarget;
use jj_lib::ref_name::{RefName, RefNameBuf, RemoteName, RemoteRefSymbol};
use jj_lib::refs::{LocalAndRemoteRef, RefPushAction, classify_ref_push_action};
use jj_lib::repo::{ReadonlyRepo, Repo as _};
use jj_lib::settings::UserSettings;
use jj_lib::signing::Signer;
use jj_lib::str_util::StringMatcher;
use pollster::FutureExt as _;
use std::collections::HashMap;
use std::path::PathBuf;
use std::process::Command;
use std::sync::Arc;
use testutils::write_random_commit_with_parents;

struct NullCallback;
impl GitSubprocessCallback for NullCallback {
    fn needs_progress(&self) -> bool { false }
    fn progress(&mut self, _p: &GitProgress) -> std::io::Result<()> { Ok(()) }
    fn local_sideband(&mut self, _m: &[u8], _t: Option<GitSidebandLineTerminator>) -> std::io::Result<()> { Ok(()) }
    fn remote_sideband(&mut self, _m: &[u8], _t: Option<GitSidebandLineTerminator>) -> std::io::Result<()> { Ok(()) }
}

struct Env {
    _tmp: tempfile::TempDir,
    settings: UserSettings,
    repo: Arc<ReadonlyRepo>,
    git: gix::Repository,
    source: gix::Repository,
    clone2: PathBuf,
    pool: Pool,
    auto: bool,
    nn: usize,
}

fn git_cmd(dir: &std::path::Path, args: &[&str]) -> (bool, String) {
    let o = Command::new("git").current_dir(dir).args(args).output().unwrap();
    (o.status.success(), format!("{}{}", String::from_utf8_lossy(&o.stdout), String::from_utf8_lossy(&o.stderr)))
}

fn new_env(r: &mut Rng, nn: usize, nc: usize) -> Env {
    let settings = testutils::user_settings();
    let tmp = testutils::new_temp_dir();
    let source_dir = tmp.path().join("source");
    let source = testutils::git::init_bare(&source_dir);
    let clone_dir = tmp.path().join("clone");
    let clone = testutils::git::clone(&clone_dir, source_dir.to_str().unwrap(), None);
    let jj_dir = tmp.path().join("jj");
    std::fs::create_dir(&jj_dir).unwrap();
    let repo = ReadonlyRepo::init(
        &settings, &jj_dir,
        &|settings, store_path| Ok(Box::new(GitBackend::init_external(settings, store_path, clone.path())?)),
        Signer::from_settings(&settings).unwrap(),
        ReadonlyRepo::default_op_store_initializer(),
        ReadonlyRepo::default_op_heads_store_initializer(),
        ReadonlyRepo::default_index_store_initializer(),
        ReadonlyRepo::default_submodule_store_initializer(),
    ).block_on().unwrap();
    let root = repo.store().root_commit();
    let mut pool = Pool::new(root.id().clone());
    let mut commits = vec![root];
    let mut tx = repo.start_transaction();
    for i in 1..=nc {
        let p1 = if r.chance(1, 2) { i - 1 } else { r.below(i) };
        let mut ps = vec![p1];
        if p1 != 0 && i > 2 && r.chance(1, 6) { let p2 = r.range(1, i - 1); if p2 != p1 { ps.push(p2); } }
        let parents: Vec<&jj_lib::commit::Commit> = ps.iter().map(|&p| &commits[p]).collect();
        let c = write_random_commit_with_parents(tx.repo_mut(), &parents);
        pool.add(c.id().clone(), ps);
        commits.push(c);
    }
    let repo = tx.commit("pool").block_on().unwrap();
    // make every pool commit available on the remote and in the second clone (refs/pool/* is
    // outside the branch namespace: neither fetched nor imported)
    let specs: Vec<String> = (1..=nc).map(|k| format!("{}:refs/pool/c{k}", pool.oid(k))).collect();
    let mut args = vec!["push", "-q", "origin"];
    args.extend(specs.iter().map(|s| s.as_str()));
    let (ok, o) = git_cmd(&clone_dir, &args);
    assert!(ok, "pool push failed: {o}");
    let clone2 = tmp.path().join("clone2");
    testutils::git::clone(&clone2, source_dir.to_str().unwrap(), None);
    let (ok, o) = git_cmd(&clone2, &["fetch", "-q", "origin", "refs/pool/*:refs/pool/*"]);
    assert!(ok, "pool fetch failed: {o}");
    let git = git::get_git_repo(repo.store()).unwrap();
    Env { _tmp: tmp, settings, repo, git, source, clone2, pool, auto: r.chance(7, 8), nn }
}

fn import_options(auto: bool) -> GitImportOptions {
    let mut m = HashMap::new();
    if auto { m.insert("origin".into(), StringMatcher::all()); }
    GitImportOptions { abandon_unreachable_commits: false, record_synthetic_predecessors: false, remote_auto_track_bookmarks: m }
}

#[derive(Clone, Debug)]
enum Op { Set(usize, Option<usize>), Other(usize, Option<usize>), Track(usize), Untrack(usize), Fetch, Push(Vec<usize>) }
impl Op {
    fn show(&self) -> String {
        let o = |c: &Option<usize>| c.map(|x| x.to_string()).unwrap_or("x".into());
        match self {
            Op::Set(n, c) => format!("set:{n}:{}", o(c)),
            Op::Other(n, c) => format!("other:{n}:{}", o(c)),
            Op::Track(n) => format!("track:{n}@1"),
            Op::Untrack(n) => format!("untrack:{n}@1"),
            Op::Fetch => "fetch".into(),
            Op::Push(ns) => format!("push:{}", ns.iter().map(|n| n.to_string()).collect::<Vec<_>>().join("+")),
        }
    }
}

/// A segment = a few cheap moves on both sides (local bookmark moves, somebody else's updates on the
/// remote, track/untrack, sometimes a fetch), then usually a push of most bookmarks: one `git push`
/// subprocess decides several refs, each against its own lease.
fn gen_segment(r: &mut Rng, nn: usize, nc: usize) -> Vec<Op> {
    let c = |r: &mut Rng| -> Option<usize> { if r.chance(1, 5) { None } else { Some(r.range(1, nc)) } };
    let mut ops = vec![];
    for _ in 0..r.range(2, 5) {
        let n = r.below(nn);
        ops.push(match r.below(100) {
            0..=49 => Op::Set(n, c(r)),
            50..=79 => Op::Other(n, c(r)),
            80..=87 => Op::Track(n),
            88..=90 => Op::Untrack(n),
            _ => Op::Fetch,
        });
    }
    if r.chance(6, 7) {
        let mut ns: Vec<usize> = (0..nn).filter(|_| r.chance(3, 4)).collect();
        if ns.is_empty() { ns.push(r.below(nn)); }
        ops.push(Op::Push(ns));
        if r.chance(1, 6) { ops.push(Op::Fetch); }
    }
    ops
}

fn remote_refs(env: &Env) -> Vec<(usize, usize)> {
    git_refs_of(&env.pool, &env.source).into_iter().filter(|((_, r), _)| *r == 0).map(|((n, _), c)| (n, c)).collect()
}
fn show_remote(v: &[(usize, usize)]) -> String {
    if v.is_empty() { "-".into() } else { v.iter().map(|(n, c)| format!("{n}={c}")).collect::<Vec<_>>().join(",") }
}
fn rget(v: &[(usize, usize)], n: usize) -> Option<usize> { v.iter().find(|e| e.0 == n).map(|e| e.1) }
fn opt_id(pool: &Pool, id: &Option<CommitId>) -> Option<usize> { id.as_ref().map(|i| *pool.num.get(i).unwrap_or(&999)) }
fn o2s(c: Option<usize>) -> String { c.map(|x| x.to_string()).unwrap_or("x".into()) }

fn other_update(env: &Env, r: &mut Rng, n: usize, c: Option<usize>) {
    let name = format!("refs/heads/{}", bname(n));
    if r.chance(1, 6) {
        // the second clone pushes (unconditionally forced: it is "somebody else")
        let spec = match c { Some(k) => format!("+{}:{name}", env.pool.oid(k)), None => format!(":{name}") };
        let (_ok, _o) = git_cmd(&env.clone2, &["push", "-q", "origin", &spec]);
        // deleting a branch that does not exist fails harmlessly
    } else {
        set_git_ref(&env.source, &name, c.map(|k| env.pool.oid(k)));
    }
}

fn run_segment(env: &mut Env, out: &mut Out, r: &mut Rng) {
    let nn = env.nn;
    let nc = env.pool.len() - 1;
    let snap0 = Snap::of(&env.pool, env.repo.view());
    let git0 = git_refs_of(&env.pool, &env.git);
    let rem0 = remote_refs(env);
    let opts = import_options(env.auto);
    let mut tx = env.repo.start_transaction();
    let mut ops: Vec<Op> = vec![];
    let mut events: Vec<String> = vec![];
    let mut interesting = false;
    let mut failed = false;
    let origin = RemoteName::new("origin");
    for op in gen_segment(r, nn, nc) {
        let before = Snap::of(&env.pool, tx.repo().view());
        let rbefore = remote_refs(env);
        let st = |env: &Env, tx: &jj_lib::transaction::Transaction| format!("{} {} {}", Snap::of(&env.pool, tx.repo().view()).show(),
            show_git(&git_refs_of(&env.pool, &env.git)), show_remote(&remote_refs(env)));
        match &op {
            Op::Set(n, c) => tx.repo_mut().set_local_bookmark_target(RefName::new(&bname(*n)),
                match c { Some(k) => RefTarget::normal(env.pool.ids[*k].clone()), None => RefTarget::absent() }),
            Op::Other(n, c) => other_update(env, r, *n, *c),
            Op::Track(n) => tx.repo_mut().track_remote_bookmark(RemoteRefSymbol { name: RefName::new(&bname(*n)), remote: origin }).block_on().unwrap(),
            Op::Untrack(n) => tx.repo_mut().untrack_remote_bookmark(RemoteRefSymbol { name: RefName::new(&bname(*n)), remote: origin }),
            Op::Fetch => {
                // `git fetch` is issued here (the sandbox's git 2.39 lacks `fetch --porcelain`, which
                // `GitFetch::fetch` needs); the import is jj's: `import_some_refs` with the same
                // "refs of this remote" filter as `GitFetch::import_refs`.
                let (ok, o) = git_cmd(env.git.path(), &["fetch", "-q", "--prune", "--no-write-fetch-head", "origin", "+refs/heads/*:refs/remotes/origin/*"]);
                if !ok { out.oracle_fail("c45:git-fetch-failed", o); failed = true; ops.push(op); break; }
                let res = guard(|| {
                    git::import_some_refs(tx.repo_mut(), &opts, |_, sym| sym.remote.as_str() == "origin").block_on().unwrap();
                });
                if let Err(e) = res { out.oracle_fail("c45:fetch-panic", e); failed = true; ops.push(op); break; }
                events.push(format!("T {}", st(env, &tx)));
                out.tally("op", "fetch");
            }
            Op::Push(names) => {
                // what `jj git push` does: classify each selected bookmark, push the Update actions
                let mut acts = vec![];
                let mut targets = GitPushRefTargets::default();
                let mut handed: Vec<(usize, Option<usize>, Option<usize>)> = vec![];
                for &n in names {
                    let view = tx.repo().view();
                    let nm = bname(n);
                    let lr = LocalAndRemoteRef {
                        local_target: view.get_local_bookmark(RefName::new(&nm)),
                        remote_ref: view.get_remote_bookmark(RemoteRefSymbol { name: RefName::new(&nm), remote: origin }),
                    };
                    let a = classify_ref_push_action(lr);
                    acts.push(match &a {
                        RefPushAction::Update(d) => format!("{n}:update:{}>{}", o2s(opt_id(&env.pool, &d.before)), o2s(opt_id(&env.pool, &d.after))),
                        RefPushAction::AlreadyMatches => format!("{n}:matches"),
                        RefPushAction::LocalConflicted => format!("{n}:local-conflicted"),
                        RefPushAction::RemoteConflicted => format!("{n}:remote-conflicted"),
                        RefPushAction::RemoteUntracked => format!("{n}:untracked"),
                    });
                    out.tally("action", acts.last().unwrap().split(':').nth(1).unwrap());
                    if let RefPushAction::Update(d) = a {
                        // lease_is_recorded_position, checked on the implementation: the expected value
                        // is the tracked record
                        let (rt, tracked) = before.remote((n, 1));
                        let rec = if tracked && rt.len() == 1 { rt[0] } else { None };
                        if opt_id(&env.pool, &d.before) != rec {
                            out.oracle_fail("c45:lease-not-recorded-position", format!("name {n}: record {rt:?} tracked={tracked}, expected value sent {:?}", opt_id(&env.pool, &d.before)));
                        } else { out.oracle_ok(); }
                        handed.push((n, opt_id(&env.pool, &d.before), opt_id(&env.pool, &d.after)));
                        targets.bookmarks.push((RefNameBuf::from(nm.as_str()), Diff::new(d.before.clone(), d.after.clone())));
                    }
                }
                let (mut pushed, mut rejected, mut unexp): (Vec<usize>, Vec<usize>, Vec<String>) = (vec![], vec![], vec![]);
                if !targets.bookmarks.is_empty() {
                    let so = GitSubprocessOptions::from_settings(&env.settings).unwrap();
                    let res = guard(|| git::push_refs(tx.repo_mut(), so, origin, &targets, &mut NullCallback, &GitPushOptions::default()));
                    match res {
                        Ok(Ok(stats)) => {
                            let nm = |s: &str| parse_git_ref_name(s).map(|k| k.0).unwrap_or(99);
                            pushed = stats.pushed.iter().map(|x| nm(x.as_str())).collect();
                            rejected = stats.rejected.iter().map(|(x, _)| nm(x.as_str())).collect();
                            if !stats.remote_rejected.is_empty() { out.oracle_fail("c45:remote-rejected", format!("{:?}", stats.remote_rejected)); }
                            unexp = stats.unexported_bookmarks.iter().map(|(sym, _)| format!("{}@1:unexported", parse_bname(sym.name.as_str()).unwrap_or(99))).collect();
                        }
                        Ok(Err(e)) => { out.oracle_fail("c45:push-error", format!("{e:?}")); failed = true; }
                        Err(e) => { out.oracle_fail("c45:push-panic", e); failed = true; }
                    }
                }
                if failed { ops.push(op); break; }
                pushed.sort(); rejected.sort();
                let after = Snap::of(&env.pool, tx.repo().view());
                let rafter = remote_refs(env);
                // ---------------- oracle ----------------
                for n in 0..nn {
                    let cur = rget(&rbefore, n);
                    let post = rget(&rafter, n);
                    let rec_b = before.remote((n, 1));
                    let rec_a = after.remote((n, 1));
                    match handed.iter().find(|h| h.0 == n) {
                        None => {
                            if post != cur || rec_a != rec_b || after.local(n) != before.local(n) {
                                out.oracle_fail("c45:unpushed-name-changed", format!("name {n} not pushed: remote {cur:?}->{post:?}, record {rec_b:?}->{rec_a:?}"));
                            } else { out.oracle_ok(); }
                        }
                        Some(&(_, rec, new)) => {
                            let is_pushed = pushed.contains(&n);
                            let is_rej = rejected.contains(&n);
                            if after.local(n) != before.local(n) {
                                out.oracle_fail("c45:push-changed-local-bookmark", format!("name {n}: {:?} -> {:?}", before.local(n), after.local(n)));
                            }
                            if post != cur && cur != rec {
                                out.oracle_fail("c45:overwrote-unseen-remote-change", format!("name {n}: jj's record {rec:?}, remote was {cur:?}, push moved it to {post:?}"));
                            } else if cur != rec {
                                if new.is_some() && cur == new {
                                    // already there: Git says "up to date"; nothing overwritten
                                    if post != cur || !is_pushed || rec_a != (vec![new], true) {
                                        out.oracle_fail("c45:up-to-date-mishandled", format!("name {n}: remote already at {new:?}; after: remote {post:?}, record {rec_a:?}, pushed={is_pushed}"));
                                    } else { out.oracle_ok(); out.tally("outcome", "stale-but-up-to-date"); interesting = true; }
                                } else if !is_rej || is_pushed || rec_a != rec_b {
                                    out.oracle_fail("c45:stale-push-not-rejected", format!("name {n}: record {rec:?} != remote {cur:?}; rejected={is_rej} pushed={is_pushed} record after {rec_a:?} (before {rec_b:?})"));
                                } else { out.oracle_ok(); out.tally("outcome", "rejected-stale"); interesting = true; }
                            } else {
                                if !is_pushed || is_rej || post != new || rec_a != (vec![new], true) && !(new.is_none() && rec_a == (vec![None], false)) {
                                    out.oracle_fail("c45:fresh-push-failed", format!("name {n}: record == remote == {cur:?}, pushing {new:?}: pushed={is_pushed} remote after {post:?} record after {rec_a:?}"));
                                } else { out.oracle_ok(); out.tally("outcome", if new.is_none() { "pushed-delete" } else if cur.is_none() { "pushed-create" } else { "pushed-move" }); interesting = true; }
                            }
                        }
                    }
                }
                let show_ns = |v: &[usize]| if v.is_empty() { "-".to_string() } else { v.iter().map(|x| x.to_string()).collect::<Vec<_>>().join(",") };
                events.push(format!("P {} {} {} {} {}", acts.join(","), show_ns(&pushed), show_ns(&rejected),
                    if unexp.is_empty() { "-".to_string() } else { unexp.join(",") }, st(env, &tx)));
                out.tally("op", "push");
            }
        }
        if !matches!(op, Op::Fetch | Op::Push(_)) { out.tally("op", op.show().split(':').next().unwrap()); }
        ops.push(op);
    }
    let fin = format!("{} {} {}", Snap::of(&env.pool, tx.repo().view()).show(), show_git(&git_refs_of(&env.pool, &env.git)), show_remote(&remote_refs(env)));
    env.repo = tx.commit("segment").block_on().unwrap();
    let req = format!("run {nn} {} {} {} {} {} {}", env.pool.dag(), if env.auto { 1 } else { 0 }, snap0.show(), show_git(&git0), show_remote(&rem0),
        ops.iter().map(|o| o.show()).collect::<Vec<_>>().join(" "));
    let resp = if failed { "error".to_string() } else { events.push(format!("F {fin}")); events.join(" | ") };
    out.case(&req, &resp);
    if interesting { out.nontrivial((req.clone(),)); }
}

/// Assumption A7 tied to the real Git: `git push --force-with-lease=<ref>:<expected> <new>:<ref>`
/// for every (current, expected, new) over {absent, c1, c2} with expected != new.
fn cas_probes(env: &Env, out: &mut Out) {
    let vals = [None, Some(1usize), Some(2)];
    let clone_dir = env.clone2.clone();
    let name = "refs/heads/casprobe";
    for cur in vals { for exp in vals { for new in vals {
        if exp == new { continue; }
        set_git_ref(&env.source, name, cur.map(|k| env.pool.oid(k)));
        let lease = format!("--force-with-lease={name}:{}", exp.map(|k| env.pool.oid(k).to_string()).unwrap_or_default());
        let spec = match new { Some(k) => format!("{}:{name}", env.pool.oid(k)), None => format!(":{name}") };
        let (_ok, o) = git_cmd(&clone_dir, &["push", "--porcelain", &lease, "--", "origin", &spec]);
        let line = o.lines().find(|l| l.contains(name) && l.contains('\t')).unwrap_or("").to_string();
        let status = if line.starts_with('!') { "rejected" } else if line.is_empty() { "error" } else { "pushed" };
        let post = env.source.try_find_reference(name).unwrap().and_then(|r| r.target().try_id().map(|i| i.to_owned())).and_then(|i| env.pool.of_oid(&i));
        out.case(&format!("cas {} {} {}", o2s(cur), o2s(exp), o2s(new)), &format!("{status} {}", o2s(post)));
        if post != cur && cur != exp { out.oracle_fail("c45:git-lease-not-cas", format!("cur {cur:?} expected {exp:?} new {new:?}: remote became {post:?}")); } else { out.oracle_ok(); }
        if cur != exp { out.nontrivial(("cas", cur, exp, new)); }
    } } }
    set_git_ref(&env.source, name, None);
}

/// `classify_ref_push_action` on every combination of a small set of local targets, remote targets
/// and tracking states (in-process, no repo)
fn classify_cases(out: &mut Out) {
    let mut pool = Pool::new(CommitId::from_bytes(&[0u8; 20]));
    for k in 1..=3u8 { pool.add(CommitId::from_bytes(&[k; 20]), vec![0]); }
    let ts: Vec<Vec<Option<usize>>> = vec![vec![None], vec![Some(1)], vec![Some(2)], vec![Some(3)], vec![Some(1), None, Some(2)],
        vec![Some(1), Some(2), Some(3)], vec![None, Some(1), Some(2)], vec![Some(2), Some(1), Some(3)]];
    for l in &ts { for rt in &ts { for tracked in [false, true] {
        let local = pool.target(l);
        let rr = jj_lib::op_store::RemoteRef { target: pool.target(rt), state: if tracked { jj_lib::op_store::RemoteRefState::Tracked } else { jj_lib::op_store::RemoteRefState::New } };
        let a = classify_ref_push_action(LocalAndRemoteRef { local_target: &local, remote_ref: &rr });
        let got = match &a {
            RefPushAction::Update(d) => format!("0:update:{}>{}", o2s(opt_id(&pool, &d.before)), o2s(opt_id(&pool, &d.after))),
            RefPushAction::AlreadyMatches => "0:matches".into(),
            RefPushAction::LocalConflicted => "0:local-conflicted".into(),
            RefPushAction::RemoteConflicted => "0:remote-conflicted".into(),
            RefPushAction::RemoteUntracked => "0:untracked".into(),
        };
        out.case(&format!("classify {} {} {}", show_terms(l), show_terms(rt), if tracked { "T" } else { "N" }), &got);
        // property-level statement: an update's expected value is the tracked record, never anything else
        if let RefPushAction::Update(d) = &a {
            let rec = if tracked && rt.len() == 1 { rt[0] } else { None };
            if opt_id(&pool, &d.before) != rec { out.oracle_fail("c45:lease-not-recorded-position", format!("local {l:?} remote {rt:?} tracked={tracked}: expected {:?}", d.before)); } else { out.oracle_ok(); }
            out.nontrivial(("classify", l.clone(), rt.clone(), tracked));
        }
    } } }
}

pub fn run(cfg: &Cfg, out: &mut Out) {
    testutils::hermetic_git();
    classify_cases(out);
    let mut r = cfg.rng(45);
    // Every push/fetch is a real `git` subprocess (50-400 ms each depending on machine load), so the
    // number of environments is bounded by a wall-clock budget: the cases are a deterministic
    // prefix of the seed's sequence; at least one environment always runs.
    let t0 = std::time::Instant::now();
    let budget = if cfg.tier == Tier::Quick { 55.0 } else { 600.0 } * cfg.scale as f64;
    let max_envs = cfg.n(8, 80);
    let segs_per_env = 60;
    let mut ran = 0;
    for e in 0..max_envs {
        if e > 0 && t0.elapsed().as_secs_f64() > budget { break; }
        let nn = 3;
        let mut env = new_env(&mut r, nn, 6);
        for i in 0..segs_per_env {
            if (e > 0 || i >= 30) && t0.elapsed().as_secs_f64() > budget { break; }
            run_segment(&mut env, out, &mut r);
        }
        if e == 0 { cas_probes(&env, out); }
        ran += 1;
    }
    out.note(format!("{ran} environments (max {max_envs}, budget {budget}s) x {segs_per_env} segments (2..5 moves, then usually one multi-ref push); 3 bookmark names, 6 pool commits; remote = bare repo, second clone pushes; plus exhaustive classify cases and lease probes against real git"));
}
