//! C31 — fileset expressions select the paths their definition says.
//!
//! Cases: random fileset expression *text* (all 12 pattern kinds + the 5 short aliases + bare
//! identifiers/strings, `none()`, `all()`, `~x`, `x & y`, `x ~ y`, `x | y | …`, random parentheses,
//! quoting and whitespace), parsed by the real `fileset::parse` from a random cwd inside the
//! workspace, over the path universe "every path of length ≤ D over k names".
//!   A third stream (after seed C31) repeats one glob text under different kinds / case options at
//!   one directory inside a union (both orders, nested), over universes of case variants.
//! * Correspondence: the resolved `FilesetExpression` returned by the parser is printed canonically
//!   (paths as component ids, each glob as the truth table of its regex over the universe — A5) and
//!   sent to the Lean model, whose `toMatcher` must reproduce `to_matcher().visit(dir)` at every
//!   universe path and `to_matcher().matches(p)` at every universe path.
//! * Oracle (from the property text, independent of jj and of the model): a reference evaluator
//!   working on the *generated* expression tree — own path normalisation (cwd join, `.`/`..`,
//!   workspace-relative rules), own glob matcher (`*`, `?`, `[..]`, `{..}`, `**`, case folding),
//!   set semantics for the operators — must agree with `matches(p)` on every universe path and with
//!   parse success/failure.  Additionally the C30 soundness clauses are evaluated on the visits.
use crate::rt::*;
use jj_lib::fileset::{self, FilePattern, FilesetAliasesMap, FilesetDiagnostics, FilesetExpression, FilesetParseContext};
use jj_lib::matchers::*;
use jj_lib::repo_path::{RepoPath, RepoPathBuf, RepoPathUiConverter};
use std::path::PathBuf;

const NAME_POOL: [&str; 7] = ["a", "b", "ab", "A", "B", "1", "a1"];
type P = Vec<usize>;

struct Uni { names: Vec<String>, k: usize, d: usize, paths: Vec<P> }
impl Uni {
    fn new(names: Vec<String>, d: usize) -> Uni {
        let k = names.len();
        let mut paths: Vec<P> = vec![vec![]];
        let mut layer: Vec<P> = vec![vec![]];
        for _ in 0..d {
            let mut next = Vec::new();
            for c in 0..k { for p in &layer { let mut q = vec![c]; q.extend(p); next.push(q); } }
            next.sort();
            paths.extend(next.iter().cloned());
            layer = next;
        }
        Uni { names, k, d, paths }
    }
    fn repo_path(&self, p: &[usize]) -> RepoPathBuf {
        RepoPathBuf::from_internal_string(p.iter().map(|c| self.names[*c].as_str()).collect::<Vec<_>>().join("/")).unwrap()
    }
    fn strs<'a>(&'a self, p: &[usize]) -> Vec<&'a str> { p.iter().map(|c| self.names[*c].as_str()).collect() }
    /// id of a name; unknown names get fresh ids ≥ k (they can never lie on a universe path)
    fn id(&mut self, name: &str) -> usize {
        if let Some(i) = self.names.iter().position(|n| n == name) { i } else { self.names.push(name.to_string()); self.names.len() - 1 }
    }
    fn show_repo_path(&mut self, p: &RepoPath) -> String {
        let ids: Vec<String> = p.components().map(|c| self.id(c.as_internal_str()).to_string()).collect();
        if ids.is_empty() { "r".into() } else { ids.join(".") }
    }
}

// ---------------------------------------------------------------------------------------------
// generated expression tree, its text, and the reference semantics
// ---------------------------------------------------------------------------------------------

#[derive(Clone, Copy, PartialEq, Debug)]
enum Anchor { File, Prefix }
#[derive(Clone, Copy, PartialEq, Debug)]
enum Syntax { Path, Glob }
#[derive(Clone, Copy, Debug)]
struct Kind { name: &'static str, cwd: bool, anchor: Anchor, syntax: Syntax, icase: bool }
const fn kd(name: &'static str, cwd: bool, anchor: Anchor, syntax: Syntax, icase: bool) -> Kind { Kind { name, cwd, anchor, syntax, icase } }
const KINDS: [Kind; 18] = [
    kd("", true, Anchor::Prefix, Syntax::Glob, false), // bare identifier / string
    kd("cwd", true, Anchor::Prefix, Syntax::Path, false),
    kd("cwd-file", true, Anchor::File, Syntax::Path, false), kd("file", true, Anchor::File, Syntax::Path, false),
    kd("cwd-glob", true, Anchor::File, Syntax::Glob, false), kd("glob", true, Anchor::File, Syntax::Glob, false),
    kd("cwd-glob-i", true, Anchor::File, Syntax::Glob, true), kd("glob-i", true, Anchor::File, Syntax::Glob, true),
    kd("cwd-prefix-glob", true, Anchor::Prefix, Syntax::Glob, false), kd("prefix-glob", true, Anchor::Prefix, Syntax::Glob, false),
    kd("cwd-prefix-glob-i", true, Anchor::Prefix, Syntax::Glob, true), kd("prefix-glob-i", true, Anchor::Prefix, Syntax::Glob, true),
    kd("root", false, Anchor::Prefix, Syntax::Path, false),
    kd("root-file", false, Anchor::File, Syntax::Path, false),
    kd("root-glob", false, Anchor::File, Syntax::Glob, false),
    kd("root-glob-i", false, Anchor::File, Syntax::Glob, true),
    kd("root-prefix-glob", false, Anchor::Prefix, Syntax::Glob, false),
    kd("root-prefix-glob-i", false, Anchor::Prefix, Syntax::Glob, true),
];

#[derive(Clone, Debug)]
enum T { None, All, Pat(Kind, String, u8), Neg(Box<T>), Un(Vec<T>), In(Box<T>, Box<T>), Di(Box<T>, Box<T>) }

fn is_ident(s: &str) -> bool {
    !s.is_empty() && s.chars().all(|c| c.is_ascii_alphanumeric() || "+-.@_*?[]/".contains(c))
}

fn text(t: &T, r: &mut Rng) -> String {
    let sp = |r: &mut Rng| if r.chance(1, 4) { " " } else { "" };
    let s = match t {
        T::None => "none()".to_string(),
        T::All => if r.chance(1, 5) { "all( )".to_string() } else { "all()".to_string() },
        T::Pat(k, arg, q) => {
            let quoted = if *q == 0 && is_ident(arg) { arg.clone() } else if *q <= 1 { format!("\"{arg}\"") } else { format!("'{arg}'") };
            if k.name.is_empty() { quoted } else { format!("{}:{}", k.name, quoted) }
        }
        T::Neg(x) => {
            let inner = text(x, r);
            if matches!(**x, T::Un(_) | T::In(..) | T::Di(..)) { format!("~{}({})", sp(r), inner) } else { format!("~{}{}", sp(r), inner) }
        }
        T::Un(xs) => xs.iter().map(|x| { let s = text(x, r); if matches!(x, T::Un(_)) { format!("({s})") } else { s } })
            .collect::<Vec<_>>().join(if r.chance(1, 2) { " | " } else { "|" }),
        T::In(a, b) | T::Di(a, b) => {
            let (sa, sb) = (text(a, r), text(b, r));
            let sa = if matches!(**a, T::Un(_)) { format!("({sa})") } else { sa };
            let sb = if matches!(**b, T::Un(_) | T::In(..) | T::Di(..)) { format!("({sb})") } else { sb };
            // `a~b` would lex `~b`… fine, but `a ~b` and `a~ b` are all the same expression
            format!("{sa} {} {sb}", if matches!(t, T::In(..)) { "&" } else { "~" })
        }
    };
    if r.chance(1, 8) { format!("({}{}{})", sp(r), s, sp(r)) } else { s }
}

/// lexical resolution of a literal path text against the cwd (both relative to the workspace
/// root); `Err` = the path escapes the workspace
fn resolve_cwd(cwd: &[String], arg: &str, base: &str) -> Result<Vec<String>, ()> {
    if let Some(stripped) = arg.strip_prefix('/') {
        // absolute input: must lie inside the workspace directory `base`
        let b = base.trim_start_matches('/');
        let s = stripped.trim_start_matches('/');
        let rest = if s == b { "" } else if let Some(x) = s.strip_prefix(&format!("{b}/")) { x } else { return Err(()) };
        return resolve_into(vec![], rest);
    }
    resolve_into(cwd.to_vec(), arg)
}
fn resolve_into(mut stack: Vec<String>, arg: &str) -> Result<Vec<String>, ()> {
    for c in arg.split('/') {
        match c {
            "" | "." => {}
            ".." => { if stack.pop().is_none() { return Err(()); } }
            n => stack.push(n.to_string()),
        }
    }
    Ok(stack)
}
/// workspace-relative literal path: no `..`, no leading `.` (except the path `.` itself), not absolute
fn resolve_root(arg: &str) -> Result<Vec<String>, ()> {
    if arg.starts_with('/') { return Err(()); }
    let comps: Vec<&str> = arg.split('/').filter(|c| !c.is_empty()).collect();
    let mut out = vec![];
    for (i, c) in comps.iter().enumerate() {
        match *c {
            "." => { if i == 0 && comps.iter().any(|c| *c != ".") { return Err(()); } }
            ".." => return Err(()),
            n => out.push(n.to_string()),
        }
    }
    Ok(out)
}

fn has_glob_char(s: &str) -> bool { s.chars().any(|c| "?*[]{}\\".contains(c)) }

/// brace expansion (no nesting in generated patterns)
fn expand_braces(s: &str) -> Vec<String> {
    if let Some(i) = s.find('{') {
        let j = i + s[i..].find('}').expect("closed brace");
        let mut out = vec![];
        for alt in s[i + 1..j].split(',') {
            for rest in expand_braces(&s[j + 1..]) { out.push(format!("{}{}{}", &s[..i], alt, rest)); }
        }
        out
    } else { vec![s.to_string()] }
}

/// one path component against one glob component (`*`, `?`, `[..]`, literals)
fn comp_match(pat: &[char], name: &[char], icase: bool) -> bool {
    let eq = |a: char, b: char| if icase { a.to_ascii_lowercase() == b.to_ascii_lowercase() } else { a == b };
    match pat.first() {
        None => name.is_empty(),
        Some('*') => (0..=name.len()).any(|i| comp_match(&pat[1..], &name[i..], icase)),
        Some('?') => !name.is_empty() && comp_match(&pat[1..], &name[1..], icase),
        Some('[') => {
            let close = pat.iter().position(|c| *c == ']').expect("closed class");
            if name.is_empty() { return false; }
            let mut body = &pat[1..close];
            let neg = body.first() == Some(&'!');
            if neg { body = &body[1..]; }
            let mut hit = false;
            let mut i = 0;
            while i < body.len() {
                if i + 2 < body.len() && body[i + 1] == '-' {
                    let (lo, hi, c) = (body[i], body[i + 2], name[0]);
                    if icase { if lo.to_ascii_lowercase() <= c.to_ascii_lowercase() && c.to_ascii_lowercase() <= hi.to_ascii_lowercase() { hit = true; } }
                    else if lo <= c && c <= hi { hit = true; }
                    i += 3;
                } else { if eq(body[i], name[0]) { hit = true; } i += 1; }
            }
            hit != neg && comp_match(&pat[close + 1..], &name[1..], icase)
        }
        Some(c) => !name.is_empty() && eq(*c, name[0]) && comp_match(&pat[1..], &name[1..], icase),
    }
}

fn comps_match(pat: &[&str], path: &[&str], icase: bool, whole_len: usize) -> bool {
    match pat.first() {
        None => path.is_empty(),
        Some(&"**") => {
            if pat.len() == 1 { whole_len == 1 || !path.is_empty() }      // `**` alone: anything; `x/**`: at least one component
            else { (0..=path.len()).any(|i| comps_match(&pat[1..], &path[i..], icase, whole_len)) }
        }
        Some(g) => !path.is_empty()
            && comp_match(&g.chars().collect::<Vec<_>>(), &path[0].chars().collect::<Vec<_>>(), icase)
            && comps_match(&pat[1..], &path[1..], icase, whole_len),
    }
}

/// does the glob text (relative pattern, `/`-separated) accept exactly this tail?
fn glob_match(glob: &str, tail: &[&str], icase: bool) -> bool {
    expand_braces(glob).iter().any(|alt| {
        let comps: Vec<&str> = alt.split('/').filter(|c| !c.is_empty()).collect();
        comps_match(&comps, tail, icase, comps.len())
    })
}

type Pred = Box<dyn Fn(&[&str]) -> bool>;

/// reference semantics of one pattern leaf; `Err` = the pattern must be rejected
fn ref_leaf(k: &Kind, arg: &str, cwd: &[String], base: &str) -> Result<Pred, bool> {
    let rej = |_: ()| false;
    let anchor = k.anchor;
    match k.syntax {
        Syntax::Path => {
            let target = if k.cwd { resolve_cwd(cwd, arg, base).map_err(rej)? } else { resolve_root(arg).map_err(rej)? };
            Ok(Box::new(move |p: &[&str]| match anchor {
                Anchor::File => p.len() == target.len() && p.iter().zip(&target).all(|(a, b)| a == b),
                Anchor::Prefix => p.len() >= target.len() && p.iter().zip(&target).all(|(a, b)| a == b),
            }))
        }
        Syntax::Glob => {
            // Relative input: only the leading `.`/`..` navigation is resolved as a path; every other
            // component (literal names included) belongs to the glob, which is matched as a whole against
            // the tail below the anchor.  (So this does not replicate jj's literal-prefix split: a literal
            // component must behave the same whether jj treats it as directory or as glob.)
            // Absolute input: the literal directory part is whatever has no glob characters (and, for the
            // case-insensitive kinds, no letters), as documented for the pattern kinds.
            let raw: Vec<&str> = arg.split_inclusive('/').collect();
            let icase = k.icase;
            let n_lit = if arg.starts_with('/') {
                raw.iter().take_while(|c| !has_glob_char(c) && !(icase && c.chars().any(|ch| ch.is_ascii_alphabetic()))).count()
            } else {
                raw.iter().take_while(|c| matches!(c.trim_end_matches('/'), "." | ".." | "")).count()
            };
            let lit: String = raw[..n_lit].concat();
            let glob: String = raw[n_lit..].concat();
            // Workspace-relative glob kinds with a leading `./` before further components: jj accepts or
            // rejects depending on where its literal-prefix split falls (`root-glob:"./*"` and
            // `root-glob-i:"./a"` are accepted, `root-glob:"./a"` is rejected like `root:"./a"`); the
            // definition does not say, so no verdict on acceptance (the match set is not judged either).
            if !k.cwd && arg.starts_with("./") && arg.trim_start_matches(|c| c == '.' || c == '/') != "" { return Err(true); }
            let dir = if k.cwd { resolve_cwd(cwd, &lit, base).map_err(rej)? } else { resolve_root(&lit).map_err(rej)? };
            let gcomps: Vec<&str> = glob.split('/').filter(|c| !c.is_empty()).collect();
            if glob.starts_with('/') || gcomps.iter().any(|c| *c == "..") || (gcomps.first() == Some(&".") && gcomps.len() > 1) { return Err(false); }
            let gcomps: Vec<String> = gcomps.into_iter().filter(|c| *c != ".").map(|c| c.to_string()).collect();
            let glob = gcomps.join("/");
            Ok(Box::new(move |p: &[&str]| {
                if !(p.len() >= dir.len() && p.iter().zip(&dir).all(|(a, b)| a == b)) { return false; }
                let tail = &p[dir.len()..];
                if glob.is_empty() { return match anchor { Anchor::File => tail.is_empty(), Anchor::Prefix => true }; }
                match anchor {
                    Anchor::File => !tail.is_empty() && glob_match(&glob, tail, icase),
                    Anchor::Prefix => (1..=tail.len()).any(|n| glob_match(&glob, &tail[..n], icase)),
                }
            }))
        }
    }
}

enum R { None, All, Leaf(Pred), Neg(Box<R>), Un(Vec<R>), In(Box<R>, Box<R>), Di(Box<R>, Box<R>) }
fn ref_build(t: &T, cwd: &[String], base: &str) -> Result<R, bool> {
    Ok(match t {
        T::None => R::None, T::All => R::All,
        T::Pat(k, arg, _) => R::Leaf(ref_leaf(k, arg, cwd, base)?),
        T::Neg(x) => R::Neg(Box::new(ref_build(x, cwd, base)?)),
        T::Un(xs) => R::Un(xs.iter().map(|x| ref_build(x, cwd, base)).collect::<Result<Vec<_>, bool>>()?),
        T::In(a, b) => R::In(Box::new(ref_build(a, cwd, base)?), Box::new(ref_build(b, cwd, base)?)),
        T::Di(a, b) => R::Di(Box::new(ref_build(a, cwd, base)?), Box::new(ref_build(b, cwd, base)?)),
    })
}
fn ref_eval(r: &R, p: &[&str]) -> bool {
    match r {
        R::None => false, R::All => true, R::Leaf(f) => f(p),
        R::Neg(x) => !ref_eval(x, p),
        R::Un(xs) => xs.iter().any(|x| ref_eval(x, p)),
        R::In(a, b) => ref_eval(a, p) && ref_eval(b, p),
        R::Di(a, b) => ref_eval(a, p) && !ref_eval(b, p),
    }
}

// ---------------------------------------------------------------------------------------------
// canonical print of the parsed expression (request for the model)
// ---------------------------------------------------------------------------------------------

fn glob_table(pat: &FilePattern, uni: &Uni) -> String {
    let (FilePattern::FileGlob { pattern, .. } | FilePattern::PrefixGlob { pattern, .. }) = pat else { unreachable!() };
    let mut b = GlobsMatcher::builder().prefix_paths(false);
    b.add(RepoPath::root(), pattern);
    let m = b.build();
    let mut bp = GlobsMatcher::builder().prefix_paths(true);
    bp.add(RepoPath::root(), pattern);
    let mp = bp.build();
    uni.paths.iter().map(|t| {
        let v = if t.is_empty() { mp.visit(RepoPath::root()) == Visit::AllRecursively } else { m.matches(&uni.repo_path(t)) };
        if v { '1' } else { '0' }
    }).collect()
}

fn show_ast(e: &FilesetExpression, uni: &mut Uni, out: &mut Vec<String>, stats: &mut (usize, usize)) {
    match e {
        FilesetExpression::None => out.push("none".into()),
        FilesetExpression::All => out.push("all".into()),
        FilesetExpression::Pattern(p) => {
            stats.0 += 1;
            match p {
                FilePattern::FilePath(q) => out.push(format!("fp:{}", uni.show_repo_path(q))),
                FilePattern::PrefixPath(q) => out.push(format!("pp:{}", uni.show_repo_path(q))),
                FilePattern::FileGlob { dir, .. } => { stats.1 += 1; let t = glob_table(p, uni); out.push(format!("fg:{}={}", uni.show_repo_path(dir), t)) }
                FilePattern::PrefixGlob { dir, .. } => { stats.1 += 1; let t = glob_table(p, uni); out.push(format!("pg:{}={}", uni.show_repo_path(dir), t)) }
            }
        }
        FilesetExpression::UnionAll(es) => {
            out.push(format!("U:{}", es.len()));
            for x in es { show_ast(x, uni, out, stats); }
        }
        FilesetExpression::Intersection(a, b) | FilesetExpression::Difference(a, b) => {
            out.push(if matches!(e, FilesetExpression::Intersection(..)) { "I" } else { "D" }.into());
            show_ast(a, uni, out, stats);
            show_ast(b, uni, out, stats);
        }
    }
}

/// `as_union_all` of lib/src/fileset.rs (private there): the list that goes into one
/// `build_union_matcher` call, i.e. into one `GlobsMatcherBuilder` per anchoring family
fn union_list(e: &FilesetExpression) -> &[FilesetExpression] {
    match e {
        FilesetExpression::None => &[],
        FilesetExpression::UnionAll(es) => es,
        _ => std::slice::from_ref(e),
    }
}

/// Looks for two globs of the same family in one union list with the same directory and the same
/// pattern *text* but different options (`Glob: PartialEq` compares text and options).  Returns the
/// strongest class seen: 3 = the earlier one accepts strictly less than the later one over the
/// universe, 2 = the tables differ otherwise, 1 = same tables, 0 = no such pair.
fn same_text_pairs(list: &[FilesetExpression], uni: &Uni) -> u8 {
    let mut best = 0u8;
    let globs: Vec<&FilePattern> = list.iter().filter_map(|e| match e {
        FilesetExpression::Pattern(p @ (FilePattern::FileGlob { .. } | FilePattern::PrefixGlob { .. })) => Some(p),
        _ => None,
    }).collect();
    for (i, a) in globs.iter().enumerate() {
        for b in &globs[i + 1..] {
            let same = match (a, b) {
                (FilePattern::FileGlob { dir: d1, pattern: p1 }, FilePattern::FileGlob { dir: d2, pattern: p2 })
                | (FilePattern::PrefixGlob { dir: d1, pattern: p1 }, FilePattern::PrefixGlob { dir: d2, pattern: p2 }) =>
                    d1 == d2 && p1.glob() == p2.glob() && **p1 != **p2,
                _ => false,
            };
            if !same { continue; }
            let (ta, tb) = (glob_table(a, uni), glob_table(b, uni));
            let narrower_first = ta != tb && ta.bytes().zip(tb.bytes()).all(|(x, y)| x <= y);
            best = best.max(if narrower_first { 3 } else if ta != tb { 2 } else { 1 });
        }
    }
    for e in list {
        let sub = match e {
            FilesetExpression::UnionAll(es) => same_text_pairs(es, uni),
            FilesetExpression::Intersection(a, b) | FilesetExpression::Difference(a, b) =>
                same_text_pairs(union_list(a), uni).max(same_text_pairs(union_list(b), uni)),
            _ => 0,
        };
        best = best.max(sub);
    }
    best
}

#[derive(Clone, PartialEq)]
enum V { All, Nothing, Spec(Option<Vec<String>>, Option<Vec<String>>) }
fn conv_visit(v: Visit) -> V {
    match v {
        Visit::AllRecursively => V::All,
        Visit::Nothing => V::Nothing,
        Visit::Specific { dirs, files } => V::Spec(
            match dirs { VisitDirs::All => None, VisitDirs::Set(s) => Some(s.iter().map(|c| c.as_internal_str().to_string()).collect()) },
            match files { VisitFiles::All => None, VisitFiles::Set(s) => Some(s.iter().map(|c| c.as_internal_str().to_string()).collect()) }),
    }
}
fn show_set(s: &Option<Vec<String>>, uni: &mut Uni) -> String {
    match s {
        None => "*".into(),
        Some(v) => { let mut ids: Vec<u64> = v.iter().map(|n| uni.id(n) as u64).collect(); ids.sort(); ids.dedup(); show_list(&ids) }
    }
}
fn show_visit(v: &V, uni: &mut Uni) -> String {
    match v { V::All => "A".into(), V::Nothing => "N".into(), V::Spec(d, f) => format!("S{}/{}", show_set(d, uni), show_set(f, uni)) }
}

fn soundness_violation(uni: &Uni, visits: &[V], matches: &[bool]) -> Option<(&'static str, String)> {
    for (di, dir) in uni.paths.iter().enumerate() {
        for (pi, p) in uni.paths.iter().enumerate() {
            if p.len() <= dir.len() || p[..dir.len()] != dir[..] { continue; }
            let child = uni.names[p[dir.len()]].clone();
            let leaf = p.len() == dir.len() + 1;
            match &visits[di] {
                V::Nothing => if matches[pi] { return Some(("visit:nothing-above-matching-path", format!("visit({dir:?}) = Nothing but {p:?} matches"))); },
                V::All => if !matches[pi] { return Some(("visit:all-recursively-above-non-matching-path", format!("visit({dir:?}) = AllRecursively but {p:?} does not match"))); },
                V::Spec(ds, fs) => if matches[pi] {
                    if let Some(s) = if leaf { fs } else { ds } { if !s.contains(&child) {
                        return Some(("visit:specific-omits-matching-child", format!("visit({dir:?}) lists {s:?} but {p:?} matches")));
                    } }
                },
            }
        }
    }
    None
}

// ---------------------------------------------------------------------------------------------
// generators
// ---------------------------------------------------------------------------------------------

const GLOB_COMPS: [&str; 15] = ["*", "?", "??", "**", "[ab]", "[!a]", "a*", "*b", "*1", "{a,b}", "{a,B/ab}", "A*", "?b", "[a-b]*", "{ab,1}"];

fn rand_lit_comps(r: &mut Rng, uni: &Uni, lo: usize, hi: usize) -> Vec<String> {
    (0..r.range(lo, hi)).map(|_| uni.names[r.below(uni.k)].clone()).collect()
}

/// a glob component: from the fixed pool, or derived from one of the case's names so that it has
/// a fair chance of matching (first letter + `*`, `*` + last letter, `?`s, class, alternation, other case)
fn rand_glob_comp(r: &mut Rng, uni: &Uni) -> String {
    if r.chance(2, 5) { return r.pick(&GLOB_COMPS).to_string(); }
    let n: Vec<char> = uni.names[r.below(uni.k)].chars().collect();
    let flip = |c: char| if c.is_ascii_lowercase() { c.to_ascii_uppercase() } else { c.to_ascii_lowercase() };
    match r.below(7) {
        0 => format!("{}*", n[0]),
        1 => format!("*{}", n[n.len() - 1]),
        2 => "?".repeat(n.len()),
        3 => format!("[{}z]{}", n[0], n[1..].iter().collect::<String>()),
        4 => format!("{{{},zz}}", n.iter().collect::<String>()),
        5 => format!("{}*", flip(n[0])),
        _ => format!("[!{}]*", flip(n[0])),
    }
}

fn rand_arg(r: &mut Rng, uni: &Uni, k: &Kind, cwd_len: usize) -> String {
    let mut comps: Vec<String> = vec![];
    // leading dots (cwd kinds only; sometimes escaping the workspace)
    if k.cwd && r.chance(1, 3) {
        for _ in 0..r.range(1, 2) { comps.push(if r.chance(1, 4) { ".".into() } else { "..".into() }); }
        if comps.iter().filter(|c| *c == "..").count() > cwd_len && r.chance(3, 4) { comps.retain(|c| c != ".."); }
    }
    match k.syntax {
        Syntax::Path => {
            let lo = if r.chance(1, 10) { 0 } else { 1 };
            comps.extend(rand_lit_comps(r, uni, lo, if k.cwd { (uni.d - cwd_len).max(1) } else { uni.d }));
            if r.chance(1, 12) && comps.len() >= 2 { let i = r.range(1, comps.len() - 1); comps.insert(i, if r.chance(1, 2) { "..".into() } else { ".".into() }); }
        }
        Syntax::Glob => {
            comps.extend(rand_lit_comps(r, uni, 0, 2));
            let n = if r.chance(1, 8) { 0 } else { r.range(1, 2) };
            let mut prev_star = false;
            for _ in 0..n {
                let mut g = rand_glob_comp(r, uni);
                if prev_star && g == "**" { g = "*".into(); }
                prev_star = g == "**";
                comps.push(g);
                if r.chance(1, 3) { comps.push(uni.names[r.below(uni.k)].clone()); prev_star = false; }
            }
        }
    }
    let mut s = comps.join(if r.chance(1, 15) { "//" } else { "/" });
    if r.chance(1, 12) && !s.is_empty() { s.push('/'); }
    if s.is_empty() && r.chance(1, 2) { s = ".".into(); }
    s
}

fn rand_leaf(r: &mut Rng, uni: &Uni, cwd_len: usize) -> T {
    match r.below(12) {
        0 => if r.chance(1, 2) { T::None } else { T::All },
        _ => {
            let k = if r.chance(1, 5) { KINDS[0] } else { *r.pick(&KINDS) };
            let arg = rand_arg(r, uni, &k, cwd_len);
            let q = if arg.contains('\'') { 1 } else { r.below(3) as u8 };
            T::Pat(k, arg, q)
        }
    }
}

fn rand_tree(r: &mut Rng, uni: &Uni, cwd_len: usize, depth: usize) -> T {
    if depth == 0 || r.chance(1, 4) { return rand_leaf(r, uni, cwd_len); }
    match r.below(7) {
        0 => T::Neg(Box::new(rand_tree(r, uni, cwd_len, depth - 1))),
        1 | 2 => T::In(Box::new(rand_tree(r, uni, cwd_len, depth - 1)), Box::new(rand_tree(r, uni, cwd_len, depth - 1))),
        3 | 4 => T::Di(Box::new(rand_tree(r, uni, cwd_len, depth - 1)), Box::new(rand_tree(r, uni, cwd_len, depth - 1))),
        _ => T::Un((0..r.range(2, 5)).map(|_| rand_tree(r, uni, cwd_len, depth - 1)).collect()),
    }
}

// ---------------------------------------------------------------------------------------------
// part 3: unions that repeat the SAME glob text under different kinds / options
// ---------------------------------------------------------------------------------------------

/// name families closed under case variation; `1` is letter-free, so the case-insensitive kinds keep
/// it in the literal directory part (the only way for them to be anchored below the cwd / root)
const CASE_FAMILIES: [&[&str]; 7] = [&["a", "A"], &["b", "B"], &["ab", "AB"], &["ab", "Ab", "aB"], &["a1", "A1"], &["ab", "Ab", "AB"], &["rs", "RS", "Rs"]];

fn case_universe(r: &mut Rng, round: u64) -> Uni {
    let mut names: Vec<String> = r.pick(&CASE_FAMILIES).iter().map(|s| s.to_string()).collect();
    match r.below(4) {
        0 => {}
        1 | 2 => names.push("1".into()),
        _ => if names.len() == 2 { for n in *r.pick(&CASE_FAMILIES[..2]) { if !names.contains(&n.to_string()) { names.push(n.to_string()); } } },
    }
    if names.len() < 4 && !names.iter().any(|n| n == "1") && r.chance(1, 6) { names.push("1".into()); }
    // shuffle so that ids (and the order of the universe) do not follow the case pattern
    for i in (1..names.len()).rev() { let j = r.below(i + 1); names.swap(i, j); }
    let d = match names.len() { 2 => 2 + (round % 3) as usize, 3 => 2 + (round % 2) as usize, _ => if round % 4 == 0 { 3 } else { 2 } };
    Uni::new(names, d)
}

fn flip_case(s: &str) -> String {
    s.chars().map(|c| if c.is_ascii_lowercase() { c.to_ascii_uppercase() } else { c.to_ascii_lowercase() }).collect()
}

/// one glob component that contains a glob meta character (so that no kind moves it to the literal
/// directory part) and, mostly, letters of one of the names (so that case matters)
fn case_glob_comp(r: &mut Rng, uni: &Uni) -> String {
    let name = uni.names[r.below(uni.k)].clone();
    let n: Vec<char> = name.chars().collect();
    let rest: String = n[1..].iter().collect();
    match r.below(10) {
        0 | 1 => format!("{}*", n[0]),
        2 => format!("*{}", n[n.len() - 1]),
        3 => if n.len() >= 2 { let i = r.below(n.len()); n.iter().enumerate().map(|(j, c)| if i == j { '?' } else { *c }).collect() } else { format!("{name}*") },
        4 => format!("[{}z]{rest}", n[0]),
        5 => format!("{{{name},zz}}"),
        6 => format!("*{name}"),
        7 => format!("{name}*"),
        8 => format!("[!z]{rest}"),
        _ => r.pick(&["*", "?", "??", "[a-b]*", "*1"]).to_string(),
    }
}

fn case_glob(r: &mut Rng, uni: &Uni) -> String {
    let mut comps = vec![];
    if r.chance(1, 10) { comps.push("**".to_string()); comps.push(uni.names[r.below(uni.k)].clone()); }
    else {
        comps.push(case_glob_comp(r, uni));
        if r.chance(1, 3) { comps.push(match r.below(4) { 0 | 1 => uni.names[r.below(uni.k)].clone(), 2 => case_glob_comp(r, uni), _ => "**".into() }); }
    }
    comps.join("/")
}

fn glob_kind(r: &mut Rng, anchor: Anchor, icase: bool) -> Kind {
    let ks: Vec<Kind> = KINDS.iter().copied().filter(|k| k.syntax == Syntax::Glob && k.anchor == anchor && k.icase == icase).collect();
    *r.pick(&ks)
}

/// spelling of "glob `glob` anchored at directory `dir`" as argument of kind `k` used from `cwd`
fn spell(r: &mut Rng, k: &Kind, dir: &[String], cwd: &[String], glob: &str) -> String {
    let mut comps: Vec<String> = vec![];
    if !k.cwd { comps.extend(dir.iter().cloned()); }
    else if !k.icase && r.chance(1, 12) { return format!("{BASE}/{}", dir.iter().map(|s| s.as_str()).chain([glob]).collect::<Vec<_>>().join("/")); }
    else {
        let mut common = cwd.iter().zip(dir).take_while(|(a, b)| a == b).count();
        // sometimes climb higher than necessary and come back down
        if common > 0 && r.chance(1, 10) { common -= 1; }
        if r.chance(1, 8) { comps.push(".".into()); }
        for _ in common..cwd.len() { comps.push("..".into()); }
        comps.extend(dir[common..].iter().cloned());
    }
    comps.push(glob.to_string());
    let mut s = comps.join("/");
    if r.chance(1, 20) { s = s.replacen('/', "//", 1); }
    s
}

/// operands of a union: 2-3 globs with the same text anchored at the same directory, differing in
/// kind / case sensitivity (mostly of the same anchoring family), plus a few unrelated operands
fn same_text_operands(r: &mut Rng, uni: &Uni, cwd: &[String]) -> Vec<T> {
    let glob = case_glob(r, uni);
    let digit = uni.names.iter().find(|n| !n.chars().any(|c| c.is_ascii_alphabetic())).cloned();
    let mut dir: Vec<String> = match r.below(8) {
        0..=3 => cwd.to_vec(),
        4 | 5 => cwd[..r.below(cwd.len() + 1)].to_vec(),
        6 => vec![],
        _ => rand_lit_comps(r, uni, 0, uni.d - 1),
    };
    if let Some(dg) = digit { if dir.len() + 1 < uni.d && r.chance(1, 4) { dir.push(dg); } }
    let anchor = if r.chance(1, 2) { Anchor::File } else { Anchor::Prefix };
    let other = |a: Anchor| if a == Anchor::File { Anchor::Prefix } else { Anchor::File };
    let first_icase = r.chance(1, 3);
    let mut ops: Vec<T> = vec![];
    for j in 0..if r.chance(1, 4) { 3 } else { 2 } {
        let icase = if j == 0 { first_icase } else if r.chance(3, 4) { !first_icase } else { r.chance(1, 2) };
        let a = if j > 0 && r.chance(1, 8) { other(anchor) } else { anchor };
        let k = glob_kind(r, a, icase);
        let arg = spell(r, &k, &dir, cwd, &glob);
        let q = r.below(3) as u8;
        ops.push(T::Pat(k, arg, q));
    }
    // controls: the same text in the other case / at another directory; unrelated leaves
    if r.chance(1, 5) { let ic = r.chance(1, 2); let k = glob_kind(r, anchor, ic); let arg = spell(r, &k, &dir, cwd, &flip_case(&glob)); let i = r.below(ops.len() + 1); ops.insert(i, T::Pat(k, arg, 1)); }
    if r.chance(1, 6) { let ic = r.chance(1, 2); let k = glob_kind(r, anchor, ic); let d2 = rand_lit_comps(r, uni, 0, uni.d - 1); let arg = spell(r, &k, &d2, cwd, &glob); let i = r.below(ops.len() + 1); ops.insert(i, T::Pat(k, arg, 1)); }
    for _ in 0..r.below(3) { let x = rand_leaf(r, uni, cwd.len()); let i = r.below(ops.len() + 1); ops.insert(i, x); }
    ops
}

/// puts `u` under `depth` further operators
fn wrap(r: &mut Rng, uni: &Uni, cwd_len: usize, mut u: T, depth: usize) -> T {
    for _ in 0..depth {
        let dx = r.below(2); let x = rand_tree(r, uni, cwd_len, dx);
        u = match r.below(8) {
            0 | 1 => T::Di(Box::new(u), Box::new(x)),
            2 => T::In(Box::new(u), Box::new(x)),
            3 => T::In(Box::new(x), Box::new(u)),
            4 => T::Di(Box::new(x), Box::new(u)),
            5 => T::Neg(Box::new(u)),
            6 => T::Un(vec![x, u]),
            _ => T::Un(vec![u, x, T::None]),
        };
    }
    u
}

fn describe(t: &T) -> String {
    match t {
        T::None => "none()".into(), T::All => "all()".into(),
        T::Pat(k, a, _) => format!("{}:{a:?}", k.name),
        T::Neg(x) => format!("~({})", describe(x)),
        T::Un(xs) => format!("({})", xs.iter().map(describe).collect::<Vec<_>>().join(" | ")),
        T::In(a, b) => format!("({} & {})", describe(a), describe(b)),
        T::Di(a, b) => format!("({} ~ {})", describe(a), describe(b)),
    }
}

const BASE: &str = "/ws";

fn one(out: &mut Out, uni: &mut Uni, cwd: &[String], src: &str, reference: Result<&R, bool>, what: &str) {
    let cwd_path: PathBuf = cwd.iter().fold(PathBuf::from(BASE), |p, c| p.join(c));
    let conv = RepoPathUiConverter::Fs { cwd: cwd_path, base: PathBuf::from(BASE) };
    let aliases = FilesetAliasesMap::new();
    let parsed = guard(|| {
        let mut diag = FilesetDiagnostics::new();
        fileset::parse(&mut diag, src, &FilesetParseContext { aliases_map: &aliases, path_converter: &conv }).map_err(|e| e.to_string())
    });
    let ctx = format!("`{src}` (generated from {what}) cwd={}", cwd.join("/"));
    match parsed {
        Err(msg) => { out.impl_only(); out.oracle_fail("fileset:panic", format!("{ctx}: {msg}")); }
        Ok(Err(e)) => {
            out.impl_only();
            out.tally("parse", "error");
            match reference {
                Err(false) => out.oracle_ok(),
                Err(true) => out.tally("reference", "unspecified"),
                Ok(_) => out.oracle_fail("fileset:valid-expression-rejected", format!("{ctx}: {}", e.replace('\n', " "))),
            }
        }
        Ok(Ok(expr)) => {
            out.tally("parse", "ok");
            let mut toks = vec![];
            let mut stats = (0, 0);
            show_ast(&expr, uni, &mut toks, &mut stats);
            let req = format!("eval {} {} {}", uni.k, uni.d, toks.join(" "));
            let res = guard(|| {
                let m = expr.to_matcher();
                let visits: Vec<V> = uni.paths.iter().map(|p| conv_visit(m.visit(&uni.repo_path(p)))).collect();
                let matches: Vec<bool> = uni.paths.iter().map(|p| m.matches(&uni.repo_path(p))).collect();
                (visits, matches)
            });
            let (visits, matches) = match res {
                Err(msg) => { out.case(&req, "panic"); out.oracle_fail("fileset:panic", format!("{ctx}: {msg}")); return; }
                Ok(x) => x,
            };
            let vs: Vec<String> = visits.iter().map(|v| show_visit(v, uni)).collect();
            out.case(&req, &format!("{} {}", vs.join("|"), matches.iter().map(|b| if *b { '1' } else { '0' }).collect::<String>()));
            let n_match = matches.iter().filter(|b| **b).count();
            out.tally("patterns", &stats.0.min(6).to_string());
            out.tally("globs", &stats.1.min(4).to_string());
            let pairs = if stats.1 >= 2 { same_text_pairs(union_list(&expr), uni) } else { 0 };
            out.tally("same-text-globs-in-one-union", ["none", "different-options,same-table", "different-options,different-table", "different-options,narrower-first"][pairs as usize]);
            if n_match > 0 && n_match < uni.paths.len() { out.nontrivial((&req, src)); }
            if pairs >= 2 && n_match > 0 && n_match < uni.paths.len() { out.tally("same-text-globs-in-one-union", "different-options,different-table,some-but-not-all-paths-match"); }
            out.tally("matching-paths", if n_match == 0 { "none" } else if n_match == uni.paths.len() { "all" } else { "some" });
            match reference {
                Err(false) => out.oracle_fail("fileset:invalid-expression-accepted", format!("{ctx}: parsed to {expr:?}")),
                Err(true) => out.tally("reference", "unspecified"),
                Ok(rf) => {
                    let bad = uni.paths.iter().enumerate().find(|(i, p)| ref_eval(rf, &uni.strs(p)) != matches[*i]);
                    match bad {
                        Some((i, p)) => out.oracle_fail(
                            if matches[i] { "fileset:matches-path-outside-denotation" } else { "fileset:misses-path-in-denotation" },
                            format!("{ctx}: path {:?} matches={} but the expression denotes {}", uni.strs(p).join("/"), matches[i], !matches[i])),
                        None => match soundness_violation(uni, &visits, &matches) {
                            None => out.oracle_ok(),
                            Some((sig, d)) => out.oracle_fail(sig, format!("{ctx}: {d}")),
                        },
                    }
                }
            }
        }
    }
}

pub fn run(cfg: &Cfg, out: &mut Out) {
    let mut r = cfg.rng(31);
    // part 1: every pattern kind on a fixed set of arguments from two cwds (k = 3, D = 3)
    {
        let mut uni = Uni::new(vec!["a".into(), "B".into(), "ab".into()], 3);
        let args = ["a", "B", "b", "a/B", "a/ab/B", "*", "a/*", "*/B", "**", "**/a", "a/**", "[aB]", "{a,ab}/B", "?", "A*", "../a", "./a", "../*", "", ".", "a/", "a//B", "..", "../../a", "/ws/a", "/ws", "/other/a", "/ws/*"];
        for cwd in [vec![], vec!["a".to_string()], vec!["a".to_string(), "B".to_string()]] {
            for k in &KINDS { for a in &args { for q in [0u8, 2] {
                let t = T::Pat(*k, a.to_string(), q);
                let rf = ref_build(&t, &cwd, BASE);
                let src = text(&t, &mut r);
                one(out, &mut uni, &cwd, &src, rf.as_ref().map_err(|e| *e), &describe(&t));
            } } }
        }
        // malformed stream: unknown kind, syntax errors, bad globs
        for src in ["nosuch:a", "a &", "| a", "glob:\"[a\"", "root:\"/a\"", "a b", "glob:", "all(a)", "none(", "root-glob:\"a/../*\"", "foo()"] {
            one(out, &mut uni, &[], src, Err(false), "malformed stream");
        }
        out.note("systematic: 18 kinds x 28 arguments x 2 quotings x 3 cwds over names a,B,ab depth 3; 11 malformed texts; then random expressions of depth <= 4".to_string());
    }
    // part 2: random expressions
    let rounds = cfg.n(1200, 20000);
    for round in 0..rounds {
        let k = if round % 3 == 0 { 2 } else { 3 };
        let d = match round % 5 { 0 => 2, 4 if k == 2 => 4, _ => 3 };
        let mut names: Vec<String> = vec![];
        while names.len() < k { let n = r.pick(&NAME_POOL).to_string(); if !names.contains(&n) { names.push(n); } }
        let mut uni = Uni::new(names, d);
        let cwd_len = match r.below(5) { 0 | 1 => 0, 2 | 3 => 1, _ => 2 };
        let cwd: Vec<String> = rand_lit_comps(&mut r, &uni, cwd_len, cwd_len);
        for i in 0..40 {
            let depth = (i * 5) / 40;
            let t = rand_tree(&mut r, &uni, cwd.len(), depth);
            let rf = ref_build(&t, &cwd, BASE);
            let src = text(&t, &mut r);
            uni.names.truncate(k);
            one(out, &mut uni, &cwd, &src, rf.as_ref().map_err(|e| *e), &describe(&t));
        }
    }

    // part 3: the same glob text several times in one union, under different kinds and options,
    // both operand orders, nested under further operators, over case-variant universes
    out.note("same-text stream: unions holding 2-3 globs with identical text anchored at one directory under different kinds (cwd-/root-relative, aliases, bare) and case options, both operand orders, wrapped in 0-3 further operators, names = case variants (+ the letter-free `1`)".to_string());
    let mut r = cfg.rng(3103);
    let rounds = cfg.n(300, 5000);
    for round in 0..rounds {
        let mut uni = case_universe(&mut r, round);
        let k = uni.k;
        let cwd_len = match r.below(5) { 0 | 1 => 0, 2 | 3 => 1, _ => 2 }.min(uni.d - 1);
        let cwd: Vec<String> = rand_lit_comps(&mut r, &uni, cwd_len, cwd_len);
        for i in 0..8 {
            let ops = same_text_operands(&mut r, &uni, &cwd);
            let rev: Vec<T> = ops.iter().rev().cloned().collect();
            let mut trees = vec![T::Un(ops.clone()), T::Un(rev.clone())];
            let depth = 1 + i % 3;
            trees.push(wrap(&mut r, &uni, cwd.len(), T::Un(ops.clone()), depth));
            trees.push(wrap(&mut r, &uni, cwd.len(), T::Un(rev), depth));
            if ops.len() >= 3 {
                // the repeated text on both sides of a parenthesised (not flattened) union
                let (head, tail) = ops.split_at(1 + r.below(ops.len() - 2));
                trees.push(T::Un(vec![T::Un(head.to_vec()), T::Un(tail.to_vec())]));
            }
            for t in &trees {
                let rf = ref_build(t, &cwd, BASE);
                let src = text(t, &mut r);
                uni.names.truncate(k);
                one(out, &mut uni, &cwd, &src, rf.as_ref().map_err(|e| *e), &describe(t));
            }
        }
    }
}
