//! C12 — bookmark target merges resolve only when safe (`jj_lib::refs::merge_ref_targets`).
//!
//! Cases: random DAGs (root + 3..=9 commits, merges included) built in a real `TestRepo`, so the
//! real index answers `is_ancestor`; random left/base/right targets — absent, normal, conflicted
//! (arity 3/5, absent terms allowed), with a bias towards related targets (shared terms).
//! Request: `merge <parents table> <left> <base> <right>`; commit ids are creation-order integers
//! (0 = root), targets are comma lists of ids with `n` for an absent term.
//!
//! Oracle (from the property text, independent of the model):
//!   * left = base ⇒ right; right = base ⇒ left; left = right ⇒ left;
//!   * normal left/right, base absent or an ancestor of the nearer side, one side an ancestor of
//!     the other ⇒ the descendant;
//!   * every term of the result occurs in an input;
//!   * "otherwise a conflict rather than picking a side": after cancelling equal add/remove terms
//!     of the combined inputs, a term may be missing from the result only if it is cancelled
//!     against an opposite term by the counting rule, or it is (absent remove or) an ancestor-or-
//!     equal of an add that survives in the result.  A resolved result is thus either the
//!     counting-rule value or a descendant of everything it replaced.
use crate::rt::*;
use jj_lib::backend::CommitId;
use jj_lib::commit::Commit;
use jj_lib::merge::Merge;
use jj_lib::op_store::RefTarget;
use jj_lib::refs::merge_ref_targets;
use jj_lib::repo::Repo as _;
use pollster::FutureExt as _;
use std::collections::{BTreeMap, HashMap};
use testutils::{TestRepo, write_random_commit_with_parents};

type T = Vec<Option<usize>>;

fn show_t(t: &T) -> String {
    t.iter().map(|x| match x { None => "n".to_string(), Some(i) => i.to_string() }).collect::<Vec<_>>().join(",")
}

/// signed multiset of the combined inputs: +left, -base, +right (term-wise, a remove of base is an add)
fn signed(l: &T, b: &T, r: &T) -> BTreeMap<Option<usize>, i64> {
    let mut c: BTreeMap<Option<usize>, i64> = BTreeMap::new();
    for (t, sign) in [(l, 1i64), (b, -1), (r, 1)] {
        for (i, x) in t.iter().enumerate() { *c.entry(*x).or_default() += if i % 2 == 0 { sign } else { -sign }; }
    }
    c
}
fn signed1(t: &T) -> BTreeMap<Option<usize>, i64> {
    let mut c: BTreeMap<Option<usize>, i64> = BTreeMap::new();
    for (i, x) in t.iter().enumerate() { *c.entry(*x).or_default() += if i % 2 == 0 { 1 } else { -1 }; }
    c
}

fn gen_target(r: &mut Rng, n: usize, pool: &[Option<usize>]) -> T {
    let term = |r: &mut Rng| -> Option<usize> {
        if !pool.is_empty() && r.chance(1, 2) { *r.pick(pool) } else if r.chance(1, 8) { None } else { Some(r.below(n)) }
    };
    match r.below(10) {
        0 => vec![None],
        1..=5 => vec![Some(match term(r) { Some(x) => x, None => r.below(n) })],
        6..=8 => (0..3).map(|_| term(r)).collect(),
        _ => (0..5).map(|_| term(r)).collect(),
    }
}

pub fn run(cfg: &Cfg, out: &mut Out) {
    // the op store / index fsync on every commit: keep the scratch repos on tmpfs when available
    if std::env::var_os("TMPDIR").is_none() && std::path::Path::new("/dev/shm").is_dir() {
        unsafe { std::env::set_var("TMPDIR", "/dev/shm") };
    }
    let mut r = cfg.rng(12);
    let dags = cfg.n(500, 8000);
    // all DAGs of a block live in one repo, each in its own transaction on the initial operation
    let mut test_repo = TestRepo::init();
    let per_dag = 60;
    for d in 0..dags {
        // ---- build a DAG in a real repo: commit 0 = root, then 3..=9 more
        let n_new = if d < 10 { 3 } else { r.range(3, 9) };
        if d % 100 == 99 { test_repo = TestRepo::init(); }
        let mut tx = test_repo.repo.start_transaction();
        let root = test_repo.repo.store().root_commit();
        let mut commits: Vec<Commit> = vec![root];
        let mut parents: Vec<Vec<usize>> = vec![vec![]];
        for _ in 0..n_new {
            let k = commits.len();
            let mut ps: Vec<usize> = vec![];
            let shape = r.below(10);
            if k == 1 || shape < 2 { ps.push(0) }                      // new root child
            else if shape < 7 { ps.push(r.range(1, k - 1)) }             // linear-ish
            else {                                                       // merge of 2–3 non-root commits
                for _ in 0..r.range(2, 3) { let p = r.range(1, k - 1); if !ps.contains(&p) { ps.push(p); } }
            }
            let pcs: Vec<&Commit> = ps.iter().map(|&p| &commits[p]).collect();
            let c = write_random_commit_with_parents(tx.repo_mut(), &pcs);
            commits.push(c);
            parents.push(ps);
        }
        let repo = tx.commit("c12 dag").block_on().unwrap();
        let index = repo.index();
        let n = commits.len();
        let num: HashMap<CommitId, usize> = commits.iter().enumerate().map(|(i, c)| (c.id().clone(), i)).collect();
        // ancestry matrix from the real index (used by the oracle only)
        let mut anc = vec![vec![false; n]; n];
        for a in 0..n { for b in 0..n { anc[a][b] = index.is_ancestor(commits[a].id(), commits[b].id()).block_on().unwrap(); } }
        let dag_s = parents.iter().map(|p| show_list(&p.iter().map(|&x| x as u64).collect::<Vec<_>>())).collect::<Vec<_>>().join(";");
        let to_target = |t: &T| RefTarget::from_merge(Merge::from_vec(t.iter().map(|x| x.map(|i| commits[i].id().clone())).collect::<Vec<_>>()));

        for _ in 0..per_dag {
            let base = gen_target(&mut r, n, &[]);
            let related = r.chance(3, 4);
            let pool: Vec<Option<usize>> = if related { base.clone() } else { vec![] };
            let mut left = gen_target(&mut r, n, &pool);
            let pool2: Vec<Option<usize>> = if related { base.iter().chain(left.iter()).cloned().collect() } else { vec![] };
            let mut right = gen_target(&mut r, n, &pool2);
            match r.below(24) { 0 => left = base.clone(), 1 => right = base.clone(), 2 => right = left.clone(), _ => {} }
            let (lt, bt, rt) = (to_target(&left), to_target(&base), to_target(&right));
            let got = guard(|| merge_ref_targets(index, &lt, &bt, &rt).block_on());
            let res: Option<T> = match &got {
                Ok(Ok(t)) => Some(t.as_merge().iter().map(|x| x.as_ref().map(|id| *num.get(id).unwrap_or(&usize::MAX))).collect()),
                _ => None,
            };
            let resp = match (&got, &res) { (Ok(Ok(_)), Some(t)) => show_t(t), (Ok(Err(_)), _) => "err:index".to_string(), _ => "panic".to_string() };
            out.case(&format!("merge {dag_s} {} {} {}", show_t(&left), show_t(&base), show_t(&right)), &resp);
            out.tally("arity_in", &format!("{}/{}/{}", left.len(), base.len(), right.len()));
            let Some(res) = res else {
                out.oracle_fail("merge-ref-targets:panic-or-error", format!("l={left:?} b={base:?} r={right:?}: {resp}"));
                continue;
            };
            out.tally("arity_out", &res.len().to_string());

            // ---------------- oracle
            let mut fail: Option<(&str, String)> = None;
            let ctx = || format!("dag={dag_s} l={} b={} r={} -> {}", show_t(&left), show_t(&base), show_t(&right), show_t(&res));
            let mut trivial = false;
            if left == base { trivial = true; if res != right { fail = Some(("merge-ref-targets:left-unchanged-not-right", ctx())); } }
            if right == base { trivial = true; if res != left { fail = Some(("merge-ref-targets:right-unchanged-not-left", ctx())); } }
            if left == right { trivial = true; if res != left { fail = Some(("merge-ref-targets:both-agree-not-kept", ctx())); } }
            if let ([Some(l)], [Some(rr)], [b]) = (&left[..], &right[..], &base[..]) {
                let base_ok = |side: usize| match b { None => true, Some(bi) => anc[*bi][side] };
                if anc[*l][*rr] && base_ok(*l) {
                    out.tally("rule", "fast-forward");
                    if res != right { fail = Some(("merge-ref-targets:fast-forward-not-descendant", ctx())); }
                } else if anc[*rr][*l] && base_ok(*rr) {
                    out.tally("rule", "fast-forward");
                    if res != left { fail = Some(("merge-ref-targets:fast-forward-not-descendant", ctx())); }
                }
            }
            if res.len() % 2 == 0 { fail = Some(("merge-ref-targets:even-arity", ctx())); }
            for t in &res {
                if !(left.contains(t) || base.contains(t) || right.contains(t)) {
                    fail = Some(("merge-ref-targets:invented-term", ctx()));
                }
            }
            // dropped terms: input signed multiset minus result signed multiset
            if !trivial && res.len() % 2 == 1 {
                let inp = signed(&left, &base, &right);
                let outc = signed1(&res);
                let surviving: Vec<usize> = res.iter().step_by(2).flatten().cloned().collect();
                let below_survivor = |x: usize| surviving.iter().any(|&s| anc[x][s]);
                // same-change rule of the counting path: all remaining adds equal, all remaining removes equal
                let nz: Vec<(&Option<usize>, &i64)> = inp.iter().filter(|(_, c)| **c != 0).collect();
                let counting_value: Option<Option<usize>> = match nz.as_slice() {
                    [(v, 1)] => Some(**v),
                    [(a, x), (b, y)] => if **x > 0 && **y < 0 { Some(**a) } else if **y > 0 && **x < 0 { Some(**b) } else { None },
                    _ => None,
                };
                if counting_value.is_some() && res.len() == 1 && Some(res[0]) == counting_value {
                    out.tally("rule", "counting");
                } else {
                    let mut dropped_any = false;
                    let keys: Vec<Option<usize>> = inp.keys().chain(outc.keys()).cloned().collect();
                    for k in keys {
                        let ci = *inp.get(&k).unwrap_or(&0);
                        let co = *outc.get(&k).unwrap_or(&0);
                        // the result keeps uncancelled duplicates (e.g. [A,B,A]); compare net counts only
                        if ci == co { continue; }
                        dropped_any = true;
                        // net change of term k must be explained by dropped (ancestor) terms:
                        // fewer adds of k (ci > co) or fewer removes of k (ci < co)
                        let ok = match k {
                            None => ci < co,                       // absent removes may be dropped, absent adds never
                            Some(x) => below_survivor(x),
                        };
                        if !ok { fail = Some(("merge-ref-targets:dropped-term-not-ancestor-of-survivor", format!("{} term={k:?} in={ci} out={co}", ctx()))); }
                    }
                    // sum of signed counts must stay 1 (pairs only)
                    if outc.values().sum::<i64>() != 1 { fail = Some(("merge-ref-targets:unbalanced-result", ctx())); }
                    out.tally("rule", if res.len() == 1 { "resolved-by-ancestry" } else if dropped_any { "conflict-reduced" } else { "conflict-kept" });
                }
            } else if trivial { out.tally("rule", "trivial"); }
            if !trivial && (left.len() > 1 || base.len() > 1 || right.len() > 1 || res.len() > 1 || left != right) {
                out.nontrivial((parents.clone(), left.clone(), base.clone(), right.clone()));
            }
            match fail { None => out.oracle_ok(), Some((sig, detail)) => out.oracle_fail(sig, detail) }
        }
    }
    out.note(format!("{dags} random DAGs (root + 3..=9 commits) × {per_dag} target triples; ancestry answered by the real index"));
}
