//! C30 — matcher directory pruning (`Matcher::visit`) is sound w.r.t. `Matcher::matches`.
//!
//! Cases: matcher expression trees (Nothing / Everything / Files / Prefix / Globs in file and
//! prefix mode, under Union / Intersection / Difference, nesting depth ≤ 4) over the path universe
//! "every path of length ≤ D over k names" (k ≤ 3, D ≤ 4).  The real matchers are built with the
//! public constructors; `visit(dir)` is taken at every universe path and `matches(p)` at every
//! universe path, and compared with the Lean model (`Model/Matchers.lean`).
//! Part 3 uses names that are case variants of each other and matchers holding the same glob text
//! with different options at one directory.
//! The model gets each glob as the truth table of its anchored regex over the universe's tails,
//! computed with the real single-pattern file-mode `GlobsMatcher` (assumption A5: regex/globset
//! semantics are not modelled); the prefix-mode transformation `glob_to_prefix_regex` *is* modelled.
//! Oracle (from the property text, independent of the model): the three clauses of soundness
//! evaluated directly on the Rust results.
use crate::rt::*;
use jj_lib::fileset::FilePattern;
use jj_lib::matchers::*;
use jj_lib::repo_path::{RepoPath, RepoPathBuf};
use std::collections::HashMap;

/// component names of the universe; set 0 is used by parts 1-2, the other sets (case variants of
/// one name) by part 3.  The model only sees component ids, so the choice is invisible to it.
pub const NAME_SETS: [[&str; 3]; 4] = [["a", "b", "ab"], ["a", "A", "Ab"], ["ab", "AB", "Ab"], ["b", "B", "a"]];
static NAME_SET: std::sync::atomic::AtomicUsize = std::sync::atomic::AtomicUsize::new(0);
pub fn names() -> &'static [&'static str; 3] { &NAME_SETS[NAME_SET.load(std::sync::atomic::Ordering::Relaxed)] }
fn use_names(i: usize) { NAME_SET.store(i, std::sync::atomic::Ordering::Relaxed); }

pub type P = Vec<usize>;

/// every path of length 0..=d over ids 0..k, by length then lexicographically
pub fn universe(k: usize, d: usize) -> Vec<P> {
    let mut out: Vec<P> = vec![vec![]];
    let mut layer: Vec<P> = vec![vec![]];
    for _ in 0..d {
        let mut next = Vec::new();
        for c in 0..k {
            for p in &layer { let mut q = vec![c]; q.extend(p); next.push(q); }
        }
        next.sort();
        out.extend(next.iter().cloned());
        layer = next;
    }
    out
}

pub fn repo_path(p: &[usize]) -> RepoPathBuf {
    RepoPathBuf::from_internal_string(p.iter().map(|c| names()[*c]).collect::<Vec<_>>().join("/")).unwrap()
}
pub fn show_path(p: &[usize]) -> String {
    if p.is_empty() { "r".into() } else { p.iter().map(|c| c.to_string()).collect::<Vec<_>>().join(".") }
}
fn show_paths(ps: &[P]) -> String {
    if ps.is_empty() { "-".into() } else { ps.iter().map(|p| show_path(p)).collect::<Vec<_>>().join(",") }
}
fn name_id(s: &str) -> usize { names().iter().position(|n| *n == s).unwrap_or(99) }

/// a parsed glob (the `Box<Glob>` of a `FilePattern`), without naming the globset crate
pub struct GlobPat { pub text: String, pub pat: FilePattern }
impl GlobPat {
    /// `None` if the glob does not parse or degenerates to a literal path
    pub fn new(text: &str, icase: bool) -> Option<GlobPat> {
        let r = if icase { FilePattern::root_file_glob_i(text) } else { FilePattern::root_file_glob(text) };
        match r {
            Ok(pat @ FilePattern::FileGlob { .. }) => Some(GlobPat { text: format!("{}{}", text, if icase { "(i)" } else { "" }), pat }),
            _ => None,
        }
    }
    fn add_to<'a>(&'a self, b: &mut GlobsMatcherBuilder<'a>, dir: &'a RepoPath) {
        if let FilePattern::FileGlob { pattern, .. } = &self.pat { b.add(dir, pattern); }
    }
    /// truth table of the glob (the anchored regex `^P$`) over the universe's tails, computed with
    /// the real single-pattern file-mode `GlobsMatcher`; index 0 = the empty tail, which is only
    /// observable through the prefix-mode matcher (`^P(?:/|$)` accepts "" iff `^P$` does).
    pub fn table(&self, uni: &[P]) -> String {
        let mut b = GlobsMatcher::builder().prefix_paths(false);
        self.add_to(&mut b, RepoPath::root());
        let m = b.build();
        let mut bp = GlobsMatcher::builder().prefix_paths(true);
        self.add_to(&mut bp, RepoPath::root());
        let mp = bp.build();
        uni.iter().map(|t| {
            let v = if t.is_empty() { mp.visit(RepoPath::root()) == Visit::AllRecursively } else { m.matches(&repo_path(t)) };
            if v { '1' } else { '0' }
        }).collect()
    }
}

pub enum E {
    N, Ev, F(Vec<P>), Pf(Vec<P>),
    G { pfx: bool, pats: Vec<(P, usize)> },
    U(Box<E>, Box<E>), I(Box<E>, Box<E>), D(Box<E>, Box<E>),
}

fn build(e: &E, globs: &[GlobPat]) -> Box<dyn Matcher> {
    match e {
        E::N => Box::new(NothingMatcher),
        E::Ev => Box::new(EverythingMatcher),
        E::F(ps) => Box::new(FilesMatcher::new(ps.iter().map(|p| repo_path(p)))),
        E::Pf(ps) => Box::new(PrefixMatcher::new(ps.iter().map(|p| repo_path(p)))),
        E::G { pfx, pats } => {
            let dirs: Vec<RepoPathBuf> = pats.iter().map(|(d, _)| repo_path(d)).collect();
            let mut b = GlobsMatcher::builder().prefix_paths(*pfx);
            for (i, (_, g)) in pats.iter().enumerate() { globs[*g].add_to(&mut b, &dirs[i]); }
            Box::new(b.build())
        }
        E::U(a, b) => Box::new(UnionMatcher::new(build(a, globs), build(b, globs))),
        E::I(a, b) => Box::new(IntersectionMatcher::new(build(a, globs), build(b, globs))),
        E::D(a, b) => Box::new(DifferenceMatcher::new(build(a, globs), build(b, globs))),
    }
}

struct Tables<'a> { globs: &'a [GlobPat], uni: &'a [P], cache: HashMap<usize, String> }
impl Tables<'_> {
    fn get(&mut self, g: usize) -> &str {
        let (globs, uni) = (self.globs, self.uni);
        self.cache.entry(g).or_insert_with(|| globs[g].table(uni))
    }
}

fn show_expr(e: &E, t: &mut Tables, out: &mut Vec<String>) {
    match e {
        E::N => out.push("N".into()),
        E::Ev => out.push("E".into()),
        E::F(ps) => out.push(format!("F:{}", show_paths(ps))),
        E::Pf(ps) => out.push(format!("P:{}", show_paths(ps))),
        E::G { pfx, pats } => {
            let body = if pats.is_empty() { "-".to_string() } else {
                pats.iter().map(|(d, g)| format!("{}={}", show_path(d), t.get(*g))).collect::<Vec<_>>().join(";")
            };
            out.push(format!("G:{}:{}", if *pfx { "p" } else { "f" }, body));
        }
        E::U(a, b) | E::I(a, b) | E::D(a, b) => {
            out.push(match e { E::U(..) => "U", E::I(..) => "I", _ => "D" }.into());
            show_expr(a, t, out);
            show_expr(b, t, out);
        }
    }
}

fn describe(e: &E, globs: &[GlobPat]) -> String {
    match e {
        E::N => "nothing".into(),
        E::Ev => "everything".into(),
        E::F(ps) => format!("files[{}]", ps.iter().map(|p| repo_path(p).as_internal_file_string().to_string()).collect::<Vec<_>>().join(",")),
        E::Pf(ps) => format!("prefix[{}]", ps.iter().map(|p| repo_path(p).as_internal_file_string().to_string()).collect::<Vec<_>>().join(",")),
        E::G { pfx, pats } => format!("{}globs[{}]", if *pfx { "prefix-" } else { "" },
            pats.iter().map(|(d, g)| format!("{}:{}", repo_path(d).as_internal_file_string(), globs[*g].text)).collect::<Vec<_>>().join(",")),
        E::U(a, b) => format!("({} | {})", describe(a, globs), describe(b, globs)),
        E::I(a, b) => format!("({} & {})", describe(a, globs), describe(b, globs)),
        E::D(a, b) => format!("({} - {})", describe(a, globs), describe(b, globs)),
    }
}

#[derive(Clone, PartialEq)]
pub enum V { All, Nothing, Spec(Option<Vec<String>>, Option<Vec<String>>) }

pub fn conv_visit(v: Visit) -> V {
    match v {
        Visit::AllRecursively => V::All,
        Visit::Nothing => V::Nothing,
        Visit::Specific { dirs, files } => {
            let d = match dirs { VisitDirs::All => None, VisitDirs::Set(s) => Some(s.iter().map(|c| c.as_internal_str().to_string()).collect()) };
            let f = match files { VisitFiles::All => None, VisitFiles::Set(s) => Some(s.iter().map(|c| c.as_internal_str().to_string()).collect()) };
            V::Spec(d, f)
        }
    }
}
fn show_set(s: &Option<Vec<String>>) -> String {
    match s {
        None => "*".into(),
        Some(v) => { let mut ids: Vec<u64> = v.iter().map(|n| name_id(n) as u64).collect(); ids.sort(); ids.dedup(); show_list(&ids) }
    }
}
pub fn show_visit(v: &V) -> String {
    match v { V::All => "A".into(), V::Nothing => "N".into(), V::Spec(d, f) => format!("S{}/{}", show_set(d), show_set(f)) }
}

/// The property's statement evaluated on observed `visit` / `matches` results over the universe.
/// Returns `(signature, detail)` of the first violation.
pub fn soundness_violation(uni: &[P], visits: &[V], matches: &[bool]) -> Option<(&'static str, String)> {
    for (di, dir) in uni.iter().enumerate() {
        for (pi, p) in uni.iter().enumerate() {
            if p.len() <= dir.len() || p[..dir.len()] != dir[..] { continue; }
            let child = names()[p[dir.len()]].to_string();
            let leaf = p.len() == dir.len() + 1;
            match &visits[di] {
                V::Nothing => if matches[pi] {
                    return Some(("visit:nothing-above-matching-path", format!("visit({}) = Nothing but {} matches", show_path(dir), show_path(p))));
                },
                V::All => if !matches[pi] {
                    return Some(("visit:all-recursively-above-non-matching-path", format!("visit({}) = AllRecursively but {} does not match", show_path(dir), show_path(p))));
                },
                V::Spec(ds, fs) => if matches[pi] {
                    let set = if leaf { fs } else { ds };
                    if let Some(s) = set { if !s.contains(&child) {
                        return Some(("visit:specific-omits-matching-child", format!("visit({}) lists {} {:?}, but {} matches", show_path(dir), if leaf { "files" } else { "dirs" }, s, show_path(p))));
                    } }
                },
            }
        }
    }
    None
}

fn one(out: &mut Out, k: usize, d: usize, uni: &[P], e: &E, globs: &[GlobPat], tables: &mut Tables) {
    let mut toks = vec![];
    show_expr(e, tables, &mut toks);
    let req = format!("eval {k} {d} {}", toks.join(" "));
    let res = guard(|| {
        let m = build(e, globs);
        let visits: Vec<V> = uni.iter().map(|p| conv_visit(m.visit(&repo_path(p)))).collect();
        let matches: Vec<bool> = uni.iter().map(|p| m.matches(&repo_path(p))).collect();
        (visits, matches)
    });
    match res {
        Err(msg) => { out.case(&req, "panic"); out.oracle_fail("matcher:panic", format!("{}: {msg}", describe(e, globs))); }
        Ok((visits, matches)) => {
            let resp = format!("{} {}", visits.iter().map(show_visit).collect::<Vec<_>>().join("|"),
                matches.iter().map(|b| if *b { '1' } else { '0' }).collect::<String>());
            out.case(&req, &resp);
            let n_match = matches.iter().filter(|b| **b).count();
            let has_set = visits.iter().any(|v| matches!(v, V::Spec(Some(_), _) | V::Spec(_, Some(_))));
            let has_all = visits.iter().any(|v| *v == V::All);
            let has_nothing = visits.iter().any(|v| *v == V::Nothing);
            let comb = matches!(e, E::U(..) | E::I(..) | E::D(..));
            out.tally("root-visit", match &visits[0] { V::All => "AllRecursively", V::Nothing => "Nothing", V::Spec(None, None) => "Specific(All,All)", V::Spec(..) => "Specific(sets)" });
            out.tally("top", match e { E::U(..) => "union", E::I(..) => "intersection", E::D(..) => "difference", E::G { pfx: true, .. } => "prefix-globs", E::G { .. } => "file-globs", E::F(_) => "files", E::Pf(_) => "prefix", _ => "const" });
            out.tally("universe", &format!("k{k}d{d}"));
            if comb && n_match > 0 && n_match < uni.len() && has_set && (has_all || has_nothing) { out.nontrivial(&req); }
            match soundness_violation(uni, &visits, &matches) {
                None => out.oracle_ok(),
                Some((sig, detail)) => out.oracle_fail(sig, format!("{} over names {:?}: {detail}", describe(e, globs), &names()[..k])),
            }
        }
    }
}

const GLOB_COMPS: [&str; 16] = ["a", "b", "ab", "*", "?", "a*", "*b", "[ab]", "[!a]", "**", "{a,b}", "{a,ab}", "?b", "*a*", "??", "{b,*b}"];
const GLOB_FIXED: [&str; 8] = ["*", "**", "**/a", "a/**", "{a,b/ab}", "**/b/**", "*/*", "{a/b,ab}/*"];

fn glob_pool(r: &mut Rng, n: usize) -> Vec<GlobPat> {
    let mut v = vec![];
    while v.len() < n {
        let text = if r.chance(1, 4) { r.pick(&GLOB_FIXED).to_string() } else {
            (0..r.range(1, 3)).map(|_| *r.pick(&GLOB_COMPS)).collect::<Vec<_>>().join("/")
        };
        if let Some(g) = GlobPat::new(&text, r.chance(1, 3)) { v.push(g); }
    }
    v
}

fn rand_path(r: &mut Rng, k: usize, lo: usize, hi: usize) -> P { (0..r.range(lo, hi)).map(|_| r.below(k)).collect() }

fn rand_leaf(r: &mut Rng, k: usize, d: usize, nglobs: usize) -> E {
    match r.below(10) {
        0 => if r.chance(1, 2) { E::N } else { E::Ev },
        1..=3 => E::F((0..r.range(0, 4)).map(|_| { let lo = if r.chance(1, 12) { 0 } else { 1 }; rand_path(r, k, lo, d) }).collect()),
        4..=5 => E::Pf((0..r.range(0, 3)).map(|_| { let lo = if r.chance(1, 10) { 0 } else { 1 }; rand_path(r, k, lo, d) }).collect()),
        _ => {
            let n = if r.chance(1, 20) { 0 } else { r.range(1, 3) };
            let mut pats: Vec<(P, usize)> = vec![];
            for _ in 0..n {
                // often reuse a directory (several patterns in one RegexSet) or nest directories
                let dir = if !pats.is_empty() && r.chance(1, 3) {
                    let mut p = r.pick(&pats).0.clone();
                    if r.chance(1, 2) && p.len() + 1 < d { p.push(r.below(k)); }
                    p
                } else { rand_path(r, k, 0, d - 1) };
                pats.push((dir, r.below(nglobs)));
            }
            E::G { pfx: r.chance(1, 2), pats }
        }
    }
}

fn rand_expr(r: &mut Rng, k: usize, d: usize, nglobs: usize, depth: usize) -> E {
    if depth == 0 || r.chance(1, 3) { return rand_leaf(r, k, d, nglobs); }
    let a = Box::new(rand_expr(r, k, d, nglobs, depth - 1));
    let b = Box::new(rand_expr(r, k, d, nglobs, depth - 1));
    match r.below(3) { 0 => E::U(a, b), 1 => E::I(a, b), _ => E::D(a, b) }
}

// part 3: several globs with the same text but different options in one `GlobsMatcher`
const CASE_COMPS: [&str; 14] = ["a*", "A*", "*b", "*B", "?", "a?", "A?", "[ab]", "[AB]*", "{a,Ab}", "{A,ab}", "*", "?b", "[!a]*"];
const CASE_LITS: [&str; 7] = ["a", "A", "ab", "Ab", "AB", "b", "B"];

/// `n` glob texts (first component always has a meta character, so the pattern text does not depend
/// on the options), each compiled case-sensitively (index 2i) and case-insensitively (index 2i+1)
fn twin_pool(r: &mut Rng, n: usize) -> Vec<GlobPat> {
    let mut v = vec![];
    while v.len() < 2 * n {
        let mut comps = vec![r.pick(&CASE_COMPS).to_string()];
        if r.chance(1, 3) { comps.push(match r.below(3) { 0 => r.pick(&CASE_COMPS).to_string(), 1 => "**".into(), _ => r.pick(&CASE_LITS).to_string() }); }
        let text = comps.join("/");
        if let (Some(a), Some(b)) = (GlobPat::new(&text, false), GlobPat::new(&text, true)) { v.push(a); v.push(b); }
    }
    v
}

/// a globs matcher in which a (dir, text) pair mostly occurs twice or more, with different options,
/// in either order, next to other patterns at the same, a nested or an unrelated directory
fn twin_leaf(r: &mut Rng, k: usize, d: usize, nglobs: usize) -> E {
    let mut pats: Vec<(P, usize)> = vec![];
    for _ in 0..r.range(1, 2) {
        let dir = if !pats.is_empty() && r.chance(1, 2) {
            let mut p = r.pick(&pats).0.clone();
            if r.chance(1, 2) && p.len() + 1 < d { p.push(r.below(k)); }
            p
        } else { rand_path(r, k, 0, d - 1) };
        let g = r.below(nglobs);
        pats.push((dir.clone(), g));
        if r.chance(4, 5) { pats.push((dir.clone(), g ^ 1)); }
        if r.chance(1, 6) { pats.push((dir.clone(), if r.chance(1, 2) { g } else { g ^ 1 })); }
        if r.chance(1, 4) { pats.push((dir, r.below(nglobs))); }
    }
    if r.chance(1, 3) { let i = r.below(pats.len()); let x = pats.remove(i); pats.push(x); }
    E::G { pfx: r.chance(1, 2), pats }
}

fn rand_expr3(r: &mut Rng, k: usize, d: usize, nglobs: usize, depth: usize) -> E {
    if depth == 0 || r.chance(1, 3) { return if r.chance(2, 3) { twin_leaf(r, k, d, nglobs) } else { rand_leaf(r, k, d, nglobs) }; }
    let a = Box::new(rand_expr3(r, k, d, nglobs, depth - 1));
    let b = Box::new(rand_expr3(r, k, d, nglobs, depth - 1));
    match r.below(3) { 0 => E::U(a, b), 1 => E::I(a, b), _ => E::D(a, b) }
}

/// does some `GlobsMatcher` of the expression hold, at one directory, two globs with the same text
/// whose truth tables differ (i.e. the options matter on this universe)?
fn has_twins(e: &E, t: &mut Tables) -> bool {
    match e {
        E::G { pats, .. } => {
            for (i, (d1, g1)) in pats.iter().enumerate() { for (d2, g2) in &pats[i + 1..] {
                if d1 == d2 && g1 != g2 && *g1 / 2 == *g2 / 2 && t.get(*g1).to_string() != t.get(*g2) { return true; }
            } }
            false
        }
        E::U(a, b) | E::I(a, b) | E::D(a, b) => has_twins(a, t) || has_twins(b, t),
        _ => false,
    }
}

pub fn run(cfg: &Cfg, out: &mut Out) {
    // part 1: every binary combination of a fixed pool of small leaves (k = 2, D = 2)
    {
        let (k, d) = (2, 2);
        let uni = universe(k, d);
        let globs: Vec<GlobPat> = ["*", "a", "*/b", "**", "a/*"].iter().map(|g| GlobPat::new(g, g.starts_with("a")).unwrap()).collect();
        let mut tables = Tables { globs: &globs, uni: &uni, cache: HashMap::new() };
        let leaves = || -> Vec<E> { vec![
            E::N, E::Ev, E::F(vec![]), E::F(vec![vec![0]]), E::F(vec![vec![0, 1]]), E::F(vec![vec![0], vec![0, 1], vec![1, 1]]),
            E::F(vec![vec![]]), E::Pf(vec![]), E::Pf(vec![vec![]]), E::Pf(vec![vec![0]]), E::Pf(vec![vec![1, 0]]), E::Pf(vec![vec![1], vec![1, 0], vec![0, 1]]),
            E::G { pfx: false, pats: vec![] }, E::G { pfx: false, pats: vec![(vec![], 0)] }, E::G { pfx: false, pats: vec![(vec![], 2)] },
            E::G { pfx: false, pats: vec![(vec![0], 1), (vec![], 1)] }, E::G { pfx: false, pats: vec![(vec![1], 3)] },
            E::G { pfx: true, pats: vec![(vec![], 0)] }, E::G { pfx: true, pats: vec![(vec![], 1)] }, E::G { pfx: true, pats: vec![(vec![1], 1), (vec![1], 4)] },
            E::G { pfx: true, pats: vec![(vec![0], 3)] }, E::G { pfx: true, pats: vec![(vec![], 2), (vec![1], 1)] }, E::G { pfx: true, pats: vec![(vec![], 4)] },
        ] };
        let n = leaves().len();
        for e in leaves() { one(out, k, d, &uni, &e, &globs, &mut tables); }
        for i in 0..n { for j in 0..n { for op in 0..3 {
            let (a, b) = (Box::new(leaves().swap_remove(i)), Box::new(leaves().swap_remove(j)));
            let e = match op { 0 => E::U(a, b), 1 => E::I(a, b), _ => E::D(a, b) };
            one(out, k, d, &uni, &e, &globs, &mut tables);
        } } }
        out.note(format!("systematic: {n} leaf matchers and all {n}x{n}x3 binary combinations over k=2,D=2; then random trees of depth <= 4"));
    }
    // part 2: random expression trees, sizes small -> large
    let mut r = cfg.rng(30);
    let rounds = cfg.n(1200, 20000);
    for round in 0..rounds {
        let (k, d) = match round % 6 { 0 => (2, 2), 1 => (2, 3), 2 | 3 => (3, 3), 4 => (2, 4), _ => (3, 4) };
        let uni = universe(k, d);
        let globs = glob_pool(&mut r, 6);
        let mut tables = Tables { globs: &globs, uni: &uni, cache: HashMap::new() };
        let per = if uni.len() > 100 { 25 } else { 60 };
        for i in 0..per {
            let depth = 1 + (i * 4) / per;
            let e = rand_expr(&mut r, k, d, globs.len(), depth);
            one(out, k, d, &uni, &e, &globs, &mut tables);
        }
    }

    // part 3: universes whose names are case variants of each other; glob pools holding every text
    // both case-sensitively and case-insensitively; matchers registering both at one directory
    let mut r = cfg.rng(3003);
    let rounds = cfg.n(300, 5000);
    for round in 0..rounds {
        use_names(1 + (round % 3) as usize);
        let (k, d) = match round % 4 { 0 => (2, 2), 1 => (3, 2), 2 => (2, 3), _ => (3, 3) };
        let uni = universe(k, d);
        let globs = twin_pool(&mut r, 3);
        let mut tables = Tables { globs: &globs, uni: &uni, cache: HashMap::new() };
        for i in 0..40 {
            let depth = (i * 4) / 40;
            let e = rand_expr3(&mut r, k, d, globs.len(), depth);
            out.tally("same-text-globs-in-one-matcher", if has_twins(&e, &mut tables) { "different-options,different-table" } else { "none" });
            one(out, k, d, &uni, &e, &globs, &mut tables);
        }
    }
    use_names(0);
}
