//! C20 — shortest unique id prefixes are unique, minimal and resolvable.
//!
//! Histories: DAGs written through real transactions (stacked index segments, sometimes concurrent
//! operations merged) whose *change ids* are drawn from a pool with long shared prefixes (differences
//! placed before, at and after the 4-byte short key of `IdIndex`), several commits per change id,
//! some *commit ids* searched (by varying the description) to share 2–3 leading digits with an
//! existing commit, hidden commits (`remove_head`), local bookmarks named like id prefixes, and an
//! `IdPrefixContext` with a random disambiguation revset (visible and hidden commits).
//! Cluster histories: 3–5 change ids agreeing on exactly the first 7…12 digits (around the 4-byte
//! short key), every split of the cluster between in / outside the disambiguation set, every id and
//! every prefix up to the reported length.  Table family: `IdIndex<CommitId|ChangeId, u32, 4>` itself
//! over `[(CommitId, ChangeId)]` with chosen ids (commit ids of a real repo are hashes), every split
//! inserted / not inserted (`ixshort`, `ixres`).
//!
//! Tie: the model gets the ids in the real index's position order together with the real segment
//! sizes (`stats().commit_levels`; for the index inside a transaction: the base's levels plus one
//! mutable level), so its per-segment tables are the tables of the real segments.
//!
//! Oracle (from the property text, by brute force over the id strings): the prefix of the reported
//! length matches exactly the id; every shorter prefix matches another id too (or is shadowed by a
//! bookmark); resolving the shortest prefix gives the commit / all and only the visible commits of
//! the change; resolving a shorter prefix never gives that id.
use super::c18::{Hist, Pos, observe_positions, show_pos};
use crate::rt::*;
use jj_lib::backend::{ChangeId, CommitId};
use jj_lib::default_index::DefaultReadonlyIndex;
use jj_lib::id_prefix::{IdIndex, IdIndexSourceEntry, IdPrefixContext, IdPrefixIndex};
use jj_lib::index::{ResolvedChangeState, ResolvedChangeTargets};
use jj_lib::object_id::{HexPrefix, ObjectId, PrefixResolution};
use jj_lib::op_store::RefTarget;
use jj_lib::ref_name::RefName;
use jj_lib::repo::{MutableRepo, ReadonlyRepo, Repo};
use jj_lib::revset::{RevsetExpression, RevsetExtensions};
use pollster::FutureExt as _;
use std::collections::{BTreeMap, BTreeSet, HashMap};
use std::sync::Arc;
use testutils::TestRepo;

const REV: &[u8; 16] = b"zyxwvutsrqponmlk";

fn hexs(b: &[u8]) -> String { b.iter().map(|x| format!("{x:02x}")).collect() }
fn show_ids(v: &[String]) -> String { if v.is_empty() { "-".into() } else { v.join(",") } }
fn pfx_str(s: &str) -> String { if s.is_empty() { "-".into() } else { s.to_string() } }
fn common_len(a: &str, b: &str) -> usize { a.bytes().zip(b.bytes()).take_while(|(x, y)| x == y).count() }
/// reverse-hex name → hex digits (None if not a reverse-hex string)
fn rev_to_hex(name: &str) -> Option<String> {
    name.bytes().map(|c| REV.iter().position(|&r| r == c).map(|d| char::from_digit(d as u32, 16).unwrap())).collect()
}
fn hex_to_rev(h: &str) -> String {
    h.chars().map(|c| REV[c.to_digit(16).unwrap() as usize] as char).collect()
}

struct State<'a> {
    label: &'a str,
    repo: &'a dyn Repo,
    pos: Pos,
    sizes: Vec<u64>,
    /// hex commit id / change id per position
    commit_hex: Vec<String>,
    change_hex: Vec<String>,
    /// visibility per position (ancestor of a view head), from the commit objects
    visible: Vec<bool>,
    head_pos: Vec<usize>,
    /// local bookmark names
    bookmarks: Vec<String>,
}

fn show_res_commit(st: &State, h: &Hist, r: &Result<PrefixResolution<CommitId>, String>) -> String {
    match r {
        Ok(PrefixResolution::NoMatch) => "none".into(),
        Ok(PrefixResolution::AmbiguousMatch) => "amb".into(),
        Ok(PrefixResolution::SingleMatch(id)) => match h.by_id.get(id).and_then(|i| st.pos.of.get(i)) {
            Some(&p) => format!("one:{}", st.commit_hex[p]),
            None => format!("one:unknown-{}", id.hex()),
        },
        Err(_) => "panic".into(),
    }
}

fn targets_pos(st: &State, h: &Hist, t: &ResolvedChangeTargets) -> Vec<(usize, bool)> {
    t.targets.iter().map(|(id, s)| (st.pos.of[&h.by_id[id]], *s == ResolvedChangeState::Visible)).collect()
}

fn show_res_change(st: &State, h: &Hist, r: &Result<PrefixResolution<ResolvedChangeTargets>, String>) -> String {
    match r {
        Ok(PrefixResolution::NoMatch) => "none".into(),
        Ok(PrefixResolution::AmbiguousMatch) => "amb".into(),
        Ok(PrefixResolution::SingleMatch(t)) => format!("one:{}", targets_pos(st, h, t).iter()
            .map(|(p, v)| format!("{p}:{}", if *v { "v" } else { "h" })).collect::<Vec<_>>().join(",")),
        Err(_) => "panic".into(),
    }
}

fn matching(ids: &[String], p: &str) -> BTreeSet<String> { ids.iter().filter(|i| i.starts_with(p)).cloned().collect() }

/// queries through the `Index` / `Repo` API (no disambiguation index)
fn probe_plain(out: &mut Out, r: &mut Rng, h: &Hist, st: &State, budget: usize) {
    let n = st.pos.at.len();
    let index = st.repo.index();
    let sizes = show_list(&st.sizes);
    let commits = show_ids(&st.commit_hex);
    let changes = show_ids(&st.change_hex);
    let heads = show_pos(&st.head_pos);
    let label = st.label;
    // ---- commit ids ----
    let picks: Vec<usize> = if n <= budget { (0..n).collect() } else { (0..budget).map(|_| r.below(n)).collect() };
    for &p in &picks {
        let id = h.commits[st.pos.at[p]].id().clone();
        let hx = &st.commit_hex[p];
        let got = guard(|| index.shortest_unique_commit_id_prefix_len(&id).block_on().unwrap());
        out.case(&format!("cshort {sizes} {commits} {hx}"), &got.as_ref().map(|l| l.to_string()).unwrap_or("panic".into()));
        let Ok(len) = got else { out.oracle_fail("commit-prefix:panic", format!("{label}: {hx}")); continue };
        out.tally("commit-shortest-len", &len.min(6).to_string());
        if len >= 2 { out.nontrivial(("cshort", &commits, hx)); }
        // unique: the prefix of that length matches exactly this id; minimal: one digit less matches another id
        let uniq = len <= hx.len() && matching(&st.commit_hex, &hx[..len]).len() == 1;
        let minimal = len == 0 || matching(&st.commit_hex, &hx[..len - 1]).len() >= 2;
        if !uniq { out.oracle_fail("commit-prefix:shortest-not-unique", format!("{label}: ids {commits}, id {hx}, len {len}")); }
        else if !minimal { out.oracle_fail("commit-prefix:shortest-not-minimal", format!("{label}: ids {commits}, id {hx}, len {len}")); }
        else { out.oracle_ok(); }
        // resolvable: the shortest prefix resolves to the commit, shorter ones do not
        for l in [len, len.saturating_sub(1), r.below(hx.len() + 1)] {
            if l > hx.len() { continue; }
            let ps = &hx[..l];
            let pfx = HexPrefix::try_from_hex(ps).unwrap();
            let res = guard(|| index.resolve_commit_id_prefix(&pfx).block_on().unwrap());
            out.case(&format!("cres {sizes} {commits} {}", pfx_str(ps)), &show_res_commit(st, h, &res));
            let m = matching(&st.commit_hex, ps);
            let ok = match &res {
                Ok(PrefixResolution::SingleMatch(x)) => m.len() == 1 && *x == id,
                Ok(PrefixResolution::AmbiguousMatch) => m.len() >= 2,
                Ok(PrefixResolution::NoMatch) => false,
                Err(_) => false,
            };
            if m.len() >= 2 || l >= 2 { out.nontrivial(("cres", &commits, ps)); }
            if ok { out.oracle_ok(); } else {
                out.oracle_fail(if l >= len { "commit-prefix:shortest-does-not-resolve" } else { "commit-prefix:shorter-prefix-resolves-wrongly" },
                    format!("{label}: ids {commits}, prefix {ps} of {hx} → {}", show_res_commit(st, h, &res)));
            }
        }
    }
    // random prefixes and absent ids
    for _ in 0..budget / 2 {
        let mut key: Vec<u8> = (0..10).map(|_| r.below(256) as u8).collect();
        if r.chance(2, 3) {
            // share a few digits with an existing id
            let other = h.commits[st.pos.at[r.below(n)]].id().as_bytes().to_vec();
            let k = r.below(3);
            key[..k].copy_from_slice(&other[..k]);
            if r.chance(1, 2) { key[k] = (other[k] & 0xf0) | (key[k] & 0x0f); }
        }
        let hx = hexs(&key);
        if st.commit_hex.contains(&hx) { continue; }
        let id = CommitId::new(key);
        let got = guard(|| index.shortest_unique_commit_id_prefix_len(&id).block_on().unwrap());
        out.case(&format!("cshort {sizes} {commits} {hx}"), &got.as_ref().map(|l| l.to_string()).unwrap_or("panic".into()));
        match got {
            // "returns the prefix length that never matches with any commit ids", and no shorter one does
            Ok(len) if len <= hx.len() && matching(&st.commit_hex, &hx[..len]).is_empty()
                && (len == 0 || !matching(&st.commit_hex, &hx[..len - 1]).is_empty()) => out.oracle_ok(),
            other => out.oracle_fail("commit-prefix:absent-id-length-wrong", format!("{label}: ids {commits}, absent {hx} → {other:?}")),
        }
        let l = r.below(5);
        let ps = &hx[..l];
        let pfx = HexPrefix::try_from_hex(ps).unwrap();
        let res = guard(|| index.resolve_commit_id_prefix(&pfx).block_on().unwrap());
        out.case(&format!("cres {sizes} {commits} {}", pfx_str(ps)), &show_res_commit(st, h, &res));
        let m = matching(&st.commit_hex, ps);
        let ok = match &res {
            Ok(PrefixResolution::SingleMatch(x)) => m.len() == 1 && m.contains(&x.hex()),
            Ok(PrefixResolution::AmbiguousMatch) => m.len() >= 2,
            Ok(PrefixResolution::NoMatch) => m.is_empty(),
            Err(_) => false,
        };
        out.tally("random-prefix", match m.len() { 0 => "none", 1 => "one", _ => "amb" });
        if ok { out.oracle_ok(); } else { out.oracle_fail("commit-prefix:resolution-disagrees-with-id-set", format!("{label}: ids {commits}, prefix {ps}")); }
    }
    // ---- change ids ----
    let distinct: Vec<String> = st.change_hex.iter().cloned().collect::<BTreeSet<_>>().into_iter().collect();
    for ch in &distinct {
        let cid = ChangeId::try_from_hex(ch).unwrap();
        let got = guard(|| st.repo.shortest_unique_change_id_prefix_len(&cid).block_on().unwrap());
        out.case(&format!("chshort {sizes} {changes} {ch}"), &got.as_ref().map(|l| l.to_string()).unwrap_or("panic".into()));
        let Ok(len) = got else { out.oracle_fail("change-prefix:panic", format!("{label}: {ch}")); continue };
        out.tally("change-shortest-len", &format!("{:02}", len.min(20)));
        if len >= 3 { out.nontrivial(("chshort", &changes, ch)); }
        let uniq = len <= ch.len() && matching(&distinct, &ch[..len]).len() == 1;
        let minimal = len == 0 || matching(&distinct, &ch[..len - 1]).len() >= 2;
        if !uniq { out.oracle_fail("change-prefix:shortest-not-unique", format!("{label}: changes {distinct:?}, id {ch}, len {len}")); }
        else if !minimal { out.oracle_fail("change-prefix:shortest-not-minimal", format!("{label}: changes {distinct:?}, id {ch}, len {len}")); }
        else { out.oracle_ok(); }
        for l in [len, len.saturating_sub(1), ch.len(), r.below(ch.len() + 1)] {
            if l > ch.len() { continue; }
            let ps = &ch[..l];
            let pfx = HexPrefix::try_from_hex(ps).unwrap();
            let res = guard(|| st.repo.resolve_change_id_prefix(&pfx).block_on().unwrap());
            out.case(&format!("chres {sizes} {changes} {} {heads} {}", st.pos.enc, pfx_str(ps)), &show_res_change(st, h, &res));
            if l >= 1 && distinct.len() >= 2 { out.nontrivial(("chres", &changes, &st.pos.enc, &heads, ps)); }
            check_change_resolution(out, h, st, &distinct, ch, ps, l >= len, &res);
        }
    }
}

/// the property's statement about resolving change-id prefix `ps` (a prefix of change id `ch`)
#[allow(clippy::too_many_arguments)]
fn check_change_resolution(out: &mut Out, h: &Hist, st: &State, distinct: &[String], ch: &str, ps: &str, must_resolve: bool,
                           res: &Result<PrefixResolution<ResolvedChangeTargets>, String>) {
    let m = matching(distinct, ps);
    let label = st.label;
    match res {
        Ok(PrefixResolution::SingleMatch(t)) => {
            let got = targets_pos(st, h, t);
            let got_vis: BTreeSet<usize> = got.iter().filter(|(_, v)| *v).map(|(p, _)| *p).collect();
            let got_all: BTreeSet<usize> = got.iter().map(|(p, _)| *p).collect();
            let resolved_change: BTreeSet<&String> = got.iter().map(|(p, _)| &st.change_hex[*p]).collect();
            // which change did it resolve to?  (with a disambiguation set a shorter prefix may resolve elsewhere)
            let target = if resolved_change.len() == 1 { (*resolved_change.iter().next().unwrap()).clone() } else { String::new() };
            let want_vis: BTreeSet<usize> = (0..st.pos.at.len()).filter(|&p| st.change_hex[p] == target && st.visible[p]).collect();
            let want_all: BTreeSet<usize> = (0..st.pos.at.len()).filter(|&p| st.change_hex[p] == target).collect();
            if resolved_change.len() != 1 || !target.starts_with(ps) {
                out.oracle_fail("change-prefix:targets-of-several-changes", format!("{label}: prefix {ps} → {got:?}"));
            } else if got_vis != want_vis {
                out.oracle_fail("change-prefix:visible-commits-wrong", format!("{label}: prefix {ps} of {ch}: visible {got_vis:?}, graph says {want_vis:?}"));
            } else if !got_all.is_subset(&want_all) || got.len() != got_all.len() {
                out.oracle_fail("change-prefix:foreign-or-duplicate-target", format!("{label}: prefix {ps}: {got:?}"));
            } else if must_resolve && target != ch {
                out.oracle_fail("change-prefix:shortest-resolves-elsewhere", format!("{label}: prefix {ps} of {ch} → {target}"));
            } else if !must_resolve && target == ch && m.len() >= 2 && st.label != "dis" {
                out.oracle_fail("change-prefix:shorter-prefix-resolves", format!("{label}: prefix {ps} of {ch}"));
            } else {
                if got.iter().any(|(_, v)| !*v) && !got_vis.is_empty() { out.nontrivial(("chres-hidden", ch, ps, &st.pos.enc)); }
                if got.len() >= 2 { out.tally("change-targets", &got.len().min(5).to_string()); }
                out.oracle_ok();
            }
        }
        Ok(PrefixResolution::AmbiguousMatch) => {
            if must_resolve { out.oracle_fail("change-prefix:shortest-does-not-resolve", format!("{label}: prefix {ps} of {ch} is ambiguous")); }
            else if m.len() < 2 && !ps.is_empty() && st.label != "dis" { out.oracle_fail("change-prefix:ambiguous-but-unique", format!("{label}: prefix {ps}")); }
            else { out.oracle_ok(); }
        }
        Ok(PrefixResolution::NoMatch) => out.oracle_fail("change-prefix:no-match-for-existing-change", format!("{label}: prefix {ps} of {ch}")),
        Err(e) => out.oracle_fail("change-prefix:panic", format!("{label}: prefix {ps}: {e}")),
    }
}

/// queries through `IdPrefixContext` with a disambiguation revset
fn probe_dis(out: &mut Out, r: &mut Rng, h: &Hist, st: &State, budget: usize) {
    let n = st.pos.at.len();
    // the disambiguation set: off / random subset (may include hidden commits)
    let dis: Option<Vec<usize>> = match r.below(6) {
        0 => None,
        1 => Some((0..n).collect()),
        _ => { let k = r.range(1, 4); Some((0..n).filter(|_| r.chance(1, k)).collect()) }
    };
    probe_dis_with(out, r, h, st, budget, dis, false);
}

/// how an id relates to the short-key table of the disambiguation set `d` (ids per entry of the set)
fn short_key_shape(out: &mut Out, cat: &str, all: &[String], d: &[String], id: &str) -> bool {
    let inside = d.iter().any(|x| x == id);
    let same: Vec<&String> = d.iter().filter(|x| x.len() >= 8 && id.len() >= 8 && x[..8] == id[..8]).collect();
    // an id outside the set that shares more digits with `id` than every entry of the set does
    let in_max = same.iter().filter(|x| **x != id).map(|x| common_len(x, id)).max().unwrap_or(0);
    let closer_outside = all.iter().any(|x| x != id && !d.contains(x) && common_len(x, id) > in_max && common_len(x, id) >= 8);
    out.tally(cat, &format!("{}, {} set entries with its short key{}", if inside { "inside" } else { "outside" },
        match same.len() { 0 => "0", 1 => "1", _ => "2+" }, if closer_outside { ", a closer id outside" } else { "" }));
    !inside && same.len() == 1
}

/// queries through `IdPrefixContext` with the disambiguation set `dis` (positions); `full`: every
/// change id with every prefix up to the reported length (otherwise the shortest, the next shorter
/// and a random one)
fn probe_dis_with(out: &mut Out, r: &mut Rng, h: &Hist, st: &State, budget: usize, dis: Option<Vec<usize>>, full: bool) {
    let n = st.pos.at.len();
    let sizes = show_list(&st.sizes);
    let commits = show_ids(&st.commit_hex);
    let changes = show_ids(&st.change_hex);
    let heads = show_pos(&st.head_pos);
    let label = st.label;
    let ctx = match &dis {
        None => IdPrefixContext::new(Arc::new(RevsetExtensions::default())),
        Some(d) => IdPrefixContext::new(Arc::new(RevsetExtensions::default()))
            .disambiguate_within(RevsetExpression::commits(d.iter().map(|&p| h.commits[st.pos.at[p]].id().clone()).collect())),
    };
    let pix: IdPrefixIndex = match ctx.populate(st.repo) {
        Ok(p) => p,
        Err(e) => { out.oracle_fail("id-prefix-context:populate-failed", format!("{label}: {e}")); return; }
    };
    out.tally("disambiguation-set", match &dis { None => "off", Some(d) if d.is_empty() => "empty", Some(d) if d.len() == n => "all", _ => "subset" });
    let dis_commits = match &dis { None => "off".to_string(), Some(d) => show_ids(&d.iter().map(|&p| st.commit_hex[p].clone()).collect::<Vec<_>>()) };
    let dis_changes = match &dis { None => "off".to_string(), Some(d) => show_ids(&d.iter().map(|&p| st.change_hex[p].clone()).collect::<Vec<_>>()) };
    let refs_hex: Vec<String> = st.bookmarks.iter().filter(|b| b.bytes().all(|c| c.is_ascii_hexdigit() && !c.is_ascii_uppercase())).cloned().collect();
    let refs_rev: Vec<String> = st.bookmarks.iter().filter_map(|b| rev_to_hex(b)).collect();
    let in_dis = |p: usize| dis.as_ref().is_none_or(|d| d.contains(&p));
    // ---- commits ----
    for _ in 0..budget.min(n) {
        let p = r.below(n);
        let id = h.commits[st.pos.at[p]].id().clone();
        let hx = &st.commit_hex[p];
        let got = guard(|| pix.shortest_commit_prefix_len(st.repo, &id).unwrap());
        out.case(&format!("dcshort {sizes} {commits} {dis_commits} {} {hx}", show_ids(&refs_hex)), &got.as_ref().map(|l| l.to_string()).unwrap_or("panic".into()));
        let Ok(len) = got else { out.oracle_fail("dis-commit-prefix:panic", format!("{label}: {hx}")); continue };
        if dis.is_some() && in_dis(p) && len < common_len_max(&st.commit_hex, hx) + 1 { out.nontrivial(("dcshort", &commits, &dis_commits, hx)); }
        out.tally("dis-commit", if dis.is_none() { "off" } else if in_dis(p) { "inside" } else { "outside" });
        if let Some(d) = &dis {
            let d_hex: Vec<String> = d.iter().map(|&q| st.commit_hex[q].clone()).collect();
            if short_key_shape(out, "dis-commit-short-key", &st.commit_hex, &d_hex, hx) { out.nontrivial(("dcshort-one-entry-chunk", &commits, &dis_commits, hx)); }
        }
        for l in [len, len.saturating_sub(1), r.below(len + 1)] {
            let ps = &hx[..l.min(hx.len())];
            let pfx = HexPrefix::try_from_hex(ps).unwrap();
            let res = guard(|| pix.resolve_commit_prefix(st.repo, &pfx).unwrap());
            out.case(&format!("dcres {sizes} {commits} {dis_commits} {}", pfx_str(ps)), &show_res_commit(st, h, &res));
            if dis.is_some() && l >= 1 { out.nontrivial(("dcres", &commits, &dis_commits, ps)); }
            let is_ref = st.bookmarks.iter().any(|b| b == ps);
            let ok = match &res {
                // the shortest prefix resolves back to exactly that commit …
                Ok(PrefixResolution::SingleMatch(x)) => if l >= len { *x == id } else { *x != id || is_ref || l < len },
                // … a shorter one is ambiguous or resolves to something else (or is shadowed by a bookmark)
                Ok(PrefixResolution::AmbiguousMatch) => l < len,
                _ => false,
            };
            // a shorter prefix that still resolves to the same commit is only allowed when a bookmark shadows it
            let wrongly_short = l < len && matches!(&res, Ok(PrefixResolution::SingleMatch(x)) if *x == id)
                && !(l..len).all(|k| st.bookmarks.iter().any(|b| *b == hx[..k]));
            if ok && !wrongly_short { out.oracle_ok(); } else {
                out.oracle_fail(if l >= len { "dis-commit-prefix:shortest-does-not-resolve" } else { "dis-commit-prefix:shorter-prefix-resolves-to-same" },
                    format!("{label}: ids {commits}, within {dis_commits}, refs {:?}, prefix {ps} of {hx} (len {len}) → {}", st.bookmarks, show_res_commit(st, h, &res)));
            }
        }
    }
    // ---- changes ----
    let distinct: Vec<String> = st.change_hex.iter().cloned().collect::<BTreeSet<_>>().into_iter().collect();
    let st_dis = State { label: "dis", repo: st.repo, pos: Pos { at: st.pos.at.clone(), of: st.pos.of.clone(), enc: st.pos.enc.clone() },
        sizes: st.sizes.clone(), commit_hex: st.commit_hex.clone(), change_hex: st.change_hex.clone(), visible: st.visible.clone(),
        head_pos: st.head_pos.clone(), bookmarks: st.bookmarks.clone() };
    let mut seen: HashMap<String, Result<PrefixResolution<ResolvedChangeTargets>, String>> = HashMap::new();
    for ch in &distinct {
        let cid = ChangeId::try_from_hex(ch).unwrap();
        let got = guard(|| pix.shortest_change_prefix_len(st.repo, &cid).block_on().unwrap());
        out.case(&format!("dchshort {sizes} {changes} {dis_changes} {} {ch}", show_ids(&refs_rev)), &got.as_ref().map(|l| l.to_string()).unwrap_or("panic".into()));
        let Ok(len) = got else { out.oracle_fail("dis-change-prefix:panic", format!("{label}: {ch}")); continue };
        if let Some(d) = &dis {
            let d_hex: Vec<String> = d.iter().map(|&q| st.change_hex[q].clone()).collect();
            if short_key_shape(out, "dis-change-short-key", &distinct, &d_hex, ch) { out.nontrivial(("dchshort-one-entry-chunk", &changes, &dis_changes, ch)); }
        }
        let lens: Vec<usize> = if full { (0..=len.min(ch.len())).rev().collect() } else { vec![len, len.saturating_sub(1), r.below(len + 1)] };
        for l in lens {
            let ps = &ch[..l.min(ch.len())];
            let pfx = HexPrefix::try_from_hex(ps).unwrap();
            // (in `full` mode the ids share most of their prefixes: one request per prefix, the
            // property's statement is still evaluated for every id)
            let fresh = !full || !seen.contains_key(ps);
            let res = match seen.get(ps) {
                Some(res) if full => res.clone(),
                _ => guard(|| pix.resolve_change_prefix(st.repo, &pfx).block_on().unwrap()),
            };
            if full { seen.insert(ps.to_string(), res.clone()); }
            if fresh { out.case(&format!("dchres {sizes} {changes} {} {heads} {dis_changes} {}", st.pos.enc, pfx_str(ps)), &show_res_change(st, h, &res)); }
            if dis.is_some() && l >= 1 { out.nontrivial(("dchres", &changes, &dis_changes, &st.pos.enc, ps)); }
            check_change_resolution(out, h, &st_dis, &distinct, ch, ps, l >= len, &res);
            // a shorter prefix resolving to the same change is only allowed when a bookmark shadows it
            if l < len && let Ok(PrefixResolution::SingleMatch(t)) = &res {
                let same = targets_pos(st, h, t).iter().all(|(p, _)| st.change_hex[*p] == *ch);
                let shadowed = (l..len).all(|k| st.bookmarks.iter().any(|b| *b == hex_to_rev(&ch[..k])));
                if same && !shadowed {
                    out.oracle_fail("dis-change-prefix:shorter-prefix-resolves-to-same", format!("{label}: changes {distinct:?}, within {dis_changes}, prefix {ps} of {ch} (len {len})"));
                } else { out.oracle_ok(); }
            }
        }
    }
}

fn common_len_max(ids: &[String], hx: &str) -> usize { ids.iter().filter(|i| *i != hx).map(|i| common_len(i, hx)).max().unwrap_or(0) }

fn make_state<'a>(out: &mut Out, h: &Hist, repo: &'a dyn Repo, sizes: Vec<u64>, label: &'a str, expected: &BTreeSet<usize>) -> Option<State<'a>> {
    let pos = observe_positions(out, h, repo.index(), repo.store(), label, expected)?;
    let n = pos.at.len();
    if sizes.iter().sum::<u64>() as usize != n {
        // which indexed commits does the history not know?
        let heads: Vec<CommitId> = repo.index().all_heads_for_gc().unwrap().collect();
        let expr = jj_lib::revset::ResolvedExpression::Ancestors { heads: Box::new(jj_lib::revset::ResolvedExpression::Commits(heads)),
            generation: jj_lib::revset::GENERATION_RANGE_FULL, parents_range: jj_lib::revset::PARENTS_RANGE_FULL };
        let all = super::c18::eval_ids(repo.index(), repo.store(), &expr).unwrap_or_default();
        let unknown: Vec<String> = all.iter().filter(|id| !h.by_id.contains_key(*id)).map(|id| {
            let c = repo.store().get_commit(id).unwrap();
            format!("{} desc={:?} parents={:?} change={}", id.hex(), c.description(), c.parent_ids().iter().map(|p| h.by_id.get(p)).collect::<Vec<_>>(), c.change_id().hex())
        }).collect();
        out.oracle_fail("index:segment-sizes-do-not-add-up", format!("{label}: {sizes:?} vs {n}; unknown indexed commits: {unknown:?}"));
        return None;
    }
    let commit_hex: Vec<String> = pos.at.iter().map(|&i| h.commits[i].id().hex()).collect();
    let change_hex: Vec<String> = pos.at.iter().map(|&i| h.commits[i].change_id().hex()).collect();
    let heads: Vec<usize> = repo.view().heads().iter().map(|id| h.by_id[id]).collect();
    let mut vis_created: BTreeSet<usize> = BTreeSet::new();
    for &hd in &heads { vis_created.extend(h.anc[hd].iter().copied()); }
    let visible: Vec<bool> = pos.at.iter().map(|i| vis_created.contains(i)).collect();
    let mut head_pos: Vec<usize> = heads.iter().map(|i| pos.of[i]).collect();
    head_pos.sort();
    let bookmarks: Vec<String> = repo.view().local_bookmarks().map(|(name, _)| name.as_str().to_string()).collect();
    Some(State { label, repo, pos, sizes, commit_hex, change_hex, visible, head_pos, bookmarks })
}

// ---------------------------------------------------------------------------------------------
// Clusters of ids agreeing on the first k digits (k around the 4-byte short key of `IdIndex`)
// ---------------------------------------------------------------------------------------------

fn digit(b: &[u8], d: usize) -> u8 { if d % 2 == 0 { b[d / 2] >> 4 } else { b[d / 2] & 0x0f } }
fn set_digit(b: &mut [u8], d: usize, v: u8) {
    b[d / 2] = if d % 2 == 0 { (b[d / 2] & 0x0f) | (v << 4) } else { (b[d / 2] & 0xf0) | v };
}

/// `m` distinct ids of `nbytes` bytes that agree on exactly the first `k` digits as a group: digits
/// `k, k+1, k+2` are taken from a two-letter alphabet per position (both letters occur at digit `k`),
/// so sub-groups agree on `k+1` and `k+2` digits; all other digits are those of one random base.
fn cluster_ids(r: &mut Rng, k: usize, m: usize, nbytes: usize) -> Vec<Vec<u8>> {
    assert!(k + 3 <= 2 * nbytes && (2..=8).contains(&m));
    let base: Vec<u8> = (0..nbytes).map(|_| r.below(256) as u8).collect();
    let letters: Vec<(u8, u8)> = (0..3).map(|_| { let a = r.below(16) as u8; (a, (a + 1 + r.below(15) as u8) % 16) }).collect();
    let tails: Vec<usize> = loop {
        let mut t: Vec<usize> = (0..8).collect();
        for i in 0..m { let j = i + r.below(8 - i); t.swap(i, j); }
        t.truncate(m);
        if t.iter().any(|x| x & 4 == 0) && t.iter().any(|x| x & 4 != 0) { break t; }
    };
    tails.iter().map(|t| {
        let mut b = base.clone();
        for (i, (a0, a1)) in letters.iter().enumerate() {
            set_digit(&mut b, k + i, if (t >> (2 - i)) & 1 == 0 { *a0 } else { *a1 });
        }
        b
    }).collect()
}

/// an id that leaves `base` at digit `d` (shares exactly `d` digits with it)
fn branch_at(r: &mut Rng, base: &[u8], d: usize) -> Vec<u8> {
    let mut b = base.to_vec();
    let v = (digit(&b, d) + 1 + r.below(15) as u8) % 16;
    set_digit(&mut b, d, v);
    for x in d + 1..2 * base.len() { if r.chance(1, 2) { set_digit(&mut b, x, r.below(16) as u8); } }
    b
}

/// all subsets of `0..n` as bit masks; above 32 subsets: those of at most two elements plus random ones
fn splits(r: &mut Rng, n: usize) -> Vec<u32> {
    let total = 1u32 << n;
    if total <= 32 { return (0..total).collect(); }
    let mut v: Vec<u32> = (0..total).filter(|s| s.count_ones() <= 2).collect();
    while v.len() < 32 { let s = r.below(total as usize) as u32; if !v.contains(&s) { v.push(s); } }
    v
}

/// One repository whose change ids contain a cluster of `m` ids agreeing on exactly the first `k`
/// digits (sub-groups on `k+1`, `k+2`), an id branching off inside the short key, an unrelated id
/// and sometimes a second commit of a cluster change; every split of the cluster's commits between
/// "in the disambiguation set" and "outside" is queried for every change id and every prefix up to
/// the reported length.
fn cluster_history(out: &mut Out, r: &mut Rng, hist_no: u64, k: usize, m: usize) {
    let test_repo = TestRepo::init();
    let mut repo: Arc<ReadonlyRepo> = test_repo.repo.clone();
    let store = repo.store().clone();
    let mut h = Hist { commits: vec![], by_id: HashMap::new(), anc: vec![], depth: vec![], counter: hist_no * 100_000 };
    h.push(store.root_commit());
    let cluster = cluster_ids(r, k, m, 16);
    let cluster_hex: Vec<String> = cluster.iter().map(|b| hexs(b)).collect();
    let mut plan: Vec<Vec<u8>> = cluster.clone();
    let d = r.range(3, 7.min(k - 1));
    plan.push(branch_at(r, &cluster[0], d));
    plan.push((0..16).map(|_| r.below(256) as u8).collect());
    if r.chance(1, 3) { plan.push(cluster[r.below(m)].clone()); }
    for i in (1..plan.len()).rev() { let j = r.below(i + 1); plan.swap(i, j); }
    // one or two transactions (index segments)
    let cut = if r.chance(1, 2) { plan.len() } else { r.range(1, plan.len() - 1) };
    let mut indexed: BTreeSet<usize> = [0].into_iter().collect();
    for part in [&plan[..cut], &plan[cut..]] {
        if part.is_empty() { continue; }
        let mut tx = repo.start_transaction();
        let tree = tx.repo().store().empty_merged_tree();
        for ch in part {
            let avail: Vec<usize> = indexed.iter().copied().collect();
            let mut ps = vec![*r.pick(&avail)];
            if r.chance(1, 4) { let c = *r.pick(&avail); if !ps.contains(&c) && c != 0 && ps[0] != 0 { ps.push(c); } }
            let parents: Vec<CommitId> = ps.iter().map(|&c| h.commits[c].id().clone()).collect();
            h.counter += 1;
            let c = tx.repo_mut().new_commit(parents, tree.clone()).set_description(format!("k{}", h.counter))
                .set_change_id(ChangeId::new(ch.clone())).write().block_on().unwrap();
            if h.by_id.contains_key(c.id()) { continue; }
            indexed.insert(h.push(c));
        }
        repo = tx.commit("cluster").block_on().unwrap();
    }
    let sizes = sizes_of(&repo);
    let Some(st) = make_state(out, &h, repo.as_ref(), sizes, "cluster", &indexed) else { return };
    out.tally("cluster-history", &format!("{k:02} shared digits, {m} ids"));
    probe_plain(out, r, &h, &st, 4);
    let n = st.pos.at.len();
    let cpos: Vec<usize> = (0..n).filter(|&p| cluster_hex.contains(&st.change_hex[p])).collect();
    let opos: Vec<usize> = (0..n).filter(|&p| !cluster_hex.contains(&st.change_hex[p])).collect();
    for split in splits(r, cpos.len()) {
        let mut d: Vec<usize> = cpos.iter().enumerate().filter(|(i, _)| split >> i & 1 == 1).map(|(_, &p)| p).collect();
        d.extend(opos.iter().copied().filter(|_| r.chance(1, 2)));
        d.sort();
        out.tally("cluster-split", &format!("{} in / {} out", split.count_ones(), cpos.len() as u32 - split.count_ones()));
        probe_dis_with(out, r, &h, &st, 2, Some(d), true);
    }
}

// ---------------------------------------------------------------------------------------------
// The `IdIndex` short-key table itself, with chosen commit ids and change ids
// ---------------------------------------------------------------------------------------------

/// `IdIndex<K, u32, 4>` over the same source table type as `IdPrefixContext`'s indexes
/// (`[(CommitId, ChangeId)]`), filled with the rows `rows` of `src`; `all` = hex of the key of every
/// row of `src` (queried whether inserted or not).
fn probe_table<K>(out: &mut Out, r: &mut Rng, kind: &str, src: &[(CommitId, ChangeId)], rows: &[usize], max_prefix: usize)
where K: ObjectId + Ord + Clone, for<'a> &'a (CommitId, ChangeId): IdIndexSourceEntry<K> {
    let key_of = |i: usize| -> K { IdIndexSourceEntry::<K>::to_key(&&src[i]) };
    let table: Vec<(CommitId, ChangeId)> = rows.iter().map(|&i| src[i].clone()).collect();
    let mut b = IdIndex::<K, u32, 4>::with_capacity(table.len());
    for (i, e) in table.iter().enumerate() { b.insert(&IdIndexSourceEntry::<K>::to_key(&e), i as u32); }
    let idx = b.build();
    let keys: Vec<String> = rows.iter().map(|&i| key_of(i).hex()).collect();
    let keys_s = show_ids(&keys);
    let distinct: BTreeSet<&String> = keys.iter().collect();
    let mut seen: BTreeSet<String> = BTreeSet::new();
    for q in 0..src.len() {
        let key = key_of(q);
        let hx = key.hex();
        if !seen.insert(format!("k{hx}")) { continue; }
        let got = guard(|| idx.lookup_exact(&*table, &key).map(|l| l.shortest_unique_prefix_len()));
        out.case(&format!("ixshort {keys_s} {hx}"), &match &got { Ok(o) => show_opt(o.map(|l| l as u64)), Err(_) => "panic".into() });
        let inside = distinct.contains(&hx);
        let same = keys.iter().filter(|x| x[..8] == hx[..8]).count();
        out.tally(&format!("table-{kind}"), &format!("{}, {} entries with its short key", if inside { "inside" } else { "outside" }, match same { 0 => "0", 1 => "1", _ => "2+" }));
        if same >= 1 { out.nontrivial(("ixshort", kind, &keys_s, &hx)); }
        // the accessor exists exactly for the keys of the table; its length is unique and minimal there
        match got {
            Ok(None) if !inside => out.oracle_ok(),
            Ok(Some(len)) if inside => {
                let others = |l: usize| distinct.iter().filter(|x| ***x != hx && x.starts_with(&hx[..l.min(hx.len())])).count();
                if len == 0 || len > hx.len() + 1 || others(len) != 0 {
                    out.oracle_fail("id-index:shortest-not-unique", format!("{kind} keys {keys_s}, key {hx}, len {len}"));
                } else if len > 1 && others(len - 1) == 0 {
                    out.oracle_fail("id-index:shortest-not-minimal", format!("{kind} keys {keys_s}, key {hx}, len {len}"));
                } else { out.oracle_ok(); }
            }
            Ok(Some(len)) => out.oracle_fail("id-index:lookup-exact-finds-absent-key", format!("{kind} keys {keys_s}, absent key {hx} → length {len}")),
            Ok(None) => out.oracle_fail("id-index:lookup-exact-misses-key", format!("{kind} keys {keys_s}, key {hx}")),
            Err(e) => out.oracle_fail("id-index:panic", format!("{kind} keys {keys_s}, key {hx}: {e}")),
        }
        let top = max_prefix.min(hx.len());
        let mut lens: Vec<usize> = (0..=top).collect();
        if top < hx.len() { lens.push(hx.len()); lens.push(r.range(top, hx.len())); }
        for l in lens {
            let ps = &hx[..l];
            if !seen.insert(format!("p{ps}")) { continue; }
            let pfx = HexPrefix::try_from_hex(ps).unwrap();
            let res = guard(|| idx.resolve_prefix_to_key(&*table, &pfx));
            let shown = match &res {
                Ok(PrefixResolution::NoMatch) => "none".to_string(),
                Ok(PrefixResolution::AmbiguousMatch) => "amb".to_string(),
                Ok(PrefixResolution::SingleMatch(k)) => format!("one:{}", k.hex()),
                Err(_) => "panic".to_string(),
            };
            out.case(&format!("ixres {keys_s} {}", pfx_str(ps)), &shown);
            let m: Vec<&&String> = distinct.iter().filter(|x| x.starts_with(ps)).collect();
            if l >= 8 || m.len() >= 2 { out.nontrivial(("ixres", kind, &keys_s, ps)); }
            let ok = match &res {
                // ("We consider an empty prefix ambiguous even if the index has a single entry.")
                _ if ps.is_empty() => matches!(res, Ok(PrefixResolution::AmbiguousMatch)),
                Ok(PrefixResolution::NoMatch) => m.is_empty(),
                Ok(PrefixResolution::AmbiguousMatch) => m.len() >= 2,
                Ok(PrefixResolution::SingleMatch(k)) => m.len() == 1 && **m[0] == k.hex(),
                Err(_) => false,
            };
            if ok { out.oracle_ok(); } else { out.oracle_fail("id-index:resolution-disagrees-with-key-set", format!("{kind} keys {keys_s}, prefix {ps} → {shown}")); }
        }
    }
}

/// source rows whose commit ids and change ids each contain a cluster agreeing on `k` digits, a key
/// branching off inside the short key and an unrelated key; with `dup`, one more row repeating a
/// cluster change id (two commits of one change)
fn table_rows(r: &mut Rng, nbytes: usize, k: usize, m: usize, dup: bool) -> (Vec<(CommitId, ChangeId)>, usize) {
    let mut cols: Vec<Vec<Vec<u8>>> = vec![];
    for _ in 0..2 {
        let mut c = cluster_ids(r, k, m, nbytes);
        if dup { let x = c[r.below(m)].clone(); c.push(x); }
        let d = r.range(1, 7.min(k.max(2) - 1));
        c.push(branch_at(r, &c[0], d));
        c.push((0..nbytes).map(|_| r.below(256) as u8).collect());
        cols.push(c);
    }
    if dup { let j = m; let fresh = (0..nbytes).map(|_| r.below(256) as u8).collect(); cols[0][j] = fresh; }
    let n_cluster = if dup { m + 1 } else { m };
    (cols[0].iter().zip(&cols[1]).map(|(a, b)| (CommitId::new(a.clone()), ChangeId::new(b.clone()))).collect(), n_cluster)
}

fn table_family(cfg: &Cfg, out: &mut Out, r: &mut Rng) {
    // systematic: (id bytes, shared digits, cluster size); every split of the cluster rows
    let mut configs: Vec<(usize, usize, usize)> = vec![(4, 3, 3), (4, 5, 3), (8, 6, 3), (8, 7, 3), (8, 8, 3), (8, 9, 3), (8, 10, 3), (8, 12, 3),
        (20, 8, 3), (20, 11, 3), (8, 8, 4), (8, 9, 4), (16, 10, 4)];
    if cfg.tier != Tier::Quick { for nb in [8, 16, 20, 32] { for k in 5..=13 { for m in 3..=5 { configs.push((nb, k, m)); } } } }
    for _ in 0..cfg.scale.min(4) {
        for &(nb, k, m) in &configs {
            let dup = r.chance(1, 3);
            let (src, nc) = table_rows(r, nb, k, m, dup);
            for split in splits(r, nc) {
                let mut rows: Vec<usize> = (0..nc).filter(|i| split >> i & 1 == 1).collect();
                rows.extend((nc..src.len()).filter(|_| r.chance(1, 2)));
                for i in (1..rows.len()).rev() { let j = r.below(i + 1); rows.swap(i, j); }
                out.tally("table-split", &format!("{} in / {} out", split.count_ones(), nc as u32 - split.count_ones()));
                probe_table::<CommitId>(out, r, "commit", &src, &rows, k + 4);
                probe_table::<ChangeId>(out, r, "change", &src, &rows, k + 4);
            }
        }
    }
    // random: cluster depth, size, id length and subset all random
    for _ in 0..cfg.n(120, 2000) {
        let nb = *r.pick(&[4usize, 5, 8, 16, 20, 32]);
        let k = r.below((2 * nb - 3).min(13) + 1);
        let m = r.range(2, 6);
        let dup = r.chance(1, 3);
        let (src, _) = table_rows(r, nb, k, m, dup);
        let den = r.range(2, 4);
        let mut rows: Vec<usize> = (0..src.len()).filter(|_| r.chance(1, den)).collect();
        for i in (1..rows.len()).rev() { let j = r.below(i + 1); rows.swap(i, j); }
        if r.chance(1, 2) { probe_table::<CommitId>(out, r, "commit", &src, &rows, k + 4); } else { probe_table::<ChangeId>(out, r, "change", &src, &rows, k + 4); }
    }
}

/// change ids that share long prefixes: all start from one base, differing at chosen digit positions
fn change_pool(r: &mut Rng) -> Vec<ChangeId> {
    let base: Vec<u8> = (0..16).map(|_| [0xab, 0xab, 0x00, 0xff][r.below(4)]).collect();
    let spots = [0usize, 1, 2, 3, 6, 7, 8, 9, 10, 15, 30, 31];
    // "deep" pools: most ids agree on the whole 4-byte short key of `IdIndex` (clusters of three and
    // more ids inside one short-key chunk, split at random by the disambiguation set)
    let deep_spots = [8usize, 9, 10, 11, 12, 15, 30, 31];
    let deep = r.chance(1, 2);
    let mut pool = BTreeSet::new();
    for _ in 0..r.range(2, 8) {
        let mut b = base.clone();
        let here: &[usize] = if deep && r.chance(4, 5) { &deep_spots } else { &spots };
        for _ in 0..r.range(1, 2) {
            let d = *r.pick(here);
            let v = r.below(16) as u8;
            b[d / 2] = if d % 2 == 0 { (b[d / 2] & 0x0f) | (v << 4) } else { (b[d / 2] & 0xf0) | v };
        }
        pool.insert(b);
    }
    pool.into_iter().map(ChangeId::new).collect()
}

#[allow(clippy::too_many_arguments)]
fn write_commits(r: &mut Rng, h: &mut Hist, mut_repo: &mut MutableRepo, avail: &mut Vec<usize>, count: usize, pool: &[ChangeId],
                 out: &mut Out) -> Vec<usize> {
    let mut new = vec![];
    let tree = mut_repo.store().empty_merged_tree();
    for _ in 0..count {
        let np = match r.below(10) { 0..=5 => 1, 6..=8 => 2, _ => 3 };
        let mut ps: Vec<usize> = vec![];
        for _ in 0..np { let c = *r.pick(avail); if !ps.contains(&c) { ps.push(c); } }
        if ps.len() > 1 { ps.retain(|&c| c != 0); }
        if ps.is_empty() { ps.push(0); }
        let parents: Vec<CommitId> = ps.iter().map(|&c| h.commits[c].id().clone()).collect();
        h.counter += 1;
        let mut b = mut_repo.new_commit(parents, tree.clone()).set_description(format!("c{}", h.counter));
        if r.chance(3, 4) { b = b.set_change_id(r.pick(pool).clone()); }
        let c = if r.chance(1, 6) && h.commits.len() > 1 {
            // search a description whose commit id shares its leading digits with an existing commit
            let target = h.commits[r.below(h.commits.len())].id().hex();
            let k = if r.chance(1, 5) { 3 } else { 2 };
            let mut det = b.detach();
            let mut found = false;
            for t in 0..(if k == 2 { 1200 } else { 8000 }) {
                det.set_description(format!("c{}-{t}", h.counter));
                let c = det.write_hidden().block_on().unwrap();
                if c.id().hex()[..k] == target[..k] && !h.by_id.contains_key(c.id()) { found = true; break; }
            }
            out.tally("searched-commit-id", if found { if k == 2 { "2 digits" } else { "3 digits" } } else { "not found" });
            det.write(mut_repo).block_on().unwrap()
        } else {
            b.write().block_on().unwrap()
        };
        if h.by_id.contains_key(c.id()) { continue; }
        let i = h.push(c);
        avail.push(i);
        new.push(i);
    }
    new
}

fn sizes_of(repo: &ReadonlyRepo) -> Vec<u64> {
    let ro: &DefaultReadonlyIndex = repo.readonly_index().downcast_ref().unwrap();
    ro.stats().commit_levels.iter().map(|l| l.num_commits as u64).collect()
}

fn one_history(cfg: &Cfg, out: &mut Out, r: &mut Rng, hist_no: u64) {
    let test_repo = TestRepo::init();
    let settings = testutils::user_settings();
    let mut repo: Arc<ReadonlyRepo> = test_repo.repo.clone();
    let store = repo.store().clone();
    let mut h = Hist { commits: vec![], by_id: HashMap::new(), anc: vec![], depth: vec![], counter: hist_no * 100_000 };
    h.push(store.root_commit());
    let pool = change_pool(r);
    let rounds = r.range(1, if cfg.tier == Tier::Quick { 5 } else { 8 });
    let budget = if cfg.tier == Tier::Quick { 8 } else { 16 };
    let mut size = r.range(2, 14);
    let mut indexed: BTreeSet<usize> = [0].into_iter().collect();
    let mut bookmark_no = 0;
    for round in 0..rounds {
        let concurrent = if round > 0 && r.chance(1, 5) { 2 } else { 1 };
        let mut after = indexed.clone();
        let mut txs = vec![];
        for _ in 0..concurrent {
            let mut tx = repo.start_transaction();
            let mut avail: Vec<usize> = indexed.iter().copied().collect();
            let new = write_commits(r, &mut h, tx.repo_mut(), &mut avail, size, &pool, out);
            after.extend(new.iter().copied());
            // hide some heads (they stay indexed): hidden commits sharing change ids with visible ones
            // (not in concurrent rounds: hiding a commit that the other operation builds on makes the
            // merge rebase those descendants, i.e. create commits this harness did not write)
            for &i in &new {
                if concurrent == 1 && r.chance(1, 4) && tx.repo().view().heads().contains(h.commits[i].id()) && tx.repo().view().heads().len() > 1 {
                    tx.repo_mut().remove_head(h.commits[i].id());
                    out.tally("hidden-heads", "removed");
                }
            }
            // bookmarks named like prefixes of ids (hex for commit ids, reverse hex for change ids)
            if r.chance(1, 2) && !new.is_empty() {
                let c = &h.commits[*r.pick(&new)];
                let l = r.range(1, 4);
                let name = if r.chance(1, 2) { c.id().hex()[..l].to_string() } else { hex_to_rev(&c.change_id().hex()[..l]) };
                bookmark_no += 1;
                let name = if r.chance(1, 6) { format!("b{bookmark_no}") } else { name };
                tx.repo_mut().set_local_bookmark_target(RefName::new(&name), RefTarget::normal(c.id().clone()));
                out.tally("prefix-bookmarks", "set");
            }
            if r.chance(1, 2) {
                let mut in_tx = indexed.clone();
                in_tx.extend(new.iter().copied());
                let mut sizes = sizes_of(&repo);
                sizes.push(new.len() as u64);
                if let Some(st) = make_state(out, &h, tx.repo(), sizes, "mutable", &in_tx) {
                    probe_plain(out, r, &h, &st, budget / 2);
                    probe_dis(out, r, &h, &st, budget / 2);
                }
            }
            txs.push(tx);
        }
        if concurrent == 1 {
            repo = txs.pop().unwrap().commit("t").block_on().unwrap();
        } else {
            for tx in txs { tx.commit("concurrent").block_on().unwrap(); }
            repo = repo.reload_at_head().block_on().unwrap();
            out.tally("merged-concurrent-ops", &concurrent.to_string());
        }
        indexed = after;
        let sizes = sizes_of(&repo);
        out.tally("segments", &sizes.len().to_string());
        if let Some(st) = make_state(out, &h, repo.as_ref(), sizes, "readonly", &indexed) {
            out.tally("hidden-commits", &st.visible.iter().filter(|v| !**v).count().min(5).to_string());
            probe_plain(out, r, &h, &st, budget);
            probe_dis(out, r, &h, &st, budget);
        }
        size = match r.below(4) { 0 => r.range(1, 10), _ => (size / 2).max(1) };
    }
    let fresh = test_repo.env.load_repo_at_head(&settings, test_repo.repo_path());
    let sizes = sizes_of(&fresh);
    if let Some(st) = make_state(out, &h, fresh.as_ref(), sizes, "reloaded-from-disk", &indexed) {
        probe_plain(out, r, &h, &st, budget * 2);
        probe_dis(out, r, &h, &st, budget);
        probe_dis(out, r, &h, &st, budget);
    }
    let _ = BTreeMap::<u8, u8>::new();
}

pub fn run(cfg: &Cfg, out: &mut Out) {
    let mut r = cfg.rng(20);
    let n = cfg.n(30, 300);
    for hist_no in 0..n {
        one_history(cfg, out, &mut r, hist_no);
    }
    // clusters of change ids agreeing on 6..13 digits × every in/out split of the disambiguation set
    let mut rc = cfg.rng(2020);
    let mut hist_no = n;
    let ks: &[usize] = if cfg.tier == Tier::Quick { &[7, 8, 9, 10, 11, 12] } else { &[6, 7, 8, 9, 10, 11, 12, 13] };
    let reps = if cfg.tier == Tier::Quick { 1 } else { 4 } * cfg.scale.min(4);
    for _ in 0..reps {
        for &k in ks {
            for m in [3usize, 4, 5] {
                if cfg.tier == Tier::Quick && m == 5 && k % 2 == 1 { continue; }
                cluster_history(out, &mut rc, hist_no, k, m);
                hist_no += 1;
            }
        }
    }
    // the short-key table itself with chosen commit ids / change ids
    let mut rt = cfg.rng(2021);
    table_family(cfg, out, &mut rt);
    out.note(format!("{n} histories; change ids from a pool with shared prefixes (differences before/at/after digit 8), searched commit-id prefixes, hidden heads, prefix-named bookmarks, random disambiguation sets; {} cluster histories (ids agreeing on {ks:?} digits, every in/out split); IdIndex tables with chosen commit/change ids", hist_no - n));
}
