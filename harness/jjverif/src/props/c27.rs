//! C27 — sparse patterns change the disk, never the commit.
//! Real `TestWorkspace`s: a random tree is checked out, then random sequences of
//! `set_sparse_patterns` interleaved with random edits and snapshots.  Cases: every real
//! `set_sparse_patterns` (`sparse`: disk listing, file-state keys, added/removed/skipped counters,
//! hook trace) and every `snapshot` (`snap`).
//! Oracle (property text): files written = tree paths entering the patterns, files removed = tree
//! paths leaving them, everything else on disk unchanged, tree ids unchanged; a snapshot never
//! drops a path outside the patterns.
use crate::rt::*;
use super::c23::wc_common::*;
use super::c23::{gen_base_ign, gen_sparse, gen_tree, oracle_snapshot, random_edit};

/// Path alphabet of the family "sibling names that are string prefixes of each other" (strengthened
/// after seed C27): `d`/`dd`/`ddd`/`d.e`, `f`/`ff`/`f0` at the top, `h/i`/`h/ii`/`h/i.j` and `d/e`/`d/ee` one
/// level down.  A sparse prefix covers whole path components: `dd/x` is not below `d`.
pub const SIB_PATHS: &[&str] = &["d/x", "d/y", "dd/x", "dd/y", "ddd", "d.e/x", "h/i/a", "h/ii/a", "h/ii/b", "h/i.j", "f", "ff",
                                 "f0/g", "d/e/z", "d/ee/z", "d/e"];
pub const SIB_SPARSE: &[&str] = &["d", "dd", "ddd", "d.e", "h", "h/i", "h/ii", "h/i.j", "f", "ff", "f0", "d/e", "d/ee"];
/// (shorter name, longer sibling name)
pub const SIB_PAIRS: &[(&str, &str)] = &[("d", "dd"), ("dd", "ddd"), ("d", "d.e"), ("f", "ff"), ("f", "f0"), ("h/i", "h/ii"),
                                         ("h/i", "h/i.j"), ("d/e", "d/ee")];

/// where the pattern sets of a workspace come from
enum Pats<'a> {
    /// independent random sets (the original stream)
    Random,
    /// sets over the sibling alphabet: half of the time the previous set with one or two prefixes toggled
    Siblings,
    /// a fixed sequence
    Script(&'a [&'a [&'a str]]),
}

fn next_pats(r: &mut Rng, src: &Pats, step: usize, prev: &[P]) -> Vec<P> {
    match src {
        Pats::Random => { let mut v = gen_sparse(r); if r.chance(1, 10) { v.clear(); } v }
        Pats::Script(seq) => seq[step % seq.len()].iter().map(|s| p(s)).collect(),
        Pats::Siblings => {
            let mut v: Vec<P> = if r.chance(1, 2) {
                let mut v: Vec<P> = prev.iter().filter(|q| !q.is_empty()).cloned().collect();
                for _ in 0..r.range(1, 2) {
                    let q = p(super::c23::pick_s(r, SIB_SPARSE));
                    if let Some(i) = v.iter().position(|x| *x == q) { v.remove(i); } else { v.push(q); }
                }
                v
            } else if r.chance(1, 6) { vec![vec![]] } else {
                (0..r.range(1, 4)).map(|_| p(super::c23::pick_s(r, SIB_SPARSE))).collect()
            };
            v.sort();
            v.dedup();
            v
        }
    }
}

pub fn run(cfg: &Cfg, out: &mut Out) {
    // family "sibling names that are string prefixes of each other", smallest first: for every pair
    // (short, long) of the alphabet the long name enters / leaves while the short one stays, and back
    let mut r = cfg.rng(2701);
    for (short, long) in SIB_PAIRS {
        let mut gt = GenTree::new();
        for q in SIB_PATHS.iter().map(|s| p(s)).filter(|q| is_prefix(&p(short), q) || is_prefix(&p(long), q)) {
            if !gt.keys().any(|k| is_prefix(k, &q) || is_prefix(&q, k)) { gt.insert(q, GenV::File(b"a\n".to_vec(), false)); }
        }
        let script: &[&[&str]] = &[&[short], &[short, long], &[short], &[long], &[long, short], &[long], &[""], &[short, long]];
        stream(out, &mut r, 1, &|_| gt.clone(), &Pats::Script(script), 8, false);
        out.tally("family", "sibling-prefix-names:scripted");
    }
    let n = cfg.n(70, 500);
    stream(out, &mut r, n, &|r| { let cf = r.chance(1, 4); super::c23::gen_tree_over(r, SIB_PATHS, cf) }, &Pats::Siblings, 7, true);
    let mut r = cfg.rng(27);
    let workspaces = cfg.n(200, 1500);
    stream(out, &mut r, workspaces, &|r| { let cf = r.chance(1, 3); gen_tree(r, cf) }, &Pats::Random, 6, true);
    for m in PANICS.lock().unwrap().iter() { out.note(format!("panic: {m}")); }
    out.note(format!("{workspaces} temp workspaces × 6 pattern changes interleaved with edits and snapshots; {} scripted + {n} random workspaces over sibling names that are string prefixes of each other", SIB_PAIRS.len()));
}

fn stream(out: &mut Out, r: &mut Rng, workspaces: u64, tree_gen: &dyn Fn(&mut Rng) -> GenTree, src: &Pats, steps: usize, edit: bool) {
    for _ in 0..workspaces {
        let mut env = Env::new();
        let tree = env.build_tree(&tree_gen(r));
        let first = env.check_out(out, &tree);
        if first.result.is_err() { ofail(out, "checkout:error", "initial checkout failed".into()); continue; }
        for step in 0..steps {
            let pats = next_pats(r, src, step, &env.sparse());
            if !matches!(src, Pats::Random) {
                // the shape the family is after: a prefix enters or leaves while a sibling whose name is a
                // string prefix of its name (or the other way round) is in the other pattern set
                let old = env.sparse();
                let sib = |a: &P, b: &P| !is_prefix(a, b) && !is_prefix(b, a) && { let (x, y) = (a.join("/"), b.join("/")); x.starts_with(&y) || y.starts_with(&x) };
                if pats.iter().any(|a| !in_sparse(&old, a) && old.iter().any(|b| sib(a, b))) { out.tally("shape", "enters-next-to-string-prefix-sibling"); }
                if old.iter().any(|a| !in_sparse(&pats, a) && pats.iter().any(|b| sib(a, b))) { out.tally("shape", "leaves-next-to-string-prefix-sibling"); }
            }
            let ids_before = env.current_tree().tree_ids().clone();
            let res = env.set_sparse(out, &pats);
            let pre = &res.pre;
            let (disk, _states, stats) = match &res.result {
                Ok(x) => x,
                Err(e) => { ofail(out, &format!("sparse:{e}"), format!("set_sparse_patterns({}) failed on disk {} tree {}", show_seq(&pats), show_disk(&pre.disk), show_tree(&pre.tree))); break; }
            };
            let ctx = || format!("tree={} sparse {} -> {} pre-disk={} -> disk={} stats={:?}", show_tree(&pre.tree), show_seq(&pre.sparse), show_seq(&pats),
                                 show_disk(&pre.disk), show_disk(disk), stats);
            let mut bad: Option<(&'static str, String)> = None;
            if env.current_tree().tree_ids() != &ids_before {
                bad.get_or_insert(("sparse:tree-changed", format!("working-copy tree changed; {}", ctx())));
            }
            let (mut entering, mut leaving) = (0, 0);
            for (q, v) in &pre.tree {
                let (was, is) = (in_sparse(&pre.sparse, q), in_sparse(&pats, q));
                if is && !was {
                    entering += 1;
                    let obstructed = pre.disk.contains_key(q) || (1..q.len()).any(|n| matches!(pre.disk.get(&q[..n].to_vec()), Some(Ent::File(..)) | Some(Ent::Link(_))));
                    if !obstructed && disk.get(q) != Some(&v.on_disk()) {
                        bad.get_or_insert(("sparse:entering-path-not-written", format!("{} enters the patterns but is {:?} on disk; {}", show_p(q), disk.get(q).map(show_ent), ctx())));
                    }
                    if obstructed && disk.get(q) != pre.disk.get(q) && pre.disk.get(q).is_some_and(|e| *e != Ent::Dir) {
                        bad.get_or_insert(("sparse:untracked-overwritten", format!("{} was occupied and changed; {}", show_p(q), ctx())));
                    }
                } else if was && !is {
                    leaving += 1;
                    if matches!(disk.get(q), Some(Ent::File(..)) | Some(Ent::Link(_))) && matches!(pre.disk.get(q), Some(Ent::File(..)) | Some(Ent::Link(_))) {
                        bad.get_or_insert(("sparse:leaving-path-not-removed", format!("{} leaves the patterns but is still on disk; {}", show_p(q), ctx())));
                    }
                }
            }
            // everything that is not a tree path crossing the pattern boundary stays as it was
            for (q, e) in leaves(&pre.disk) {
                let crossing = pre.tree.contains_key(&q) && (in_sparse(&pre.sparse, &q) != in_sparse(&pats, &q));
                if !crossing && disk.get(&q) != Some(&e) {
                    bad.get_or_insert(("sparse:unrelated-path-changed", format!("{} changed; {}", show_p(&q), ctx())));
                }
            }
            for (q, e) in leaves(disk) {
                let crossing = pre.tree.contains_key(&q) && (in_sparse(&pre.sparse, &q) != in_sparse(&pats, &q));
                if !crossing && pre.disk.get(&q) != Some(&e) {
                    bad.get_or_insert(("sparse:unrelated-path-changed", format!("{} appeared; {}", show_p(&q), ctx())));
                }
            }
            if stats.added_files as usize != entering || stats.removed_files as usize != leaving || stats.updated_files != 0 {
                bad.get_or_insert(("sparse:wrong-counts", format!("entering={entering} leaving={leaving}; {}", ctx())));
            }
            match bad { None => out.oracle_ok(), Some((sig, d)) => ofail(out, sig, d) }
            out.tally("change", if entering > 0 && leaving > 0 { "both" } else if entering > 0 { "adds" } else if leaving > 0 { "removes" } else { "none" });
            if entering + leaving > 0 { out.nontrivial((show_tree(&pre.tree), show_seq(&pre.sparse), show_seq(&pats), show_disk(&pre.disk))); }
            // edits + snapshot under the new patterns: outside paths must stay in the tree.
            // (Like the CLI, always snapshot before the next pattern change when the disk was edited
            // or a path was skipped: `set_sparse_patterns` asserts that removals are never skipped.)
            let edits = if edit && r.chance(2, 3) { r.range(0, 3) } else { 0 };
            for _ in 0..edits { out.tally("edit", random_edit(&env, r)); }
            if edits > 0 || stats.skipped_files > 0 || (edit && r.chance(1, 3)) {
                let base_ign = if r.chance(1, 4) { gen_base_ign(r) } else { vec![] };
                let snap = env.snapshot(out, &base_ign);
                let ign = env.ignores(&base_ign, &snap.pre.disk);
                oracle_snapshot(out, &snap, &ign);
                if snap.result.is_err() { break; }
            }
        }
    }
}
