//! C27 — sparse patterns change the disk, never the commit.
//! Real `TestWorkspace`s: a random tree is checked out, then random sequences of
//! `set_sparse_patterns` interleaved with random edits and snapshots.  Cases: every real
//! `set_sparse_patterns` (`sparse`: disk listing, file-state keys, added/removed/skipped counters,
//! hook trace) and every `snapshot` (`snap`).
//! Oracle (property text): files written = tree paths entering the patterns, files removed = tree
//! paths leaving them, everything else on disk unchanged, tree ids unchanged; a snapshot never
//! drops a path outside the patterns.
use crate::rt::*;
use super::c23::wc_common::*;
use super::c23::{gen_base_ign, gen_sparse, gen_tree, oracle_snapshot, random_edit};

pub fn run(cfg: &Cfg, out: &mut Out) {
    let mut r = cfg.rng(27);
    let workspaces = cfg.n(200, 1500);
    for _ in 0..workspaces {
        let mut env = Env::new();
        let cf = r.chance(1, 3);
        let tree = env.build_tree(&gen_tree(&mut r, cf));
        let first = env.check_out(out, &tree);
        if first.result.is_err() { ofail(out, "checkout:error", "initial checkout failed".into()); continue; }
        for _ in 0..6 {
            let pats = { let mut v = gen_sparse(&mut r); if r.chance(1, 10) { v.clear(); } v };
            let ids_before = env.current_tree().tree_ids().clone();
            let res = env.set_sparse(out, &pats);
            let pre = &res.pre;
            let (disk, _states, stats) = match &res.result {
                Ok(x) => x,
                Err(e) => { ofail(out, &format!("sparse:{e}"), format!("set_sparse_patterns({}) failed on disk {} tree {}", show_seq(&pats), show_disk(&pre.disk), show_tree(&pre.tree))); break; }
            };
            let ctx = || format!("tree={} sparse {} -> {} pre-disk={} -> disk={} stats={:?}", show_tree(&pre.tree), show_seq(&pre.sparse), show_seq(&pats),
                                 show_disk(&pre.disk), show_disk(disk), stats);
            let mut bad: Option<(&'static str, String)> = None;
            if env.current_tree().tree_ids() != &ids_before {
                bad.get_or_insert(("sparse:tree-changed", format!("working-copy tree changed; {}", ctx())));
            }
            let (mut entering, mut leaving) = (0, 0);
            for (q, v) in &pre.tree {
                let (was, is) = (in_sparse(&pre.sparse, q), in_sparse(&pats, q));
                if is && !was {
                    entering += 1;
                    let obstructed = pre.disk.contains_key(q) || (1..q.len()).any(|n| matches!(pre.disk.get(&q[..n].to_vec()), Some(Ent::File(..)) | Some(Ent::Link(_))));
                    if !obstructed && disk.get(q) != Some(&v.on_disk()) {
                        bad.get_or_insert(("sparse:entering-path-not-written", format!("{} enters the patterns but is {:?} on disk; {}", show_p(q), disk.get(q).map(show_ent), ctx())));
                    }
                    if obstructed && disk.get(q) != pre.disk.get(q) && pre.disk.get(q).is_some_and(|e| *e != Ent::Dir) {
                        bad.get_or_insert(("sparse:untracked-overwritten", format!("{} was occupied and changed; {}", show_p(q), ctx())));
                    }
                } else if was && !is {
                    leaving += 1;
                    if matches!(disk.get(q), Some(Ent::File(..)) | Some(Ent::Link(_))) && matches!(pre.disk.get(q), Some(Ent::File(..)) | Some(Ent::Link(_))) {
                        bad.get_or_insert(("sparse:leaving-path-not-removed", format!("{} leaves the patterns but is still on disk; {}", show_p(q), ctx())));
                    }
                }
            }
            // everything that is not a tree path crossing the pattern boundary stays as it was
            for (q, e) in leaves(&pre.disk) {
                let crossing = pre.tree.contains_key(&q) && (in_sparse(&pre.sparse, &q) != in_sparse(&pats, &q));
                if !crossing && disk.get(&q) != Some(&e) {
                    bad.get_or_insert(("sparse:unrelated-path-changed", format!("{} changed; {}", show_p(&q), ctx())));
                }
            }
            for (q, e) in leaves(disk) {
                let crossing = pre.tree.contains_key(&q) && (in_sparse(&pre.sparse, &q) != in_sparse(&pats, &q));
                if !crossing && pre.disk.get(&q) != Some(&e) {
                    bad.get_or_insert(("sparse:unrelated-path-changed", format!("{} appeared; {}", show_p(&q), ctx())));
                }
            }
            if stats.added_files as usize != entering || stats.removed_files as usize != leaving || stats.updated_files != 0 {
                bad.get_or_insert(("sparse:wrong-counts", format!("entering={entering} leaving={leaving}; {}", ctx())));
            }
            match bad { None => out.oracle_ok(), Some((sig, d)) => ofail(out, sig, d) }
            out.tally("change", if entering > 0 && leaving > 0 { "both" } else if entering > 0 { "adds" } else if leaving > 0 { "removes" } else { "none" });
            if entering + leaving > 0 { out.nontrivial((show_tree(&pre.tree), show_seq(&pre.sparse), show_seq(&pats), show_disk(&pre.disk))); }
            // edits + snapshot under the new patterns: outside paths must stay in the tree.
            // (Like the CLI, always snapshot before the next pattern change when the disk was edited
            // or a path was skipped: `set_sparse_patterns` asserts that removals are never skipped.)
            let edits = if r.chance(2, 3) { r.range(0, 3) } else { 0 };
            for _ in 0..edits { out.tally("edit", random_edit(&env, &mut r)); }
            if edits > 0 || stats.skipped_files > 0 || r.chance(1, 3) {
                let base_ign = if r.chance(1, 4) { gen_base_ign(&mut r) } else { vec![] };
                let snap = env.snapshot(out, &base_ign);
                let ign = env.ignores(&base_ign, &snap.pre.disk);
                oracle_snapshot(out, &snap, &ign);
                if snap.result.is_err() { break; }
            }
        }
    }
    for m in PANICS.lock().unwrap().iter() { out.note(format!("panic: {m}")); }
    out.note(format!("{workspaces} temp workspaces × 6 pattern changes interleaved with edits and snapshots"));
}
