//! C01 — simplify / flatten / update_from_simplified preserve the signed multiset.
use crate::rt::*;
use jj_lib::merge::Merge;
use std::collections::BTreeMap;

fn count(vs: &[u64]) -> BTreeMap<u64, i64> {
    let mut c: BTreeMap<u64, i64> = BTreeMap::new();
    for (i, v) in vs.iter().enumerate() { *c.entry(*v).or_default() += if i % 2 == 0 { 1 } else { -1 }; }
    c.retain(|_, n| *n != 0);
    c
}

fn simplify_case(out: &mut Out, vs: &[u64]) {
    let m = Merge::from_vec(vs.to_vec());
    let s = match guard(|| m.simplify()) {
        Ok(s) => s,
        Err(e) => { out.case(&format!("simplify {}", show_list(vs)), "panic"); out.oracle_fail("simplify:panic", format!("{vs:?}: {e}")); return; }
    };
    let sv: Vec<u64> = s.iter().copied().collect();
    out.case(&format!("simplify {}", show_list(vs)), &show_list(&sv));
    out.tally("simplify.arity", &vs.len().to_string());
    out.tally("simplify.removed_pairs", &((vs.len() - sv.len()) / 2).to_string());
    if sv.len() < vs.len() && sv.len() > 1 { out.nontrivial(("s", vs.to_vec())); }
    // oracle: signed counts unchanged; no value both add and remove; idempotent; odd
    if count(&sv) != count(vs) { out.oracle_fail("simplify:count-changed", format!("{vs:?} -> {sv:?}")); } else { out.oracle_ok(); }
    let adds: Vec<u64> = s.adds().copied().collect();
    if s.removes().any(|r| adds.contains(r)) { out.oracle_fail("simplify:not-disjoint", format!("{vs:?} -> {sv:?}")); } else { out.oracle_ok(); }
    if s.simplify() != s { out.oracle_fail("simplify:not-idempotent", format!("{vs:?} -> {sv:?}")); } else { out.oracle_ok(); }
}

fn update_case(out: &mut Out, r: &mut Rng, vs: &[u64]) {
    let m = Merge::from_vec(vs.to_vec());
    let s = m.simplify();
    let n = s.iter().count();
    // an edit of the simplified form: fresh values 100.. on a random subset of positions
    let edited: Vec<u64> = s.iter().enumerate().map(|(i, v)| if r.chance(1, 2) { 100 + i as u64 } else { *v }).collect();
    let res = guard(|| m.clone().update_from_simplified(Merge::from_vec(edited.clone())));
    let req = format!("update {} {}", show_list(vs), show_list(&edited));
    match res {
        Err(e) => { out.case(&req, "panic"); out.oracle_fail("update:panic", format!("{vs:?} {edited:?}: {e}")); }
        Ok(u) => {
            let uv: Vec<u64> = u.iter().copied().collect();
            out.case(&req, &show_list(&uv));
            if n < vs.len() { out.nontrivial(("u", vs.to_vec(), edited.clone())); }
            // oracle: same arity; positions that changed carry exactly the edited values; unchanged elsewhere;
            // re-simplifying gives the edited simplified form when the edit used fresh values
            let mut ok = uv.len() == vs.len();
            let changed: Vec<usize> = (0..vs.len().min(uv.len())).filter(|i| uv[*i] != vs[*i]).collect();
            let n_edits = edited.iter().zip(s.iter()).filter(|(a, b)| a != b).count();
            ok &= changed.len() == n_edits && changed.iter().all(|i| uv[*i] >= 100);
            // parity: adds edited land on adds
            for i in &changed { let k = (uv[*i] - 100) as usize; ok &= k % 2 == i % 2; }
            if ok { out.oracle_ok() } else { out.oracle_fail("update:lands-off-surviving-positions", format!("{vs:?} + {edited:?} -> {uv:?}")); }
            let all_fresh = edited.iter().all(|v| *v >= 100);
            if all_fresh {
                if u.simplify().iter().copied().collect::<Vec<_>>() == edited { out.oracle_ok() } else { out.oracle_fail("update:resimplify-differs", format!("{vs:?} + {edited:?} -> {uv:?}")); }
            }
        }
    }
}

fn flatten_case(out: &mut Out, mm: &[Vec<u64>]) {
    let outer: Merge<Merge<u64>> = Merge::from_vec(mm.iter().map(|t| Merge::from_vec(t.clone())).collect::<Vec<_>>());
    let req = format!("flatten {}", mm.iter().map(|t| show_list(t)).collect::<Vec<_>>().join(";"));
    match guard(|| outer.flatten()) {
        Err(e) => { out.case(&req, "panic"); out.oracle_fail("flatten:panic", format!("{mm:?}: {e}")); }
        Ok(f) => {
            let fv: Vec<u64> = f.iter().copied().collect();
            out.case(&req, &show_list(&fv));
            if mm.len() >= 3 && mm.iter().any(|t| t.len() >= 3) { out.nontrivial(("f", mm.to_vec())); }
            out.tally("flatten.outer_arity", &mm.len().to_string());
            let mut want: BTreeMap<u64, i64> = BTreeMap::new();
            for (i, t) in mm.iter().enumerate() {
                for (j, v) in t.iter().enumerate() {
                    let s = if (i + j) % 2 == 0 { 1 } else { -1 };
                    *want.entry(*v).or_default() += s;
                }
            }
            want.retain(|_, n| *n != 0);
            if want == count(&fv) && fv.len() % 2 == 1 { out.oracle_ok() } else { out.oracle_fail("flatten:count-changed", format!("{mm:?} -> {fv:?}")); }
        }
    }
}

pub fn run(cfg: &Cfg, out: &mut Out) {
    // exhaustive part: every conflict up to 9 terms over 3 symbols and up to 7 terms over 4 symbols
    // (thorough: 11 / 9).  Rare cancellation orders (a later side pulled forward, then skipped) first
    // exist at 9 terms, so stopping at 5 or 7 terms would leave them to chance.
    let (max3, max4) = if cfg.tier == Tier::Quick { (9, 7) } else { (11, 9) };
    for len in (1..=max3).step_by(2) { all_seqs(len, 3, |vs| simplify_case(out, vs)); }
    for len in (3..=max4).step_by(2) { all_seqs(len, 4, |vs| if vs.contains(&3) { simplify_case(out, vs) }); }
    out.set_exhaustive(true);
    out.note(format!("exhaustive: simplify on all odd arities ≤ {max3} over 3 symbols and ≤ {max4} over 4 symbols; random arity ≤ 15 over 2–5 symbols; flatten depth 2 with inner arity ≤ 5; update_from_simplified with fresh-value edits"));
    let mut r = cfg.rng(1);
    for _ in 0..cfg.n(12_000, 300_000) {
        let len = 2 * r.range(0, 7) + 1;
        let k = r.range(2, 5);
        let vs: Vec<u64> = (0..len).map(|_| r.below(k) as u64).collect();
        simplify_case(out, &vs);
        update_case(out, &mut r, &vs);
        let outer = 2 * r.range(0, 3) + 1;
        let mm: Vec<Vec<u64>> = (0..outer).map(|_| { let l = 2 * r.range(0, 2) + 1; (0..l).map(|_| r.below(k + 1) as u64).collect() }).collect();
        flatten_case(out, &mm);
    }
}
