//! C34 — Git import and export converge without dropping updates.
//!
//! A jj repo on the Git backend (`TestRepoBackend::Git`, i.e. the backing Git repo is the
//! "colocated" one).  A long random history of jj bookmark create/move/delete
//! (`set_local_bookmark_target`), raw Git ref writes (gix, `refs/heads/*` and
//! `refs/remotes/origin/*`), track/untrack, `git::import_refs`, `git::import_some_refs`,
//! `git::export_refs` is cut into segments; each segment is one case: the request carries the
//! observed state at the segment start plus the ops, the answer is the state after every
//! import/export and at the end (view: local bookmarks, remote bookmarks, git_refs; Git: refs).
//!
//! Oracle (from the property text, independent of the model), evaluated on the observed states:
//!  * converge: after `import; export` every non-conflicted local bookmark (not on the root commit)
//!    equals the Git branch and the `@git` record; a further import changes nothing;
//!  * one-sided: from a synced bookmark, a change made only in jj is written by export, a change
//!    made only in Git is adopted by import;
//!  * two-sided: changed differently on both sides => import makes the bookmark a conflict holding
//!    both values (or, when one value descends from the other, that descendant); export leaves a
//!    conflicted bookmark's Git branch alone;
//!  * never-overwrite: export does not change a Git ref whose value differs from jj's git_refs record.
#[path = "gitsync_common.rs"]
mod common;
use crate::rt::*;
use common::*;
use jj_lib::git::{self, FailedRefExportReason, GitImportOptions};
use jj_lib::op_store::RefTarget;
use jj_lib::ref_name::{RefName, RemoteName, RemoteRefSymbol};
use jj_lib::repo::{ReadonlyRepo, Repo as _};
use jj_lib::str_util::StringMatcher;
use pollster::FutureExt as _;
use std::collections::HashMap;
use std::sync::Arc;
use testutils::{TestRepo, TestRepoBackend, write_random_commit_with_parents};

struct Env {
    _test_repo: TestRepo,
    repo: Arc<ReadonlyRepo>,
    git: gix::Repository,
    pool: Pool,
    auto: bool,
    nn: usize,
}

fn new_env(r: &mut Rng, nn: usize, nc: usize) -> Env {
    let test_repo = TestRepo::init_with_backend(TestRepoBackend::Git);
    let repo = test_repo.repo.clone();
    let root = repo.store().root_commit();
    let mut pool = Pool::new(root.id().clone());
    let mut commits = vec![root];
    let mut tx = repo.start_transaction();
    for i in 1..=nc {
        let p1 = if r.chance(1, 2) { i - 1 } else { r.below(i) };
        let mut ps = vec![p1];
        if p1 != 0 && i > 2 && r.chance(1, 5) {
            let p2 = r.range(1, i - 1);
            if p2 != p1 { ps.push(p2); }
        }
        let parents: Vec<&jj_lib::commit::Commit> = ps.iter().map(|&p| &commits[p]).collect();
        let c = write_random_commit_with_parents(tx.repo_mut(), &parents);
        pool.add(c.id().clone(), ps);
        commits.push(c);
    }
    let repo = tx.commit("pool").block_on().unwrap();
    let git = git::get_git_repo(repo.store()).unwrap();
    Env { _test_repo: test_repo, repo, git, pool, auto: r.chance(1, 2), nn }
}

fn import_options(auto: bool) -> GitImportOptions {
    let mut m = HashMap::new();
    if auto { m.insert("origin".into(), StringMatcher::all()); }
    GitImportOptions { abandon_unreachable_commits: false, record_synthetic_predecessors: false, remote_auto_track_bookmarks: m }
}

fn reason(r: &FailedRefExportReason) -> &'static str {
    match r {
        FailedRefExportReason::InvalidGitName => "invalid-name",
        FailedRefExportReason::ConflictedOldState => "conflicted-old",
        FailedRefExportReason::OnRootCommit => "root",
        FailedRefExportReason::DeletedInJjModifiedInGit => "deleted-modified",
        FailedRefExportReason::AddedInJjAddedInGit => "added-added",
        FailedRefExportReason::ModifiedInJjDeletedInGit => "modified-deleted",
        FailedRefExportReason::FailedToDelete(_) => "failed-to-delete",
        FailedRefExportReason::FailedToSet(_) => "failed-to-set",
    }
}

#[derive(Clone, Debug)]
enum Op { Set(usize, Option<usize>), Git((usize, usize), Option<usize>), Track((usize, usize)), Untrack((usize, usize)), Import, ImportSome(usize), Export }

impl Op {
    fn show(&self) -> String {
        let o = |c: &Option<usize>| c.map(|x| x.to_string()).unwrap_or("x".into());
        match self {
            Op::Set(n, c) => format!("set:{n}:{}", o(c)),
            Op::Git((n, r), c) => format!("git:{n}@{r}:{}", o(c)),
            Op::Track((n, r)) => format!("track:{n}@{r}"),
            Op::Untrack((n, r)) => format!("untrack:{n}@{r}"),
            Op::Import => "import".into(),
            Op::ImportSome(r) => format!("importsome:{r}"),
            Op::Export => "export".into(),
        }
    }
}

fn gen_op(r: &mut Rng, nn: usize, nc: usize, prev: Option<&Op>) -> Op {
    // after an import, an export is likely (the property's import-then-export round)
    if matches!(prev, Some(Op::Import)) && r.chance(1, 2) { return Op::Export; }
    let n = r.below(nn);
    // commit choice: mostly pool commits, sometimes deletion, rarely the root commit (jj side only)
    let c = |r: &mut Rng, root_ok: bool| -> Option<usize> {
        let x = r.below(20);
        if x < 4 { None } else if x == 4 && root_ok { Some(0) } else { Some(r.range(1, nc)) }
    };
    match r.below(100) {
        0..=29 => Op::Set(n, c(r, true)),
        30..=54 => Op::Git((n, 0), c(r, false)),
        55..=62 => Op::Git((n, 1), c(r, false)),
        63..=66 => Op::Track((n, 1)),
        67..=69 => Op::Untrack((n, 1)),
        70..=82 => Op::Import,
        83..=85 => Op::ImportSome(r.below(2)),
        _ => Op::Export,
    }
}

/// per-name oracle bookkeeping: value at the last moment the name was fully in sync, valid until
/// the next import/export
#[derive(Clone, Default)]
struct Track { base: Option<Vec<Option<usize>>>, origin_touched: bool }

fn in_sync(s: &Snap, g: &[((usize, usize), usize)], n: usize) -> bool {
    let l = s.local(n);
    let head_ok = l.len() == 1 && l == vec![git_get(g, (n, 0))] && s.remote((n, 0)).0 == l && s.git_ref((n, 0)) == l;
    let o = vec![git_get(g, (n, 1))];
    head_ok && s.remote((n, 1)).0 == o && s.git_ref((n, 1)) == o
}

fn adds(t: &[Option<usize>]) -> Vec<Option<usize>> { t.iter().step_by(2).cloned().collect() }

fn run_segment(env: &mut Env, out: &mut Out, r: &mut Rng, tracks: &mut Vec<Track>, len: usize) {
    let nn = env.nn;
    let nc = env.pool.len() - 1;
    let snap0 = Snap::of(&env.pool, env.repo.view());
    let git0 = git_refs_of(&env.pool, &env.git);
    let opts = import_options(env.auto);
    let mut tx = env.repo.start_transaction();
    let mut ops: Vec<Op> = vec![];
    let mut events: Vec<String> = vec![];
    let mut cats: Vec<&'static str> = vec![];
    let mut panicked = false;
    for _ in 0..len {
        let op = gen_op(r, nn, nc, ops.last());
        let before = Snap::of(&env.pool, tx.repo().view());
        let gbefore = git_refs_of(&env.pool, &env.git);
        let pool = &env.pool;
        let gitrepo = &env.git;
        let mut failed_str = String::new();
        let res = guard(|| {
            let mr = tx.repo_mut();
            match &op {
                Op::Set(n, c) => mr.set_local_bookmark_target(RefName::new(&bname(*n)), match c { Some(k) => RefTarget::normal(pool.ids[*k].clone()), None => RefTarget::absent() }),
                Op::Git((n, rr), c) => set_git_ref(gitrepo, &git_ref_name(*n, *rr), c.map(|k| pool.oid(k))),
                Op::Track((n, rr)) => mr.track_remote_bookmark(RemoteRefSymbol { name: RefName::new(&bname(*n)), remote: RemoteName::new(rname(*rr)) }).block_on().unwrap(),
                Op::Untrack((n, rr)) => mr.untrack_remote_bookmark(RemoteRefSymbol { name: RefName::new(&bname(*n)), remote: RemoteName::new(rname(*rr)) }),
                Op::Import => { git::import_refs(mr, &opts).block_on().unwrap(); }
                Op::ImportSome(rr) => { let want = rname(*rr); git::import_some_refs(mr, &opts, |_, sym| sym.remote.as_str() == want).block_on().unwrap(); }
                Op::Export => {
                    let stats = git::export_refs(mr).unwrap();
                    let f: Vec<String> = stats.failed_bookmarks.iter().map(|(sym, why)| format!("{}@{}:{}",
                        parse_bname(sym.name.as_str()).unwrap_or(99), parse_rname(sym.remote.as_str()).unwrap_or(9), reason(why))).collect();
                    failed_str = if f.is_empty() { "-".into() } else { f.join(",") };
                }
            }
        });
        if let Err(e) = res {
            out.oracle_fail("c34:panic", format!("{} panicked: {e}", op.show()));
            panicked = true;
            ops.push(op);
            break;
        }
        let after = Snap::of(&env.pool, tx.repo().view());
        let gafter = git_refs_of(&env.pool, &env.git);
        // ---------------- oracle ----------------
        match &op {
            Op::Set(..) | Op::Git((_, 0), _) => {}
            Op::Git((n, _), _) | Op::Track((n, _)) | Op::Untrack((n, _)) => tracks[*n].origin_touched = true,
            Op::Import | Op::ImportSome(_) => {
                events.push(format!("I {} {}", after.show(), show_git(&gafter)));
                if gafter != gbefore { out.oracle_fail("c34:import-changed-git", format!("import changed Git refs {gbefore:?} -> {gafter:?}")); }
                let full = matches!(op, Op::Import) || matches!(op, Op::ImportSome(0));
                for n in 0..nn {
                    let Some(b) = tracks[n].base.clone() else { continue };
                    if tracks[n].origin_touched || !full { continue }
                    let l = before.local(n);
                    if l.len() != 1 { continue }
                    let g = vec![git_get(&gbefore, (n, 0))];
                    let l2 = after.local(n);
                    let (sig, ok, cat): (&str, bool, &'static str) = if g == b {
                        ("c34:import-dropped-jj-change", l2 == l, if l == b { "unchanged" } else { "jj-only@import" })
                    } else if l == b {
                        ("c34:git-change-not-adopted", l2 == g, "git-only@import")
                    } else if l == g {
                        ("c34:same-change-not-resolved", l2 == l, "same-change")
                    } else {
                        let a = adds(&l2);
                        let both = l2.len() > 1 && a.contains(&l[0]) && a.contains(&g[0]);
                        let ff = match (l[0], g[0]) {
                            (Some(x), Some(y)) if env.pool.is_ancestor(x, y) => l2 == g,
                            (Some(x), Some(y)) if env.pool.is_ancestor(y, x) => l2 == l,
                            _ => false,
                        };
                        ("c34:two-sided-overwritten", both || ff, if both { "two-sided-conflict" } else { "two-sided-ff" })
                    };
                    if ok { out.oracle_ok(); cats.push(cat); out.tally("oracle", cat); }
                    else { out.oracle_fail(sig, format!("name {n}: base {b:?}, jj {l:?}, git {g:?}, after import local = {l2:?}")); }
                }
            }
            Op::Export => {
                events.push(format!("E {failed_str} {} {}", after.show(), show_git(&gafter)));
                // never-overwrite + conflicted skipped
                for n in 0..nn { for rr in 0..2 {
                    let k = (n, rr);
                    let gb = git_get(&gbefore, k);
                    let ga = git_get(&gafter, k);
                    if vec![gb] != before.git_ref(k) && ga != gb {
                        out.oracle_fail("c34:export-overwrote-git-change", format!("ref {k:?}: git_refs record {:?}, Git had {gb:?}, export wrote {ga:?}", before.git_ref(k)));
                    } else { out.oracle_ok(); }
                    if rr == 0 && before.local(n).len() > 1 {
                        if ga != gb { out.oracle_fail("c34:export-wrote-conflicted", format!("name {n}: conflicted local {:?}, Git {gb:?} -> {ga:?}", before.local(n))); }
                        else { out.oracle_ok(); cats.push("conflict-skipped"); out.tally("oracle", "conflict-skipped"); }
                    }
                } }
                // one-sided jj change is written
                for n in 0..nn {
                    let Some(b) = tracks[n].base.clone() else { continue };
                    if tracks[n].origin_touched { continue }
                    let l = before.local(n);
                    let g = vec![git_get(&gbefore, (n, 0))];
                    if g == b && l.len() == 1 && l != vec![Some(0)] {
                        if vec![git_get(&gafter, (n, 0))] == l { out.oracle_ok(); if l != b { cats.push("jj-only@export"); out.tally("oracle", "jj-only@export"); } }
                        else { out.oracle_fail("c34:jj-change-not-exported", format!("name {n}: base {b:?}, jj {l:?}, Git untouched, after export Git = {:?}", git_get(&gafter, (n, 0)))); }
                    }
                }
                // converge after import; export
                if matches!(ops.last(), Some(Op::Import)) {
                    let mut all_ok = true;
                    for n in 0..nn {
                        let l = after.local(n);
                        if l.len() != 1 || l == vec![Some(0)] { continue }
                        let g = vec![git_get(&gafter, (n, 0))];
                        let (rt, rtracked) = after.remote((n, 0));
                        if g != l || rt != l || (l != vec![None] && !rtracked) || after.git_ref((n, 0)) != l {
                            all_ok = false;
                            out.oracle_fail("c34:not-converged", format!("after import;export name {n}: local {l:?}, Git {g:?}, @git record {rt:?}, git_refs {:?}", after.git_ref((n, 0))));
                        }
                    }
                    // a second import changes nothing (run on the real repo; it must be a no-op)
                    let res = guard(|| { git::import_refs(tx.repo_mut(), &opts).block_on().unwrap(); });
                    let again = Snap::of(&env.pool, tx.repo().view());
                    if res.is_err() || again != after {
                        all_ok = false;
                        out.oracle_fail("c34:second-import-changed", format!("after import;export a second import changed the view: {} -> {}", after.show(), again.show()));
                    }
                    if all_ok { out.oracle_ok(); cats.push("converged"); out.tally("oracle", "converged"); }
                }
            }
        }
        // bookkeeping: base is valid from a sync point until the next import/export
        let is_sync_op = matches!(op, Op::Import | Op::ImportSome(_) | Op::Export);
        let now = Snap::of(&env.pool, tx.repo().view());
        for n in 0..nn {
            if in_sync(&now, &gafter, n) { tracks[n] = Track { base: Some(now.local(n)), origin_touched: false }; }
            else if is_sync_op { tracks[n].base = None; }
        }
        out.tally("op", op.show().split(':').next().unwrap());
        ops.push(op);
    }
    let fin = Snap::of(&env.pool, tx.repo().view());
    let gfin = git_refs_of(&env.pool, &env.git);
    env.repo = tx.commit("segment").block_on().unwrap();
    let req = format!("run {nn} 0 {} {} {} {} {}", env.pool.dag(), if env.auto { 1 } else { 0 }, snap0.show(), show_git(&git0),
        ops.iter().map(|o| o.show()).collect::<Vec<_>>().join(" "));
    let resp = if panicked { "panic".to_string() } else {
        events.push(format!("F {} {}", fin.show(), show_git(&gfin)));
        events.join(" | ")
    };
    out.case(&req, &resp);
    let conflicted = fin.locals.iter().any(|(_, t)| t.len() > 1);
    if !cats.is_empty() || conflicted || resp.contains(':') && resp.contains("E ") {
        out.nontrivial((req.clone(),));
    }
    out.tally("segment_len", &ops.len().to_string());
    if conflicted { out.tally("final", "has-conflicted-bookmark"); }
    for e in &events { if e.starts_with("E ") && !e.starts_with("E - ") { out.tally("export", "some-failed"); } }
}

/// direct probes of `merge_ref_targets` through `merge_local_bookmark` (small exhaustive set):
/// ties the model's ref merge on its own
fn merge_probes(out: &mut Out, r: &mut Rng) {
    let mut env = new_env(r, 1, 5);
    let nc = 5usize;
    let vals: Vec<Option<usize>> = std::iter::once(None).chain((1..=nc).map(Some)).collect();
    let mut tx = env.repo.start_transaction();
    for l in &vals { for b in &vals { for rr in &vals {
        let t = |o: &Option<usize>| env.pool.target(&[*o]);
        let name = RefName::new("probe");
        tx.repo_mut().set_local_bookmark_target(name, t(l));
        let res = guard(|| tx.repo_mut().merge_local_bookmark(name, &t(b), &t(rr)).block_on().unwrap());
        let got = match res { Ok(()) => show_target(&env.pool, tx.repo().view().get_local_bookmark(name)), Err(_) => "panic".into() };
        let s = |o: &Option<usize>| show_terms(&[*o]);
        out.case(&format!("merge {} {} {} {}", env.pool.dag(), s(l), s(b), s(rr)), &got);
        if l != b && rr != b && l != rr { out.nontrivial(("merge", env.pool.dag(), *l, *b, *rr)); }
    } } }
    tx.repo_mut().set_local_bookmark_target(RefName::new("probe"), RefTarget::absent());
    env.repo = tx.commit("probes").block_on().unwrap();
}

pub fn run(cfg: &Cfg, out: &mut Out) {
    testutils::hermetic_git();
    let mut r = cfg.rng(34);
    for _ in 0..cfg.n(3, 20) { merge_probes(out, &mut r); }
    // In-process, but the machine may be heavily loaded: environments are bounded by a wall-clock
    // budget too (the cases are a deterministic prefix of the seed's sequence; >= 4 environments).
    let t0 = std::time::Instant::now();
    let budget = if cfg.tier == Tier::Quick { 45.0 } else { 700.0 } * cfg.scale as f64;
    let envs = cfg.n(20, 300);
    let segs_per_env = 250;
    let mut ran = 0;
    for e in 0..envs {
        if e >= 4 && t0.elapsed().as_secs_f64() > budget { break; }
        let nn = 3;
        let mut env = new_env(&mut r, nn, 6);
        let mut tracks = vec![Track { base: Some(vec![None]), origin_touched: false }; nn];
        for _ in 0..segs_per_env {
            let len = r.range(1, 7);
            run_segment(&mut env, out, &mut r, &mut tracks, len);
        }
        ran += 1;
    }
    out.note(format!("{ran} environments (max {envs}, budget {budget}s) x {segs_per_env} segments of 1..7 ops; 3 bookmark names, 6 pool commits + root, remotes git/origin"));
}
