//! C21 — stacked tables keep every saved entry under concurrent writers.
//!
//! Real code: `jj_lib::stacked_table::{TableStore, MutableTable, ReadonlyTable}` on a temp directory,
//! several `TableStore` handles ("processes", one OS thread each) driven step by step through the
//! `verif_hooks::point` calls (`table.read-heads`, `table.lock`, `table.write-segment`,
//! `table.add-head`, `table.remove-head`) by the deterministic scheduler in `headproto_sched.rs`.
//! After every step the `heads/` directory is listed, every head is loaded by the real loader and
//! printed structurally (segment chain, entries per segment), and compared with the Lean model.
//!
//! Oracle (from the property text, not from the model):
//!   * every key of every completed save is found from some head after every step, and is returned
//!     (with a value some completed save recorded for it) by a fresh `TableStore::load(..).get_head()`;
//!   * in a history without divergence the last sequential save of a key wins;
//!   * the table returned by a save looks up exactly base-overlaid-with-entries (squash does not
//!     change a lookup) and reloading it from disk by name gives the same lookups;
//!   * the table returned by `get_head` contains every key of every head it read.
#[path = "headproto_sched.rs"]
mod sched;

use crate::rt::*;
use jj_lib::stacked_table::{ReadonlyTable, TableSegment as _, TableStore};
use sched::{PState, Sched};
use std::collections::{BTreeMap, BTreeSet, HashMap};
use std::path::{Path, PathBuf};
use std::sync::Arc;

const KEY_SIZE: usize = 2;

/// temp dir on tmpfs when there is one (`save_in` fsyncs every segment file)
fn fast_tempdir() -> tempfile::TempDir {
    let shm = Path::new("/dev/shm");
    if shm.is_dir() { if let Ok(d) = tempfile::Builder::new().prefix("jjverif-c21-").tempdir_in(shm) { return d; } }
    tempfile::tempdir().unwrap()
}

fn key_bytes(k: u8) -> Vec<u8> { vec![0, k] }
/// values of length 1 or 2 <-> naturals
fn val_nat(v: &[u8]) -> u64 {
    match v { [a] => *a as u64, [a, b] => 256 + (*a as u64) * 256 + *b as u64, _ => panic!("value length") }
}

type Tab = Arc<ReadonlyTable>;
type Entries = Vec<(u8, Vec<u8>)>;

fn show_entries(es: &[(u8, Vec<u8>)]) -> String {
    if es.is_empty() { "-".into() } else { es.iter().map(|(k, v)| format!("{k}.{}", val_nat(v))).collect::<Vec<_>>().join(",") }
}

/// structural description: segments newest first, each with the entries found by probing the key universe
fn describe(t: &Tab, nkeys: u8) -> String {
    t.ancestor_segments().map(|seg| {
        let es: Vec<String> = (0..nkeys).filter_map(|k| seg.segment_get_value(&key_bytes(k)).map(|v| format!("{k}.{}", val_nat(v)))).collect();
        assert_eq!(es.len(), seg.segment_num_entries(), "segment has keys outside the universe");
        if es.is_empty() { "e".to_string() } else { es.join(",") }
    }).collect::<Vec<_>>().join("<")
}

fn gets(t: &Tab, nkeys: u8) -> String {
    (0..nkeys).map(|k| t.get_value(&key_bytes(k)).map(|v| val_nat(v).to_string()).unwrap_or("_".into())).collect::<Vec<_>>().join(",")
}

fn lookups(t: &Tab, nkeys: u8) -> BTreeMap<u8, Vec<u8>> {
    (0..nkeys).filter_map(|k| t.get_value(&key_bytes(k)).map(|v| (k, v.to_vec()))).collect()
}

/// Loads any table by name with the real loader: a scratch store whose segment files are links to the
/// real ones and whose `heads/` contains just that name (`get_head` with one head only reads).
struct Loader { real: PathBuf, scratch: tempfile::TempDir, cache: HashMap<String, Tab> }
impl Loader {
    fn new(real: &Path) -> Self {
        let scratch = fast_tempdir();
        std::fs::create_dir(scratch.path().join("heads")).unwrap();
        Loader { real: real.to_path_buf(), scratch, cache: HashMap::new() }
    }
    fn load(&mut self, name: &str) -> Tab {
        if let Some(t) = self.cache.get(name) { return t.clone(); }
        for e in std::fs::read_dir(&self.real).unwrap() {
            let e = e.unwrap();
            let n = e.file_name().into_string().unwrap();
            if n.len() == 128 {
                let dst = self.scratch.path().join(&n);
                if !dst.exists() { std::os::unix::fs::symlink(e.path(), dst).unwrap(); }
            }
        }
        let heads = self.scratch.path().join("heads");
        for e in std::fs::read_dir(&heads).unwrap() { std::fs::remove_file(e.unwrap().path()).unwrap(); }
        std::fs::write(heads.join(name), "").unwrap();
        let t = TableStore::load(self.scratch.path().to_path_buf(), KEY_SIZE).get_head().expect("loader");
        assert_eq!(t.name(), name);
        self.cache.insert(name.to_string(), t.clone());
        t
    }
}

#[derive(Clone, Debug)]
enum Op { Get, GetLocked, Save(Entries), LockedSave(Entries) }
impl Op {
    fn token(&self) -> String {
        match self {
            Op::Get => "g".into(), Op::GetLocked => "G".into(),
            Op::Save(es) => format!("s{}", show_entries(es)), Op::LockedSave(es) => format!("L{}", show_entries(es)),
        }
    }
}

#[derive(Clone, Copy, PartialEq, Eq, Debug)]
pub enum Mode { Chain, Seq, Working, Ineffective }

/// One scheduled decision.
#[derive(Clone, Debug)]
enum Ev { Start(usize, Op), Step(usize), Crash(usize) }

type Res = Result<Tab, String>;

struct Case {
    nkeys: u8,
    dir: PathBuf,
    sched: Sched<Res>,
    stores: Vec<Arc<TableStore>>,
    held: Vec<Option<Tab>>,
    cur_op: Vec<Option<Op>>,
    /// heads the process saw at its last `read-heads` step
    last_read: Vec<Vec<Tab>>,
    /// name the process added in its current operation
    added: Vec<Option<String>>,
    base_of_save: Vec<Option<Tab>>,
    order: Vec<String>,
    loader: Loader,
    lock_holder: Option<usize>,
    req: Vec<String>,
    ans: Vec<String>,
    // oracle state
    saved: BTreeMap<u8, BTreeSet<Vec<u8>>>,
    /// values of every save that was started (a crashed save may have published its head)
    attempted: BTreeMap<u8, BTreeSet<Vec<u8>>>,
    /// was the most recent removal of an existing head a self-removal (process removes the head it added in this operation)?
    last_rm_self: Option<bool>,
    /// number of events so far / event number at which each process started its current operation
    seq: usize,
    op_start: Vec<usize>,
    /// who removed a head last: name -> (process, event number, the head that process had added in that operation)
    removed_by: HashMap<String, (usize, usize, Option<String>)>,
    seq_expect: BTreeMap<u8, Vec<u8>>,
    failed: Option<(String, String)>,
    diverged: bool,
    squashed: bool,
    max_heads: usize,
}

impl Case {
    fn new(np: usize, nkeys: u8, tmp: &Path) -> Self {
        let dir = tmp.to_path_buf();
        let _ = TableStore::init(dir.clone(), KEY_SIZE);
        let stores = (0..np).map(|_| Arc::new(TableStore::load(dir.clone(), KEY_SIZE))).collect();
        Case { nkeys, dir: dir.clone(), sched: Sched::new(np, "table."), stores, held: vec![None; np], cur_op: vec![None; np],
               last_read: vec![vec![]; np], added: vec![None; np], base_of_save: vec![None; np], order: vec![],
               loader: Loader::new(&dir), lock_holder: None, req: vec![], ans: vec![], saved: BTreeMap::new(), attempted: BTreeMap::new(), last_rm_self: None, seq: 0, op_start: vec![0; np], removed_by: HashMap::new(),
               seq_expect: BTreeMap::new(), failed: None, diverged: false, squashed: false, max_heads: 0 }
    }

    fn list_dir(&self) -> Vec<String> {
        std::fs::read_dir(self.dir.join("heads")).unwrap().map(|e| e.unwrap().file_name().into_string().unwrap()).collect()
    }

    fn observe(&mut self) -> String {
        let now = self.list_dir();
        self.order.retain(|n| now.contains(n));
        for n in &now { if !self.order.contains(n) { self.order.push(n.clone()); } }
        self.max_heads = self.max_heads.max(self.order.len());
        if self.order.len() >= 2 { self.diverged = true; }
        if self.order.is_empty() { return "none".into(); }
        let names = self.order.clone();
        names.iter().map(|n| { let t = self.loader.load(n); if t.ancestor_segments().count() > 1 { self.squashed = true; } describe(&t, self.nkeys) }).collect::<Vec<_>>().join("|")
    }

    fn fail(&mut self, sig: &str, detail: String) {
        if self.failed.is_none() { self.failed = Some((sig.to_string(), detail)); }
    }

    /// every key of every completed save is found from some head
    fn check_heads_cover(&mut self, last_event: &str, by: Option<(usize, &'static str, String)>) {
        if self.failed.is_some() || self.saved.is_empty() { return; }
        let names = self.order.clone();
        let heads: Vec<Tab> = names.iter().map(|n| self.loader.load(n)).collect();
        let missing: Vec<u8> = self.saved.keys().copied().filter(|k| !heads.iter().any(|h| h.get_value(&key_bytes(*k)).is_some())).collect();
        if !missing.is_empty() {
            let _ = &by;
            let sig = self.loss_signature();
            self.fail(sig, format!("after {last_event}: keys {missing:?} of completed saves are in no head ({} heads)", heads.len()));
        }
    }

    /// Classifies an entry loss by the most recent abnormal removal (None = unexplained).
    fn loss_signature(&self) -> &'static str {
        match self.last_rm_self {
            Some(true) => "stacked-table:merged-head-removed-when-name-collides",
            Some(false) => "stacked-table:crossing-saves-remove-each-others-head",
            None => "stacked-table:entry-lost",
        }
    }

    fn start(&mut self, pid: usize, op: Op, fresh_handle: bool) {
        self.seq += 1;
        self.op_start[pid] = self.seq;
        if fresh_handle { self.stores[pid] = Arc::new(TableStore::load(self.dir.clone(), KEY_SIZE)); }
        let store = self.stores[pid].clone();
        let held = self.held[pid].clone();
        self.req.push(format!("S{pid}:{}", op.token()));
        self.ans.push("S".into());
        self.added[pid] = None;
        self.base_of_save[pid] = held.clone();
        if let Op::Save(es) | Op::LockedSave(es) = &op { for (k, v) in es { self.attempted.entry(*k).or_default().insert(v.clone()); } }
        let o = op.clone();
        let st = self.sched.start(pid, move || -> Res {
            let add = |t: &Tab, es: &Entries| { let mut m = t.start_mutation(); for (k, v) in es { m.add_entry(key_bytes(*k), v.clone()); } m };
            match o {
                Op::Get => store.get_head().map_err(|e| e.to_string()),
                Op::GetLocked => store.get_head_locked().map(|(t, _lock)| t).map_err(|e| e.to_string()),
                Op::Save(es) => store.save_table(add(held.as_ref().unwrap(), &es)).map_err(|e| e.to_string()),
                Op::LockedSave(es) => {
                    let (t, lock) = store.get_head_locked().map_err(|e| e.to_string())?;
                    let r = store.save_table(add(&t, &es)).map_err(|e| e.to_string());
                    drop(lock);
                    r
                }
            }
        });
        self.cur_op[pid] = Some(op);
        assert!(matches!(st, PState::At(..)), "operation ended without a hook point: {st:?}");
    }

    fn can_step(&self, pid: usize, mode: Mode) -> bool {
        match self.sched.state(pid) {
            PState::At(kind, _) => !(kind == "table.lock" && mode != Mode::Ineffective && self.lock_holder.is_some()),
            _ => false,
        }
    }

    fn step(&mut self, pid: usize, mode: Mode) {
        let PState::At(kind, detail) = self.sched.state(pid) else { panic!("not parked") };
        let mut req = format!("T{pid}");
        if kind == "table.read-heads" {
            let listing = self.list_dir();
            let perm: Vec<u64> = listing.iter().map(|n| self.order.iter().position(|o| o == n).expect("head unknown") as u64).collect();
            req = format!("T{pid}:{}", show_list(&perm));
            let tabs: Vec<Tab> = listing.iter().map(|n| self.loader.load(n)).collect();
            self.last_read[pid] = tabs;
        }
        if kind == "table.lock" {
            if mode == Mode::Ineffective { let _ = std::fs::remove_file(self.dir.join("lock")); }
            self.lock_holder = Some(pid);
        }
        if kind == "table.add-head" { self.added[pid] = Some(detail.clone()); }
        self.seq += 1;
        if kind == "table.remove-head" && self.order.contains(&detail) {
            // abnormal removals:
            //  * F8 class: the process removes the very head it added in this operation;
            //  * crossing class: the head N this process added has meanwhile been removed by an overlapping
            //    operation of another process q whose own new head is exactly the head X removed now
            //    (the two results are each other's superseded head).
            // Any other removal is normal: the remover's own new head is still there and covers X.
            let own = self.added[pid].clone();
            if own.as_deref() == Some(detail.as_str()) {
                self.last_rm_self = Some(true);
            } else if let Some(n) = &own {
                if !self.order.contains(n) {
                    if let Some((q, when, q_added)) = self.removed_by.get(n) {
                        if *q != pid && *when > self.op_start[pid] && q_added.as_deref() == Some(detail.as_str()) {
                            self.last_rm_self = Some(false);
                        }
                    }
                }
            }
            self.removed_by.insert(detail.clone(), (pid, self.seq, own));
        }
        let st = self.sched.step(pid);
        let heads = self.observe();
        let k = match kind {
            "table.read-heads" => "read".to_string(),
            "table.lock" => "lock".to_string(),
            "table.write-segment" => "write".to_string(),
            "table.add-head" => format!("add:{}", describe(&self.loader.load(&detail), self.nkeys)),
            "table.remove-head" => format!("rm:{}", describe(&self.loader.load(&detail), self.nkeys)),
            other => format!("?{other}"),
        };
        let mut item = format!("{k} {heads}");
        self.req.push(req);
        let ev_name = format!("process {pid} {kind} {}", &detail[..detail.len().min(8)]);
        self.check_heads_cover(&ev_name, Some((pid, kind, detail.clone())));
        match st {
            PState::At(..) => {}
            PState::Done => {
                if self.lock_holder == Some(pid) { self.lock_holder = None; }
                let op = self.cur_op[pid].take().unwrap();
                match self.sched.take_result(pid).unwrap() {
                    Ok(t) => {
                        item += &format!(" ret={} get={}", describe(&t, self.nkeys), gets(&t, self.nkeys));
                        self.completed(pid, &op, &t);
                        self.held[pid] = Some(t);
                    }
                    Err(e) => { item += &format!(" err={}", e.replace(' ', "_")); self.fail("stacked-table:error", format!("{op:?} failed: {e}")); }
                }
                self.sched.set_idle(pid);
            }
            PState::Panicked(m) => {
                if self.lock_holder == Some(pid) { self.lock_holder = None; }
                item += " panic";
                self.fail("stacked-table:panic", format!("{:?} panicked: {m}", self.cur_op[pid]));
                self.cur_op[pid] = None;
                self.sched.set_idle(pid);
            }
            other => panic!("unexpected state {other:?}"),
        }
        self.ans.push(item);
    }

    fn crash(&mut self, pid: usize) {
        let st = self.sched.crash(pid);
        assert_eq!(st, PState::Crashed);
        if self.lock_holder == Some(pid) { self.lock_holder = None; }
        self.cur_op[pid] = None;
        self.sched.set_idle(pid);
        let heads = self.observe();
        self.req.push(format!("X{pid}"));
        self.ans.push(format!("X {heads}"));
        self.check_heads_cover(&format!("crash of process {pid}"), None);
    }

    /// property statements about the table an operation returned
    fn completed(&mut self, pid: usize, op: &Op, t: &Tab) {
        let nk = self.nkeys;
        let got = lookups(t, nk);
        // reload from disk by name
        let re = lookups(&self.loader.load(t.name()), nk);
        if re != got { self.fail("stacked-table:reload-changes-lookup", format!("{op:?}: in-memory {got:?}, reloaded {re:?}")); }
        let merged_from = |heads: &[Tab], got: &BTreeMap<u8, Vec<u8>>| -> Option<String> {
            for k in 0..nk {
                let vals: Vec<Vec<u8>> = heads.iter().filter_map(|h| h.get_value(&key_bytes(k)).map(|v| v.to_vec())).collect();
                match got.get(&k) {
                    None if !vals.is_empty() => return Some(format!("key {k} of a head that was read is missing")),
                    Some(v) if !vals.contains(v) => return Some(format!("key {k} has value {v:?} that no head had ({vals:?})")),
                    _ => {}
                }
            }
            None
        };
        match op {
            Op::Get | Op::GetLocked => {
                if let Some(why) = merged_from(&self.last_read[pid], &got) { self.fail("stacked-table:merge-drops-entry", format!("{op:?}: {why}")); }
            }
            Op::Save(es) | Op::LockedSave(es) => {
                let mut last: BTreeMap<u8, Vec<u8>> = BTreeMap::new();
                for (k, v) in es { last.insert(*k, v.clone()); }
                match op {
                    Op::Save(_) => {
                        // squash/serialize/load never change a lookup: result = base overlaid with the entries
                        let mut want = lookups(self.base_of_save[pid].as_ref().unwrap(), nk);
                        want.extend(last.clone());
                        if want != got { self.fail("stacked-table:save-changes-lookup", format!("{op:?}: expected {want:?}, saved table gives {got:?}")); }
                    }
                    _ => {
                        // base = whatever get_head_locked made of the heads it read
                        let mut rest = got.clone();
                        for k in last.keys() { rest.remove(k); }
                        let heads: Vec<Tab> = self.last_read[pid].iter().cloned().collect();
                        let stripped: Vec<BTreeMap<u8, Vec<u8>>> = heads.iter().map(|h| { let mut l = lookups(h, nk); for k in last.keys() { l.remove(k); } l }).collect();
                        for k in 0..nk {
                            if last.contains_key(&k) { continue; }
                            let vals: Vec<&Vec<u8>> = stripped.iter().filter_map(|l| l.get(&k)).collect();
                            match rest.get(&k) {
                                None if !vals.is_empty() => self.fail("stacked-table:merge-drops-entry", format!("{op:?}: key {k} of a head that was read is missing")),
                                Some(v) if !vals.contains(&v) => self.fail("stacked-table:merge-drops-entry", format!("{op:?}: key {k} value {v:?} not from a head")),
                                _ => {}
                            }
                        }
                        for (k, v) in &last { if got.get(k) != Some(v) { self.fail("stacked-table:save-changes-lookup", format!("{op:?}: key {k} saved as {v:?}, table gives {:?}", got.get(k))); } }
                    }
                }
                for (k, v) in es { self.saved.entry(*k).or_default().insert(v.clone()); self.seq_expect.insert(*k, v.clone()); }
                self.check_heads_cover(&format!("completion of {op:?} by process {pid}"), None);
            }
        }
    }
}

fn gen_entries(r: &mut Rng, nkeys: u8, small_vals: bool) -> Entries {
    let n = if r.chance(1, 6) { r.range(4, 7) } else { r.range(1, 3) };
    (0..n).map(|_| {
        let k = r.below(nkeys as usize) as u8;
        let v = if small_vals { vec![r.range(1, 3) as u8] } else if r.chance(1, 5) { vec![r.below(3) as u8, r.below(256) as u8] } else { vec![r.below(250) as u8] };
        (k, v)
    }).collect()
}

/// Runs one case; `script` = fixed event list (replays) or None = random according to `mode`.
fn run_case(out: &mut Out, r: &mut Rng, mode: Mode, np: usize, nkeys: u8, nops: usize, script: Option<Vec<Ev>>, label: &str) {
    let tmp = fast_tempdir();
    let total = np + 1; // last process = the fresh reader at the end
    let mut c = Case::new(total, nkeys, tmp.path());
    let small_vals = r.chance(2, 3);
    let crashy = r.chance(1, 3);
    if let Some(evs) = script {
        for e in evs {
            match e { Ev::Start(p, op) => c.start(p, op, false), Ev::Step(p) => { if matches!(c.sched.state(p), PState::At(..)) { c.step(p, mode) } }, Ev::Crash(p) => c.crash(p) }
        }
    } else {
        let mut started = 0usize;
        loop {
            let parked: Vec<usize> = (0..np).filter(|p| matches!(c.sched.state(*p), PState::At(..))).collect();
            let idle: Vec<usize> = (0..np).filter(|p| matches!(c.sched.state(*p), PState::Idle)).collect();
            let can_start = started < nops && !idle.is_empty() && (parked.is_empty() || matches!(mode, Mode::Working | Mode::Ineffective));
            if parked.is_empty() && !can_start { break; }
            let do_start = can_start && (parked.is_empty() || r.chance(1, 3));
            if do_start {
                let p = *r.pick(&idle);
                let es = gen_entries(r, nkeys, small_vals);
                let op = match mode {
                    Mode::Chain => Op::Get,
                    _ => {
                        if c.held[p].is_none() { if r.chance(1, 4) { Op::LockedSave(es.clone()) } else { Op::Get } }
                        else { match r.below(10) { 0 | 1 => Op::Get, 2 => Op::GetLocked, 3 | 4 => Op::LockedSave(es.clone()), _ => Op::Save(es.clone()) } }
                    }
                };
                if mode == Mode::Chain {
                    // get_head on this handle, then (usually) a save on what it returned — no staleness
                    let fresh = r.chance(1, 3);
                    c.start(p, Op::Get, fresh);
                    while matches!(c.sched.state(p), PState::At(..)) { c.step(p, mode); }
                    if r.chance(5, 6) {
                        c.start(p, Op::Save(es), false);
                        while matches!(c.sched.state(p), PState::At(..)) { c.step(p, mode); }
                    }
                    started += 1;
                    continue;
                }
                let fresh = r.chance(1, 4);
                c.start(p, op, fresh);
                started += 1;
                continue;
            }
            // continue a parked process (Seq/Chain: the only one)
            let steppable: Vec<usize> = parked.iter().copied().filter(|p| c.can_step(*p, mode)).collect();
            if crashy && mode != Mode::Chain && r.chance(1, 12) {
                let p = *r.pick(&parked);
                c.crash(p);
                continue;
            }
            assert!(!steppable.is_empty(), "deadlock: every parked process waits for the lock");
            let p = *r.pick(&steppable);
            c.step(p, mode);
        }
    }
    finish_case(c, out, mode, nkeys, label);
}

/// quiescence (a fresh store loads the table), closing oracle checks, emission of the case
fn finish_case(mut c: Case, out: &mut Out, mode: Mode, nkeys: u8, label: &str) {
    let total = c.held.len();
    let reader = total - 1;
    c.start(reader, Op::Get, true);
    while matches!(c.sched.state(reader), PState::At(..)) { c.step(reader, mode); }
    let fin = c.held[reader].clone();
    if c.failed.is_none() {
        if let Some(t) = &fin {
            let got = lookups(t, nkeys);
            for (k, _) in &c.saved.clone() {
                let vals = c.attempted.get(k).cloned().unwrap_or_default();
                match got.get(k) {
                    None => { let sig = c.loss_signature();
                        c.fail(sig, format!("fresh load: key {k} of a completed save is missing")); break; }
                    Some(v) if !vals.contains(v) => { c.fail("stacked-table:wrong-value", format!("fresh load: key {k} has value {v:?}, saves recorded {vals:?}")); break; }
                    _ => {}
                }
            }
            if mode == Mode::Chain && c.failed.is_none() && got != c.seq_expect {
                let (w, g) = (c.seq_expect.clone(), got.clone());
                c.fail("stacked-table:later-save-does-not-win", format!("sequential history: expected {w:?}, fresh load gives {g:?}"));
            }
        }
    }
    let w = if mode == Mode::Ineffective { 0 } else { 1 };
    let request = format!("run {w} {total} {nkeys} {}", c.req.join("/"));
    let answer = c.ans.join(";");
    let (failed, diverged, squashed, maxh) = (c.failed.take(), c.diverged, c.squashed, c.max_heads);
    let nev = c.req.len();
    out.case(&request, &answer);
    out.tally("mode", &format!("{mode:?}"));
    out.tally("stream", if label.starts_with("all:") { "exhaustive" } else { label });
    out.tally("max_heads", &maxh.min(4).to_string());
    out.tally("events", &format!("{}0s", nev / 10));
    if diverged || squashed { out.nontrivial(&request); }
    if diverged { out.tally("shape", "diverged"); }
    if squashed { out.tally("shape", "stacked"); }
    match failed {
        None => out.oracle_ok(),
        Some((sig, detail)) => { out.tally("oracle_failure_signature", &sig); out.oracle_fail(&sig, format!("[{label} {mode:?}] {detail}; replay: C21 {request}")) },
    }
}

fn b(x: u8) -> Vec<u8> { vec![x] }

/// All schedules (stateless DFS, re-executing from scratch) of fixed per-process programs after a
/// sequential `setup`, with at most `max_crashes` crashes.  Returns (cases run, completed?).
fn exhaustive(out: &mut Out, mode: Mode, nkeys: u8, setup: &[(usize, Op)], programs: &[Vec<Op>], max_crashes: usize, budget: usize, label: &str) -> (usize, bool) {
    let np = programs.len();
    let mut prefix: Vec<usize> = vec![];
    let mut runs = 0;
    loop {
        if runs >= budget { return (runs, false); }
        let tmp = fast_tempdir();
        let mut c = Case::new(np + 1, nkeys, tmp.path());
        for (p, op) in setup { c.start(*p, op.clone(), false); while matches!(c.sched.state(*p), PState::At(..)) { c.step(*p, mode); } }
        let mut next_op = vec![0usize; np];
        let mut choices: Vec<(usize, usize)> = vec![];
        let mut crashes = 0;
        loop {
            for p in 0..np {
                if !matches!(c.sched.state(p), PState::At(..)) && next_op[p] < programs[p].len() {
                    let op = programs[p][next_op[p]].clone(); next_op[p] += 1; c.start(p, op, false);
                }
            }
            let mut actions: Vec<(bool, usize)> = (0..np).filter(|p| c.can_step(*p, mode)).map(|p| (false, p)).collect();
            if crashes < max_crashes { actions.extend((0..np).filter(|p| matches!(c.sched.state(*p), PState::At(..))).map(|p| (true, p))); }
            if actions.is_empty() { break; }
            let i = choices.len();
            let pick = if i < prefix.len() { prefix[i] } else { 0 };
            choices.push((pick, actions.len()));
            let (is_crash, p) = actions[pick];
            if is_crash { crashes += 1; c.crash(p); next_op[p] = programs[p].len(); } else { c.step(p, mode); }
        }
        finish_case(c, out, mode, nkeys, label);
        runs += 1;
        let mut j = choices.len();
        loop {
            if j == 0 { return (runs, true); }
            j -= 1;
            if choices[j].0 + 1 < choices[j].1 { break; }
        }
        prefix = choices[..j].iter().map(|ch| ch.0).collect();
        prefix.push(choices[j].0 + 1);
    }
}

/// F8 (DESIGN.md §8): three saves, two handles, then a fresh load.
fn f8_script() -> Vec<Ev> {
    use Ev::*;
    let mut v = vec![Start(0, Op::Get), Step(0), Step(0), Step(0),
        Start(0, Op::Save(vec![(0, b(0xf8))])), Step(0), Step(0), Step(0),
        Start(1, Op::Get), Step(1),
        Start(1, Op::Save(vec![(3, b(0x81)), (5, b(0x2a))])), Step(1), Step(1), Step(1),
        Start(0, Op::Save(vec![(5, b(0x70)), (3, b(0x87))])), Step(0), Step(0), Step(0)];
    // reader 1 merges the two heads (read, lock, read, write, add, rm, rm)
    v.push(Start(1, Op::Get));
    for _ in 0..7 { v.push(Step(1)); }
    v
}

/// Two unlocked `save_table` calls whose results are each other's parent, interleaved add/add/rm/rm.
fn crossing_script() -> Vec<Ev> {
    use Ev::*;
    vec![Start(0, Op::Get), Step(0), Step(0), Step(0),
        Start(0, Op::Save(vec![(1, b(1))])), Step(0), Step(0), Step(0),      // o = {1→1}
        Start(1, Op::Get), Step(1),                                            // process 1 holds o
        Start(0, Op::Save(vec![(1, b(2))])), Step(0), Step(0), Step(0),      // n = {1→2}, heads = {n}
        Start(0, Op::Save(vec![(1, b(1))])),                                   // process 0: n → o
        Start(1, Op::Save(vec![(1, b(2))])),                                   // process 1 (stale): o → n
        Step(0), Step(1), Step(0), Step(1),                                    // write, write, add o, add n
        Step(0), Step(1)]                                                      // rm n, rm o
}

pub fn run(cfg: &Cfg, out: &mut Out) {
    sched::quiet_crash_panics();
    let mut r = cfg.rng(21);
    // fixed replays first (the minimal reproducers of the two finding classes)
    run_case(out, &mut r, Mode::Seq, 2, 6, 0, Some(f8_script()), "f8-replay");
    run_case(out, &mut r, Mode::Working, 2, 6, 0, Some(crossing_script()), "crossing-replay");
    // every schedule of two processes for a few program pairs (hook-point granularity)
    {
        use Op::*;
        let e = |v: &[(u8, u8)]| -> Entries { v.iter().map(|(k, x)| (*k, b(*x))).collect() };
        // P0 creates the base {0→1}; P1 loads it
        let base: Vec<(usize, Op)> = vec![(0, Get), (0, Save(e(&[(0, 1)]))), (1, Get)];
        // … then P0 moves on to {0→1,1→2} squashed, P1 is stale
        let mut stale = base.clone(); stale.push((0, Save(e(&[(1, 2)]))));
        // two heads: P0's {0→1,1→2} and stale P1's {0→1,1→1,2→1}
        let mut two = stale.clone(); two.push((1, Save(e(&[(1, 1), (2, 1)]))));
        let cross: Vec<(usize, Op)> = vec![(0, Get), (0, Save(e(&[(1, 1)]))), (1, Get), (0, Save(e(&[(1, 2)])))];
        let quick = cfg.tier == Tier::Quick;
        let plans: Vec<(&str, &Vec<(usize, Op)>, Vec<Vec<Op>>, usize, usize)> = vec![
            ("all:save|save", &base, vec![vec![Save(e(&[(1, 1)]))], vec![Save(e(&[(1, 2)]))]], 1, 400),
            ("all:save|stale-save", &stale, vec![vec![Save(e(&[(1, 1)]))], vec![Save(e(&[(1, 2)]))]], 0, 100),
            // P0: {1→2} → {1→1}, P1 (stale, holds {1→1}): {1→1} → {1→2}: each result is the other's parent
            ("all:save|stale-save-crossing", &cross, vec![vec![Save(e(&[(1, 1)]))], vec![Save(e(&[(1, 2)]))]], 0, 100),
            ("all:save|get", &two, vec![vec![Save(e(&[(3, 1)]))], vec![Get]], 0, if quick { 150 } else { 5000 }),
            ("all:lockedsave|lockedsave", &two, vec![vec![LockedSave(e(&[(3, 1)]))], vec![LockedSave(e(&[(3, 2)]))]], 0, if quick { 150 } else { 20000 }),
            ("all:get|get", &two, vec![vec![Get], vec![Get]], 0, if quick { 100 } else { 20000 }),
        ];
        let mut notes = vec![];
        for (label, setup, programs, max_crashes, budget) in plans {
            for mode in [Mode::Working, Mode::Ineffective] {
                let (n, done) = exhaustive(out, mode, 4, setup, &programs, max_crashes, budget * cfg.scale as usize, label);
                notes.push(format!("{label} {mode:?}: {n}{}", if done { " (all)" } else { " (budget)" }));
            }
        }
        out.note(format!("2-process schedule enumeration: {}", notes.join("; ")));
    }
    // sizes small → large
    let rounds = cfg.n(6, 60);
    for round in 0..rounds {
        for (nops, nkeys) in [(3usize, 4u8), (5, 6), (8, 8), (12, 12)] {
            for mode in [Mode::Chain, Mode::Seq, Mode::Working, Mode::Ineffective] {
                for np in [2usize, 3] {
                    let reps = if round == 0 && nops <= 5 { 12 } else { 6 };
                    for _ in 0..reps {
                        run_case(out, &mut r, mode, np, nkeys, nops, None, "random");
                    }
                }
            }
        }
    }
    out.note("modes: Chain = every save directly follows a get_head of the same handle, no concurrency; Seq = whole operations in sequence from stale heads (with crash prefixes); Working/Ineffective = operations interleaved at the hook points with working / ineffective file locks".into());
}
