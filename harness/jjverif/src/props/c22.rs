//! C22 — the changed-path index agrees with tree diffs.
//!
//! Real code: `default_index::changed_path::collect_changed_paths` (through the index:
//! `Index::changed_paths_in_commit`), index built **incrementally** (enabled before the commits are
//! written, some histories written by two concurrent transactions that are merged on reload) and
//! **rebuilt** (`build_changed_path_index_at_operation` afterwards, fully or partially);
//! `MergedTree::diff_stream`; the `files()` revset predicate with and without the index.
//! Model requests: `cp` (changed paths of a commit), `diff` (diff stream of two merged trees).
//! Oracle (property text): a path is recorded iff its content differs between the commit and the
//! merge of its parents (per-path merge of the parents' entries as in C07, directories count as absent),
//! for paths with no file/directory clash above them on either side; `files(p)` selects the same
//! commits with the index and by scanning.
use super::c07::tree_common::*;
use super::c07::{expected_at, norm_actual, Env, Exp};
use super::c08::{gen_case, Hist};
use crate::rt::*;
use jj_lib::backend::CommitId;
use jj_lib::commit::Commit;
use jj_lib::default_index::DefaultIndexStore;
use jj_lib::fileset::FilesetExpression;
use jj_lib::matchers::EverythingMatcher;
use jj_lib::merge::Merge;
use jj_lib::repo::{ReadonlyRepo, Repo as _};
use jj_lib::revset::{ResolvedRevsetExpression, RevsetFilterPredicate};
use futures::StreamExt as _;
use pollster::FutureExt as _;
use std::collections::BTreeSet;
use std::sync::Arc;

fn show_paths(ps: &BTreeSet<Vec<u64>>) -> String { if ps.is_empty() { "-".into() } else { ps.iter().map(|p| show_path(p)).collect::<Vec<_>>().join(",") } }
fn parse_path(p: &jj_lib::repo_path::RepoPath) -> Vec<u64> { p.as_internal_file_string().split('/').filter(|s| !s.is_empty()).map(|s| s.parse().unwrap()).collect() }

fn enable_index(repo: &Arc<ReadonlyRepo>, max: u32) -> Arc<ReadonlyRepo> {
    let store: &DefaultIndexStore = repo.index_store().downcast_ref().unwrap();
    store.build_changed_path_index_at_operation(repo.op_id(), repo.store(), max, |_| ()).block_on().unwrap();
    repo.reload_at(repo.operation()).block_on().unwrap()
}

fn files_query(repo: &Arc<ReadonlyRepo>, p: &[u64]) -> Result<BTreeSet<CommitId>, String> {
    let expr = ResolvedRevsetExpression::filter(RevsetFilterPredicate::File(FilesetExpression::prefix_path(repo_path_of(p))));
    let rs = expr.evaluate(repo.as_ref()).map_err(|e| e.to_string())?;
    rs.stream().collect::<Vec<_>>().block_on().into_iter().map(|r| r.map_err(|e| e.to_string())).collect()
}

/// terms of the parents' merge without resolution, and the per-path expectation of the property text
fn oracle_changed(env: &Env, from: &[MTree], to: &[MTree]) -> (BTreeSet<Vec<u64>>, BTreeSet<Vec<u64>>) {
    // returns (changed, undecided): undecided = paths below a clash, which the oracle does not judge
    let mut paths = BTreeSet::new();
    for t in from.iter().chain(to.iter()) { all_paths(t, &mut vec![], &mut paths); }
    let (mut changed, mut undecided) = (BTreeSet::new(), BTreeSet::new());
    for p in paths {
        if !(no_clash_above(from, &p, env.accept) && no_clash_above(to, &p, env.accept)) { undecided.insert(p); continue; }
        let tree_as_absent = |e: Exp| match e { Exp::Resolved(Some(V::T(_))) => Exp::Resolved(None), Exp::Conflict(c, true) => { let _ = c; Exp::Resolved(None) } e => e };
        // before: the per-path merge of the parents' entries; after: the commit's value as stored
        let before = tree_as_absent(expected_at(env, from, &p));
        let to_vals: Vec<OV> = to.iter().map(|t| get(t, &p)).collect();
        let after = tree_as_absent(norm_actual(&to_vals, env.accept));
        let same = match (&before, &after) { (Exp::Resolved(a), Exp::Resolved(b)) => a == b, (Exp::Conflict(a, _), Exp::Conflict(b, _)) => a == b, _ => false };
        if !same { changed.insert(p); }
    }
    (changed, undecided)
}

struct Written { hist: Hist, real: Vec<Commit> }

/// base; two children editing different slots of the same files; a merge commit carrying the automatic
/// merge (so that only file-level resolution of the parents' side makes those paths "unchanged"),
/// sometimes with one more edit or with one side's version instead
fn gen_diamond(r: &mut Rng) -> Hist {
    let pal = Palette::new(r);
    let mut t0 = pal.tree(r, pal.max_depth);
    if t0.is_empty() { t0 = vec![(0, V::F(0, false))]; }
    let mut files = BTreeSet::new();
    all_paths(&t0, &mut vec![], &mut files);
    let files: Vec<Vec<u64>> = files.into_iter().filter(|p| matches!(get(&t0, p), Some(V::F(..)))).collect();
    let (mut t1, mut t2, mut tm) = (t0.clone(), t0.clone(), t0.clone());
    for p in files.iter() {
        if !r.chance(2, 3) { continue; }
        if let Some(V::F(id, x)) = get(&t0, p) {
            let (a, b) = (id / 3, id % 3);
            let (a2, b2) = ((a + 1 + r.below(2) as u64) % 3, (b + 1 + r.below(2) as u64) % 3);
            set(&mut t1, p, Some(V::F(3 * a2 + b, x)));
            set(&mut t2, p, Some(V::F(3 * a + b2, x)));
            set(&mut tm, p, Some(V::F(3 * a2 + b2, x)));
        }
    }
    match r.below(4) { 0 => { tm = pal.mutate(r, &tm); } 1 => { tm = t1.clone(); } _ => {} }
    if r.chance(1, 3) { t2 = pal.mutate(r, &t2); }
    Hist { commits: vec![(vec![], vec![vec![]]), (vec![0], vec![t0]), (vec![1], vec![t1]), (vec![1], vec![t2]), (vec![2, 3], vec![tm])] }
}

fn write_hist(env: &mut Env, tx: &mut jj_lib::transaction::Transaction, h: &Hist, tag: &str, from: usize, real: &mut Vec<Commit>) {
    for (i, (ps, ts)) in h.commits.iter().enumerate().skip(from) {
        let tree = env.conv.merged(ts);
        let pids: Vec<CommitId> = ps.iter().map(|p| real[*p].id().clone()).collect();
        real.push(tx.repo_mut().new_commit(pids, tree).set_description(format!("c22 {tag} commit {i}")).write().block_on().unwrap());
    }
}

fn check_commit(env: &mut Env, out: &mut Out, repo: &Arc<ReadonlyRepo>, w: &Written, i: usize, mode: &str) {
    let hs = w.hist.show();
    let req = format!("cp {} {hs} {i}", env.sc);
    let got = match guard(|| repo.index().changed_paths_in_commit(w.real[i].id()).block_on()) {
        Ok(Ok(Some(paths))) => paths.map(|p| parse_path(&p)).collect::<BTreeSet<_>>(),
        Ok(Ok(None)) => { out.tally(&format!("{mode}.indexed"), "no"); return; }
        Ok(Err(e)) => { out.oracle_fail("changed-paths:error", e.to_string()); return; }
        Err(e) => { out.oracle_fail("changed-paths:panic", e); return; }
    };
    out.tally(&format!("{mode}.indexed"), "yes");
    out.case(&req, &show_paths(&got));
    out.tally(&format!("{mode}.changed-paths"), &got.len().min(5).to_string());
    if w.hist.commits[i].0.len() > 1 { out.tally("commit", "merge"); } else { out.tally("commit", "single-parent"); }
    out.nontrivial((hs, i, env.accept));
    // oracle: parents' merge (unresolved terms, as jj flattens them) against the commit's tree
    let parents: Vec<Commit> = w.hist.commits[i].0.iter().map(|p| w.real[*p].clone()).collect();
    let from = match guard(|| jj_lib::rewrite::merge_commit_trees_no_resolve(repo.as_ref(), &parents).block_on()) { Ok(Ok(t)) => t, _ => return };
    let from_terms = match env.conv.read_merged(&from) { Ok(t) => t, Err(_) => return };
    let (changed, undecided) = oracle_changed(env, &from_terms, &w.hist.commits[i].1);
    let missing: Vec<_> = changed.iter().filter(|p| !got.contains(*p)).collect();
    let extra: Vec<_> = got.iter().filter(|p| !changed.contains(*p) && !undecided.contains(*p)).collect();
    if missing.is_empty() && extra.is_empty() { out.oracle_ok() }
    else if !missing.is_empty() { out.oracle_fail("changed-paths:differing-path-not-recorded", format!("{req}: recorded {} missing {missing:?}", show_paths(&got))) }
    else { out.oracle_fail("changed-paths:recorded-path-does-not-differ", format!("{req}: recorded {} extra {extra:?}", show_paths(&got))) }
}

fn diff_case(env: &mut Env, out: &mut Out, a: &[MTree], b: &[MTree]) {
    let (ta, tb) = (env.conv.merged(a), env.conv.merged(b));
    let req = format!("diff {} {} {}", env.sc, show_trees(a), show_trees(b));
    let entries: Vec<_> = match guard(|| ta.diff_stream(&tb, &EverythingMatcher).collect::<Vec<_>>().block_on()) { Ok(e) => e, Err(e) => { out.case(&req, "panic"); out.oracle_fail("tree-diff:panic", e); return; } };
    let mut shown = vec![];
    let mut seen = BTreeSet::new();
    for e in entries {
        let p = parse_path(&e.path);
        let d = match e.values { Ok(d) => d, Err(err) => { out.case(&req, "err"); out.oracle_fail("tree-diff:error", err.to_string()); return; } };
        let (bv, av) = match (env.conv.mval(&e.path, &d.before), env.conv.mval(&e.path, &d.after)) { (Ok(x), Ok(y)) => (x, y), _ => { out.case(&req, "undecodable"); return; } };
        seen.insert(p.clone());
        shown.push((p, format!("{}>{}", show_mval(&bv), show_mval(&av))));
    }
    shown.sort();
    out.case(&req, &if shown.is_empty() { "-".to_string() } else { shown.iter().map(|(p, v)| format!("{}={v}", show_path(p))).collect::<Vec<_>>().join(",") });
    out.tally("diff.entries", &shown.len().min(6).to_string());
    // oracle: for unconflicted trees the diff is exactly the set of non-directory paths whose entries differ
    if a.len() == 1 && b.len() == 1 {
        let mut paths = BTreeSet::new();
        all_paths(&a[0], &mut vec![], &mut paths); all_paths(&b[0], &mut vec![], &mut paths);
        let leaf = |v: OV| match v { Some(V::T(_)) => None, o => o };
        let exp: BTreeSet<Vec<u64>> = paths.into_iter().filter(|p| leaf(get(&a[0], p)) != leaf(get(&b[0], p))).collect();
        if exp == seen { out.oracle_ok() } else { out.oracle_fail("tree-diff:not-the-set-of-differing-paths", format!("{req}: got {} expected {}", show_paths(&seen), show_paths(&exp))); }
    }
}

fn batch(accept: bool, out: &mut Out, r: &mut Rng, batch_no: u64, size: usize) {
    // A: index enabled first, commits indexed as they are written
    let mut env_a = Env::new(accept);
    let mut repo_a = enable_index(&env_a.repo.repo.clone(), 0);
    // B: no index while writing; rebuilt at the end
    let mut env_b = Env::new(accept);
    let mut repo_b = env_b.repo.repo.clone();
    let (mut written_a, mut written_b): (Vec<Written>, Vec<Written>) = (vec![], vec![]);
    // histories are written in groups (one operation per group; every transaction costs several fsyncs)
    let group = 8;
    let mut tx_b = repo_b.start_transaction();
    let mut k = 0;
    while k < size {
        let hs: Vec<Hist> = (k..(k + group).min(size)).map(|j| if j % 4 == 3 { gen_diamond(r) } else { gen_case(&mut env_a, r, j % 2 == 1).0 }).collect();
        let concurrent = r.chance(1, 3);
        let base = repo_a.clone();
        let mut tx1 = base.start_transaction();
        let mut tx2_items: Vec<(usize, usize)> = vec![]; // (history index, first commit to write later)
        let mut reals: Vec<Vec<Commit>> = vec![];
        for (j, h) in hs.iter().enumerate() {
            let tag = format!("{batch_no}.{}.{}", k + j, env_a.sc);
            let mut real = vec![repo_a.store().root_commit()];
            if concurrent && h.commits.len() > 3 {
                // first half now, the rest in a second operation on top
                let half = h.commits.len() / 2;
                let h1 = Hist { commits: h.commits[..half].to_vec() };
                write_hist(&mut env_a, &mut tx1, &h1, &tag, 1, &mut real);
                tx2_items.push((j, half));
            } else {
                write_hist(&mut env_a, &mut tx1, h, &tag, 1, &mut real);
            }
            reals.push(real);
        }
        let r1 = tx1.commit("group").block_on().unwrap();
        if concurrent {
            let mut tx2 = r1.start_transaction();
            for (j, half) in &tx2_items {
                let tag = format!("{batch_no}.{}.{}", k + j, env_a.sc);
                write_hist(&mut env_a, &mut tx2, &hs[*j], &tag, *half, &mut reals[*j]);
            }
            let _r2 = tx2.commit("second halves").block_on().unwrap();
            // an unrelated concurrent operation on the old base; reloading merges the two operation heads
            let mut tx3 = base.start_transaction();
            let extra = env_a.conv.merged(&[vec![(0, V::F((k % 9) as u64, false))]]);
            tx3.repo_mut().new_commit(vec![base.store().root_commit_id().clone()], extra).set_description(format!("c22 {batch_no}.{k} side")).write().block_on().unwrap();
            let r3 = tx3.commit("concurrent").block_on().unwrap();
            repo_a = r3.reload_at_head().block_on().unwrap();
            out.tally("incremental.write", "concurrent-ops");
        } else {
            repo_a = r1;
            out.tally("incremental.write", "one-op");
        }
        for (j, h) in hs.into_iter().enumerate() {
            let w = Written { hist: Hist { commits: h.commits.clone() }, real: std::mem::take(&mut reals[j]) };
            for i in 1..w.hist.commits.len() { check_commit(&mut env_a, out, &repo_a, &w, i, "incremental"); }
            written_a.push(w);
            // B: the same history in the index-less repo (one operation per batch)
            let tag = format!("{batch_no}.{}.{}", k + j, env_b.sc);
            let mut real_b = vec![repo_b.store().root_commit()];
            write_hist(&mut env_b, &mut tx_b, &h, &tag, 1, &mut real_b);
            // diff_stream on two trees of the history
            let n = h.commits.len();
            let (x, y) = (r.below(n), r.below(n));
            let (tx_, ty_) = (h.commits[x].1.clone(), h.commits[y].1.clone());
            diff_case(&mut env_b, out, &tx_, &ty_);
            written_b.push(Written { hist: h, real: real_b });
        }
        k += group;
    }
    repo_b = tx_b.commit("batch").block_on().unwrap();
    // files() by scanning (no index) …
    let probes: Vec<Vec<u64>> = vec![vec![0], vec![1], vec![2], vec![0, 1], vec![1, 0], vec![2, 2]];
    let scan: Vec<_> = probes.iter().map(|p| files_query(&repo_b, p)).collect();
    // … and with a (partially or fully) rebuilt index
    let max = *r.pick(&[3u32, 17, u32::MAX]);
    let repo_b2 = enable_index(&repo_b, max);
    for w in &written_b { for i in 1..w.hist.commits.len() { check_commit(&mut env_b, out, &repo_b2, w, i, "rebuilt"); } }
    for (p, s) in probes.iter().zip(&scan) {
        match (s, files_query(&repo_b2, p)) {
            (Ok(a), Ok(b)) => { if *a == b { out.oracle_ok(); out.tally("files-query", if a.is_empty() { "same:empty" } else { "same:nonempty" }); } else { out.oracle_fail("changed-paths:files-query-differs-with-index", format!("files({}) without index: {} commits, with index (max {max}): {} commits", show_path(p), a.len(), b.len())); } }
            (Err(e), _) => out.oracle_fail("changed-paths:files-query-error", e.clone()),
            (_, Err(e)) => out.oracle_fail("changed-paths:files-query-error", e),
        }
    }
    // the incrementally built index answers files() like the scan of the same commits (by description-independent tree content: compare counts per probe)
    for p in &probes {
        if let (Ok(a), Ok(b)) = (files_query(&repo_a, p), files_query(&repo_b2, p)) {
            // repo A has one extra side commit per concurrent case touching path 0 only
            if p != &vec![0u64] { if a.len() == b.len() { out.oracle_ok() } else { out.oracle_fail("changed-paths:files-query-differs-incremental-vs-rebuilt", format!("files({}): {} vs {}", show_path(p), a.len(), b.len())); } }
        }
    }
    let _ = Merge::resolved(0);
}

pub fn run(cfg: &Cfg, out: &mut Out) {
    std::panic::set_hook(Box::new(|_| {}));
    // the repos live in temp dirs that are removed when the batch ends; prefer a RAM-backed one (many fsyncs)
    if std::path::Path::new("/dev/shm").is_dir() && std::env::var_os("JJVERIF_KEEP_TMPDIR").is_none() {
        // SAFETY: single-threaded at this point
        unsafe { std::env::set_var("TMPDIR", "/dev/shm") };
    }
    let mut r = cfg.rng(22);
    let batches = cfg.n(40, 600);
    for b in 0..batches {
        batch(b % 3 != 2, out, &mut r, b, 40);
    }
    out.note("batches of 40 histories (1 in 4 a diamond whose merge commit carries the automatic content merge of its parents; the others random as in C08: linear / merges / criss-cross / redundant parents, 1 in 6 commit trees conflicted) written into two fresh repos: one with the changed-path index enabled beforehand (1 in 3 histories through concurrent operations merged on reload), one indexed afterwards with max_commits ∈ {3, 17, all}; both same-change settings".to_string());
}
