//! C22 — the changed-path index agrees with tree diffs.
//!
//! Real code: `default_index::changed_path::collect_changed_paths` (through the index:
//! `Index::changed_paths_in_commit`), index built **incrementally** (enabled before the commits are
//! written, some histories written by two concurrent transactions that are merged on reload) and
//! **rebuilt** (`build_changed_path_index_at_operation` afterwards, fully or partially);
//! `MergedTree::diff_stream`; the `files()` revset predicate with and without the index.
//! Model requests: `cp` (changed paths of a commit), `diff` (diff stream of two merged trees).
//! Oracle (property text): a path is recorded iff its content differs between the commit and the
//! merge of its parents (per-path merge of the parents' entries as in C07, directories count as absent),
//! for paths with no file/directory clash above them on either side; `files(p)` selects the same
//! commits with the index and by scanning.
use super::c07::tree_common::*;
use super::c07::{expected_at, norm_actual, Env, Exp};
use super::c08::{gen_case, Hist};
use crate::rt::*;
use jj_lib::backend::CommitId;
use jj_lib::commit::Commit;
use jj_lib::default_index::DefaultIndexStore;
use jj_lib::fileset::FilesetExpression;
use jj_lib::matchers::EverythingMatcher;
use jj_lib::merge::Merge;
use jj_lib::repo::{ReadonlyRepo, Repo as _};
use jj_lib::revset::{ResolvedRevsetExpression, RevsetFilterPredicate};
use futures::StreamExt as _;
use pollster::FutureExt as _;
use std::collections::BTreeSet;
use std::sync::Arc;

fn show_paths(ps: &BTreeSet<Vec<u64>>) -> String { if ps.is_empty() { "-".into() } else { ps.iter().map(|p| show_path(p)).collect::<Vec<_>>().join(",") } }
fn parse_path(p: &jj_lib::repo_path::RepoPath) -> Vec<u64> { p.as_internal_file_string().split('/').filter(|s| !s.is_empty()).map(|s| s.parse().unwrap()).collect() }

fn enable_index(repo: &Arc<ReadonlyRepo>, max: u32) -> Arc<ReadonlyRepo> {
    let store: &DefaultIndexStore = repo.index_store().downcast_ref().unwrap();
    store.build_changed_path_index_at_operation(repo.op_id(), repo.store(), max, |_| ()).block_on().unwrap();
    repo.reload_at(repo.operation()).block_on().unwrap()
}

fn files_query(repo: &Arc<ReadonlyRepo>, p: &[u64]) -> Result<BTreeSet<CommitId>, String> { files_query_dyn(repo.as_ref(), p) }
fn files_query_dyn(repo: &dyn jj_lib::repo::Repo, p: &[u64]) -> Result<BTreeSet<CommitId>, String> {
    let expr = ResolvedRevsetExpression::filter(RevsetFilterPredicate::File(FilesetExpression::prefix_path(repo_path_of(p))));
    let rs = expr.evaluate(repo).map_err(|e| e.to_string())?;
    rs.stream().collect::<Vec<_>>().block_on().into_iter().map(|r| r.map_err(|e| e.to_string())).collect()
}

/// terms of the parents' merge without resolution, and the per-path expectation of the property text
fn oracle_changed(env: &Env, from: &[MTree], to: &[MTree]) -> (BTreeSet<Vec<u64>>, BTreeSet<Vec<u64>>, usize) {
    // returns (changed, undecided, permuted): undecided = paths the oracle does not judge: below a clash, or (counted in
    // `permuted`) unresolved conflicts on both sides with the same signed terms in a different order / number
    let mut paths = BTreeSet::new();
    for t in from.iter().chain(to.iter()) { all_paths(t, &mut vec![], &mut paths); }
    let (mut changed, mut undecided, mut permuted) = (BTreeSet::new(), BTreeSet::new(), 0usize);
    for p in paths {
        if !(no_clash_above(from, &p, env.accept) && no_clash_above(to, &p, env.accept)) { undecided.insert(p); continue; }
        let tree_as_absent = |e: Exp| match e { Exp::Resolved(Some(V::T(_))) => Exp::Resolved(None), Exp::Conflict(c, true) => { let _ = c; Exp::Resolved(None) } e => e };
        // before: the per-path merge of the parents' entries; after: the commit's value as stored
        let before = tree_as_absent(expected_at(env, from, &p));
        let to_vals: Vec<OV> = to.iter().map(|t| get(t, &p)).collect();
        let after = tree_as_absent(norm_actual(&to_vals, env.accept));
        let same = match (&before, &after) { (Exp::Resolved(a), Exp::Resolved(b)) => a == b, (Exp::Conflict(a, _), Exp::Conflict(b, _)) => a == b, _ => false };
        if same && matches!(before, Exp::Conflict(..)) {
            // Both sides are unresolved conflicts with the same signed multiset of terms. Whether the *stored*
            // conflicts are the same content depends on the order (and number) of their terms — jj's `Merge`
            // equality, its tree ids and the materialized conflict all depend on it ([dir, ~, f] against
            // [f, ~, dir] is a different conflict) — which the multiset cannot tell: judged only when the
            // term lists are literally equal.
            let from_vals: Vec<OV> = from.iter().map(|t| get(t, &p)).collect();
            if from_vals != to_vals { undecided.insert(p); permuted += 1; continue; }
        }
        if !same { changed.insert(p); }
    }
    (changed, undecided, permuted)
}

struct Written { hist: Hist, real: Vec<Commit> }

/// base; two children editing different slots of the same files; a merge commit carrying the automatic
/// merge (so that only file-level resolution of the parents' side makes those paths "unchanged"),
/// sometimes with one more edit or with one side's version instead
fn gen_diamond(r: &mut Rng) -> Hist {
    let pal = Palette::new(r);
    let mut t0 = pal.tree(r, pal.max_depth);
    if t0.is_empty() { t0 = vec![(0, V::F(0, false))]; }
    let mut files = BTreeSet::new();
    all_paths(&t0, &mut vec![], &mut files);
    let files: Vec<Vec<u64>> = files.into_iter().filter(|p| matches!(get(&t0, p), Some(V::F(..)))).collect();
    let (mut t1, mut t2, mut tm) = (t0.clone(), t0.clone(), t0.clone());
    for p in files.iter() {
        if !r.chance(2, 3) { continue; }
        if let Some(V::F(id, x)) = get(&t0, p) {
            let (a, b) = (id / 3, id % 3);
            let (a2, b2) = ((a + 1 + r.below(2) as u64) % 3, (b + 1 + r.below(2) as u64) % 3);
            set(&mut t1, p, Some(V::F(3 * a2 + b, x)));
            set(&mut t2, p, Some(V::F(3 * a + b2, x)));
            set(&mut tm, p, Some(V::F(3 * a2 + b2, x)));
        }
    }
    match r.below(4) { 0 => { tm = pal.mutate(r, &tm); } 1 => { tm = t1.clone(); } _ => {} }
    if r.chance(1, 3) { t2 = pal.mutate(r, &t2); }
    Hist { commits: vec![(vec![], vec![vec![]]), (vec![0], vec![t0]), (vec![1], vec![t1]), (vec![1], vec![t2]), (vec![2, 3], vec![tm])] }
}

fn write_hist(env: &mut Env, tx: &mut jj_lib::transaction::Transaction, h: &Hist, tag: &str, from: usize, real: &mut Vec<Commit>) {
    write_range(env, tx, h, tag, from, h.commits.len(), real)
}
fn write_range(env: &mut Env, tx: &mut jj_lib::transaction::Transaction, h: &Hist, tag: &str, from: usize, to: usize, real: &mut Vec<Commit>) {
    for (i, (ps, ts)) in h.commits.iter().enumerate().take(to).skip(from) {
        let tree = env.conv.merged(ts);
        let pids: Vec<CommitId> = ps.iter().map(|p| real[*p].id().clone()).collect();
        real.push(tx.repo_mut().new_commit(pids, tree).set_description(format!("c22 {tag} commit {i}")).write().block_on().unwrap());
    }
}

fn check_commit(env: &mut Env, out: &mut Out, repo: &Arc<ReadonlyRepo>, w: &Written, i: usize, mode: &str) {
    let hs = w.hist.show();
    let req = format!("cp {} {hs} {i}", env.sc);
    let got = match guard(|| repo.index().changed_paths_in_commit(w.real[i].id()).block_on()) {
        Ok(Ok(Some(paths))) => paths.map(|p| parse_path(&p)).collect::<BTreeSet<_>>(),
        Ok(Ok(None)) => { out.tally(&format!("{mode}.indexed"), "no"); return; }
        Ok(Err(e)) => { out.oracle_fail("changed-paths:error", e.to_string()); return; }
        Err(e) => { out.oracle_fail("changed-paths:panic", e); return; }
    };
    out.tally(&format!("{mode}.indexed"), "yes");
    out.case(&req, &show_paths(&got));
    out.tally(&format!("{mode}.changed-paths"), &got.len().min(5).to_string());
    if w.hist.commits[i].0.len() > 1 { out.tally("commit", "merge"); } else { out.tally("commit", "single-parent"); }
    out.nontrivial((hs, i, env.accept));
    // oracle: parents' merge (unresolved terms, as jj flattens them) against the commit's tree
    let parents: Vec<Commit> = w.hist.commits[i].0.iter().map(|p| w.real[*p].clone()).collect();
    let from = match guard(|| jj_lib::rewrite::merge_commit_trees_no_resolve(repo.as_ref(), &parents).block_on()) { Ok(Ok(t)) => t, _ => return };
    let from_terms = match env.conv.read_merged(&from) { Ok(t) => t, Err(_) => return };
    let (changed, undecided, permuted) = oracle_changed(env, &from_terms, &w.hist.commits[i].1);
    if permuted > 0 { out.tally("oracle.not-judged", "same-conflict-terms-in-another-order"); }
    let missing: Vec<_> = changed.iter().filter(|p| !got.contains(*p)).collect();
    let extra: Vec<_> = got.iter().filter(|p| !changed.contains(*p) && !undecided.contains(*p)).collect();
    if missing.is_empty() && extra.is_empty() { out.oracle_ok() }
    else if !missing.is_empty() { out.oracle_fail("changed-paths:differing-path-not-recorded", format!("{req}: recorded {} missing {missing:?}", show_paths(&got))) }
    else { out.oracle_fail("changed-paths:recorded-path-does-not-differ", format!("{req}: recorded {} extra {extra:?}", show_paths(&got))) }
}

fn diff_case(env: &mut Env, out: &mut Out, a: &[MTree], b: &[MTree]) {
    let (ta, tb) = (env.conv.merged(a), env.conv.merged(b));
    let req = format!("diff {} {} {}", env.sc, show_trees(a), show_trees(b));
    let entries: Vec<_> = match guard(|| ta.diff_stream(&tb, &EverythingMatcher).collect::<Vec<_>>().block_on()) { Ok(e) => e, Err(e) => { out.case(&req, "panic"); out.oracle_fail("tree-diff:panic", e); return; } };
    let mut shown = vec![];
    let mut seen = BTreeSet::new();
    for e in entries {
        let p = parse_path(&e.path);
        let d = match e.values { Ok(d) => d, Err(err) => { out.case(&req, "err"); out.oracle_fail("tree-diff:error", err.to_string()); return; } };
        let (bv, av) = match (env.conv.mval(&e.path, &d.before), env.conv.mval(&e.path, &d.after)) { (Ok(x), Ok(y)) => (x, y), _ => { out.case(&req, "undecodable"); return; } };
        seen.insert(p.clone());
        shown.push((p, format!("{}>{}", show_mval(&bv), show_mval(&av))));
    }
    shown.sort();
    out.case(&req, &if shown.is_empty() { "-".to_string() } else { shown.iter().map(|(p, v)| format!("{}={v}", show_path(p))).collect::<Vec<_>>().join(",") });
    out.tally("diff.entries", &shown.len().min(6).to_string());
    // oracle: for unconflicted trees the diff is exactly the set of non-directory paths whose entries differ
    if a.len() == 1 && b.len() == 1 {
        let mut paths = BTreeSet::new();
        all_paths(&a[0], &mut vec![], &mut paths); all_paths(&b[0], &mut vec![], &mut paths);
        let leaf = |v: OV| match v { Some(V::T(_)) => None, o => o };
        let exp: BTreeSet<Vec<u64>> = paths.into_iter().filter(|p| leaf(get(&a[0], p)) != leaf(get(&b[0], p))).collect();
        if exp == seen { out.oracle_ok() } else { out.oracle_fail("tree-diff:not-the-set-of-differing-paths", format!("{req}: got {} expected {}", show_paths(&seen), show_paths(&exp))); }
    }
}

fn batch(accept: bool, out: &mut Out, r: &mut Rng, batch_no: u64, size: usize) {
    // A: index enabled first, commits indexed as they are written
    let mut env_a = Env::new(accept);
    let mut repo_a = enable_index(&env_a.repo.repo.clone(), 0);
    // B: no index while writing; rebuilt at the end
    let mut env_b = Env::new(accept);
    let mut repo_b = env_b.repo.repo.clone();
    let (mut written_a, mut written_b): (Vec<Written>, Vec<Written>) = (vec![], vec![]);
    // histories are written in groups (one operation per group; every transaction costs several fsyncs)
    let group = 8;
    let mut tx_b = repo_b.start_transaction();
    let mut k = 0;
    while k < size {
        let hs: Vec<Hist> = (k..(k + group).min(size)).map(|j| if j % 4 == 3 { gen_diamond(r) } else { gen_case(&mut env_a, r, j % 2 == 1).0 }).collect();
        let concurrent = r.chance(1, 3);
        let base = repo_a.clone();
        let mut tx1 = base.start_transaction();
        let mut tx2_items: Vec<(usize, usize)> = vec![]; // (history index, first commit to write later)
        let mut reals: Vec<Vec<Commit>> = vec![];
        for (j, h) in hs.iter().enumerate() {
            let tag = format!("{batch_no}.{}.{}", k + j, env_a.sc);
            let mut real = vec![repo_a.store().root_commit()];
            if concurrent && h.commits.len() > 3 {
                // first half now, the rest in a second operation on top
                let half = h.commits.len() / 2;
                let h1 = Hist { commits: h.commits[..half].to_vec() };
                write_hist(&mut env_a, &mut tx1, &h1, &tag, 1, &mut real);
                tx2_items.push((j, half));
            } else {
                write_hist(&mut env_a, &mut tx1, h, &tag, 1, &mut real);
            }
            reals.push(real);
        }
        let r1 = tx1.commit("group").block_on().unwrap();
        if concurrent {
            let mut tx2 = r1.start_transaction();
            for (j, half) in &tx2_items {
                let tag = format!("{batch_no}.{}.{}", k + j, env_a.sc);
                write_hist(&mut env_a, &mut tx2, &hs[*j], &tag, *half, &mut reals[*j]);
            }
            let _r2 = tx2.commit("second halves").block_on().unwrap();
            // an unrelated concurrent operation on the old base; reloading merges the two operation heads
            let mut tx3 = base.start_transaction();
            let extra = env_a.conv.merged(&[vec![(0, V::F((k % 9) as u64, false))]]);
            tx3.repo_mut().new_commit(vec![base.store().root_commit_id().clone()], extra).set_description(format!("c22 {batch_no}.{k} side")).write().block_on().unwrap();
            let r3 = tx3.commit("concurrent").block_on().unwrap();
            repo_a = r3.reload_at_head().block_on().unwrap();
            out.tally("incremental.write", "concurrent-ops");
        } else {
            repo_a = r1;
            out.tally("incremental.write", "one-op");
        }
        for (j, h) in hs.into_iter().enumerate() {
            let w = Written { hist: Hist { commits: h.commits.clone() }, real: std::mem::take(&mut reals[j]) };
            for i in 1..w.hist.commits.len() { check_commit(&mut env_a, out, &repo_a, &w, i, "incremental"); }
            written_a.push(w);
            // B: the same history in the index-less repo (one operation per batch)
            let tag = format!("{batch_no}.{}.{}", k + j, env_b.sc);
            let mut real_b = vec![repo_b.store().root_commit()];
            write_hist(&mut env_b, &mut tx_b, &h, &tag, 1, &mut real_b);
            // diff_stream on two trees of the history
            let n = h.commits.len();
            let (x, y) = (r.below(n), r.below(n));
            let (tx_, ty_) = (h.commits[x].1.clone(), h.commits[y].1.clone());
            diff_case(&mut env_b, out, &tx_, &ty_);
            written_b.push(Written { hist: h, real: real_b });
        }
        k += group;
    }
    repo_b = tx_b.commit("batch").block_on().unwrap();
    // files() by scanning (no index) …
    let probes: Vec<Vec<u64>> = vec![vec![0], vec![1], vec![2], vec![0, 1], vec![1, 0], vec![2, 2]];
    let scan: Vec<_> = probes.iter().map(|p| files_query(&repo_b, p)).collect();
    // … and with a (partially or fully) rebuilt index
    let max = *r.pick(&[3u32, 17, u32::MAX]);
    let repo_b2 = enable_index(&repo_b, max);
    for w in &written_b { for i in 1..w.hist.commits.len() { check_commit(&mut env_b, out, &repo_b2, w, i, "rebuilt"); } }
    for (p, s) in probes.iter().zip(&scan) {
        match (s, files_query(&repo_b2, p)) {
            (Ok(a), Ok(b)) => { if *a == b { out.oracle_ok(); out.tally("files-query", if a.is_empty() { "same:empty" } else { "same:nonempty" }); } else { out.oracle_fail("changed-paths:files-query-differs-with-index", format!("files({}) without index: {} commits, with index (max {max}): {} commits", show_path(p), a.len(), b.len())); } }
            (Err(e), _) => out.oracle_fail("changed-paths:files-query-error", e.clone()),
            (_, Err(e)) => out.oracle_fail("changed-paths:files-query-error", e),
        }
    }
    // the incrementally built index answers files() like the scan of the same commits (by description-independent tree content: compare counts per probe)
    for p in &probes {
        if let (Ok(a), Ok(b)) = (files_query(&repo_a, p), files_query(&repo_b2, p)) {
            // repo A has one extra side commit per concurrent case touching path 0 only
            if p != &vec![0u64] { if a.len() == b.len() { out.oracle_ok() } else { out.oracle_fail("changed-paths:files-query-differs-incremental-vs-rebuilt", format!("files({}): {} vs {}", show_path(p), a.len(), b.len())); } }
        }
    }
    let _ = Merge::resolved(0);
}

// ---------------------------------------------------------------------------------------------------
// Concurrent operations whose changed-path indexes cover different commit ranges (index enabled
// part-way on one side), merged in both orders.  `DefaultMutableIndex::merge_in` copies the other
// side's entries positionally: an entry may only be appended while every earlier merged-in commit
// has one.
// ---------------------------------------------------------------------------------------------------

/// one side of the fork: `pre` of its commits, then (optionally) `build_changed_path_index_at_operation`
/// with `max_commits = enable` at its own operation, then the rest of its commits
#[derive(Clone, Copy, Debug)]
struct SidePlan { pre: usize, enable: Option<u32> }

#[derive(Clone, Debug)]
struct Plan {
    /// commits shared by both sides (written before the fork), and whether the index was enabled before them
    common: usize, common_indexed: bool,
    a: SidePlan, b: SidePlan,
    /// chain lengths of the sides (fixed scenarios); `random`: sides are random histories instead
    na: usize, nb: usize, random: bool,
    /// merge B's operation into a transaction based on A's (else the other way round)
    b_into_a: bool,
    /// commits written on top of the merged operation; rebuild of the merged index afterwards
    after: usize, rebuild: Option<u32>,
}

fn show_plan(p: &Plan) -> String {
    let en = |e: Option<u32>| match e { None => "never".to_string(), Some(u32::MAX) => "all".to_string(), Some(m) => m.to_string() };
    format!("common={}{} a:[pre={} enable={} n={}] b:[pre={} enable={} n={}] merge={} after={} rebuild={}{}",
        p.common, if p.common_indexed { "(indexed)" } else { "" }, p.a.pre, en(p.a.enable), p.na, p.b.pre, en(p.b.enable), p.nb,
        if p.b_into_a { "b-into-a" } else { "a-into-b" }, p.after, p.rebuild.map_or("no".to_string(), |m| en(Some(m))), if p.random { " random-histories" } else { "" })
}

/// histories of one writer; `own_from[j]`: first commit of history `j` that this writer writes itself
/// (earlier ones are the shared commits the chain continues)
struct Side { ws: Vec<Written>, tags: Vec<String>, own_from: Vec<usize> }
impl Side {
    fn new() -> Side { Side { ws: vec![], tags: vec![], own_from: vec![] } }
    fn push(&mut self, hist: Hist, tag: String, real_prefix: Vec<Commit>) {
        self.own_from.push(real_prefix.len());
        self.ws.push(Written { hist, real: real_prefix });
        self.tags.push(tag);
    }
    fn flat(&self) -> Vec<(usize, usize)> {
        self.ws.iter().enumerate().flat_map(|(j, w)| (self.own_from[j]..w.hist.commits.len()).map(move |i| (j, i))).collect()
    }
    fn write(&mut self, env: &mut Env, tx: &mut jj_lib::transaction::Transaction, items: &[(usize, usize)]) {
        for (j, i) in items {
            let w = &mut self.ws[*j];
            write_range(env, tx, &w.hist, &self.tags[*j], *i, *i + 1, &mut w.real);
        }
    }
}

/// appends `n` commits to the chain; commit number `c` (counted over the whole scenario) rewrites the
/// file at path `[c % 3, (c / 3) % 3]`, so consecutive commits record different path lists
fn extend_chain(h: &mut Hist, n: usize, counter: &mut usize) {
    for _ in 0..n {
        let c = *counter; *counter += 1;
        let parent = h.commits.len() - 1;
        let mut t = h.commits[parent].1.last().unwrap().clone();
        let p = [(c % 3) as u64, ((c / 3) % 3) as u64];
        let id = match get(&t, &p) { Some(V::F(id, _)) => (id + 1 + 3 * (c as u64 % 2)) % 9, _ => (2 * c as u64 + 1) % 9 };
        set(&mut t, &p, Some(V::F(id, false)));
        h.commits.push((vec![parent], vec![t]));
    }
}
fn copy_hist(h: &Hist) -> Hist { Hist { commits: h.commits.clone() } }

fn run_side(env: &mut Env, base: &Arc<ReadonlyRepo>, side: &mut Side, plan: SidePlan) -> Arc<ReadonlyRepo> {
    let flat = side.flat();
    let pre = plan.pre.min(flat.len());
    // the first operation is written even when empty: the index is then enabled at an operation of this side only
    let mut tx = base.start_transaction();
    side.write(env, &mut tx, &flat[..pre]);
    let mut repo = tx.commit("c22 side, before enabling").block_on().unwrap();
    if let Some(m) = plan.enable { repo = enable_index(&repo, m); }
    if pre < flat.len() {
        let mut tx = repo.start_transaction();
        side.write(env, &mut tx, &flat[pre..]);
        repo = tx.commit("c22 side, after enabling").block_on().unwrap();
    }
    repo
}

fn descriptions(store: &Arc<jj_lib::store::Store>, ids: &BTreeSet<CommitId>) -> BTreeSet<String> {
    ids.iter().map(|id| store.get_commit(id).map(|c| c.description().to_string()).unwrap_or_else(|e| format!("unreadable {e}"))).collect()
}

fn scenario(env: &mut Env, env_c: &mut Env, out: &mut Out, r: &mut Rng, scn: u64, plan: &Plan) {
    let sc = env.sc;
    let what = show_plan(plan);
    let root_repo = env.repo.repo.clone(); // the initial operation: root commit only, no changed-path index
    let root = root_repo.store().root_commit();
    let mut counter = (scn as usize) * 5;
    // shared part
    let mut base = root_repo.clone();
    let mut common = Side::new();
    let mut common_h = Hist { commits: vec![(vec![], vec![vec![]])] };
    extend_chain(&mut common_h, plan.common, &mut counter);
    common.push(copy_hist(&common_h), format!("p{scn}.c.{sc}"), vec![root.clone()]);
    if plan.common_indexed {
        base = base.start_transaction().commit("c22 fork base").block_on().unwrap();
        base = enable_index(&base, 0);
    }
    if plan.common > 0 {
        let mut tx = base.start_transaction();
        let flat = common.flat();
        common.write(env, &mut tx, &flat);
        base = tx.commit("c22 shared commits").block_on().unwrap();
    }
    // the two writers
    let mut sides = [Side::new(), Side::new()];
    for (k, side) in sides.iter_mut().enumerate() {
        let name = ["a", "b"][k];
        let n = if k == 0 { plan.na } else { plan.nb };
        let hists = if plan.random { r.range(1, 2) } else { 1 };
        for j in 0..hists {
            let tag = format!("p{scn}.{name}{j}.{sc}");
            match if plan.random { r.below(4) } else { 0 } {
                0 => {
                    let mut h = copy_hist(&common_h);
                    extend_chain(&mut h, if plan.random { r.range(1, 4) } else { n }, &mut counter);
                    side.push(h, tag, common.ws[0].real.clone());
                }
                1 => side.push(gen_diamond(r), tag, vec![root.clone()]),
                _ => side.push(gen_case(env, r, false).0, tag, vec![root.clone()]),
            }
        }
    }
    let mut plan = plan.clone();
    if plan.random {
        // the enabling point anywhere in the side's commits, mostly strictly inside
        for (k, sp) in [&mut plan.a, &mut plan.b].into_iter().enumerate() {
            let len = sides[k].flat().len();
            sp.pre = if len >= 2 && r.chance(3, 4) { r.range(1, len - 1) } else { r.below(len + 1) };
        }
    }
    let [side_a, side_b] = &mut sides;
    let repo_a = run_side(env, &base, side_a, plan.a);
    let repo_b = run_side(env, &base, side_b, plan.b);
    let (x, y) = if plan.b_into_a { (&repo_a, &repo_b) } else { (&repo_b, &repo_a) };
    let merged = guard(|| -> Result<Arc<ReadonlyRepo>, String> {
        let mut tx = x.start_transaction();
        tx.merge_operation(base.operation(), y.operation()).block_on().map_err(|e| e.to_string())?;
        tx.commit("c22 merge of concurrent operations").block_on().map_err(|e| e.to_string())
    });
    let mut merged = match merged {
        Ok(Ok(m)) => m,
        Ok(Err(e)) => { out.oracle_fail("changed-paths:merging-operations-failed", format!("{what}: {e}")); return; }
        Err(e) => { out.oracle_fail("changed-paths:merging-operations-panicked", format!("{what}: {e}")); return; }
    };
    out.tally("concurrent.merge", if plan.b_into_a { "b-into-a" } else { "a-into-b" });
    // more commits on top of the merged operation
    let mut after = Side::new();
    if plan.after > 0 {
        let h = if plan.random && r.chance(1, 2) { gen_case(env, r, false).0 } else { let mut h = Hist { commits: vec![(vec![], vec![vec![]])] }; extend_chain(&mut h, plan.after, &mut counter); h };
        after.push(h, format!("p{scn}.z.{sc}"), vec![root.clone()]);
        let mut tx = merged.start_transaction();
        let flat = after.flat();
        after.write(env, &mut tx, &flat);
        merged = tx.commit("c22 on top of the merge").block_on().unwrap();
    }
    // the same commits in a repository that never had the index (not committed: the scan runs on the transaction)
    let repo_c = env_c.repo.repo.clone();
    let root_c = repo_c.store().root_commit();
    let mut tx_c = repo_c.start_transaction();
    let mut common_c = vec![root_c.clone()];
    write_range(env_c, &mut tx_c, &common.ws[0].hist, &common.tags[0], 1, common.ws[0].hist.commits.len(), &mut common_c);
    for side in [&sides[0], &sides[1], &after] {
        for (j, w) in side.ws.iter().enumerate() {
            let mut real_c = common_c[..side.own_from[j]].to_vec();
            write_range(env_c, &mut tx_c, &w.hist, &side.tags[j], side.own_from[j], w.hist.commits.len(), &mut real_c);
        }
    }
    let probes: Vec<Vec<u64>> = vec![vec![0], vec![1], vec![2], vec![0, 1], vec![1, 0], vec![2, 2]];
    let scan: Vec<_> = probes.iter().map(|p| files_query_dyn(tx_c.repo(), p).map(|ids| descriptions(repo_c.store(), &ids))).collect();

    let mut rounds = vec![(merged.clone(), "merged")];
    if let Some(m) = plan.rebuild { rounds.push((enable_index(&merged, m), "merged-rebuilt")); }
    for (repo, mode) in rounds {
        let (mut indexed, mut total) = (0, 0);
        for side in [&common, &sides[0], &sides[1], &after] {
            for (j, w) in side.ws.iter().enumerate() {
                for i in side.own_from[j]..w.hist.commits.len() {
                    total += 1;
                    if matches!(guard(|| repo.index().changed_paths_in_commit(w.real[i].id()).block_on()), Ok(Ok(Some(_)))) { indexed += 1; }
                    check_commit(env, out, &repo, w, i, mode);
                }
            }
        }
        out.tally(&format!("{mode}.coverage"), if indexed == 0 { "none" } else if indexed == total { "all" } else { "part" });
        for (p, s) in probes.iter().zip(&scan) {
            match (s, files_query(&repo, p).map(|ids| descriptions(repo.store(), &ids))) {
                (Ok(a), Ok(b)) => {
                    if *a == b { out.oracle_ok(); out.tally("concurrent.files-query", if a.is_empty() { "same:empty" } else { "same:nonempty" }); }
                    else {
                        let only_scan: Vec<_> = a.difference(&b).collect();
                        let only_index: Vec<_> = b.difference(a).collect();
                        out.oracle_fail("changed-paths:files-query-differs-with-index", format!("{what} ({mode}): files({}) selects {only_scan:?} only without the index, {only_index:?} only with it", show_path(p)));
                    }
                }
                (Err(e), _) => out.oracle_fail("changed-paths:files-query-error", e.clone()),
                (_, Err(e)) => out.oracle_fail("changed-paths:files-query-error", e),
            }
        }
    }
    out.nontrivial(("concurrent", what));
}

/// the fixed scenarios at the head of the run: every pairing of side kinds, both merge orders
fn fixed_plans() -> Vec<Plan> {
    let contig = SidePlan { pre: 0, enable: Some(0) };
    let partial = |j: usize| SidePlan { pre: j, enable: Some(0) };
    let partial1 = |j: usize| SidePlan { pre: j, enable: Some(1) };
    let never = SidePlan { pre: 0, enable: None };
    let full = |j: usize| SidePlan { pre: j, enable: Some(u32::MAX) };
    let mut plans = vec![];
    let mut k = 0usize;
    let mut add = |common: usize, common_indexed: bool, a: SidePlan, b: SidePlan, plans: &mut Vec<Plan>| {
        for b_into_a in [true, false] {
            k += 1;
            plans.push(Plan { common, common_indexed, a, b, na: a.pre + 1 + k % 2, nb: b.pre + 2, random: false, b_into_a,
                              after: k % 2, rebuild: if k % 3 == 0 { Some(u32::MAX) } else { None } });
        }
    };
    // the smallest instance first: A indexed from its first commit, B enables the index after its first commit
    add(0, false, contig, partial(1), &mut plans);
    for a in [contig, partial(1), never, full(1)] {
        for b in [contig, partial(1), partial(2), partial1(2), never, full(1)] {
            add(0, false, a, b, &mut plans);
        }
    }
    for b in [partial(1), partial(2), partial1(2)] { add(2, false, contig, b, &mut plans); }
    add(1, true, contig, partial(1), &mut plans);
    plans
}

fn random_plan(r: &mut Rng) -> Plan {
    let enable = |r: &mut Rng| *r.pick(&[Some(0), Some(0), Some(0), Some(1), Some(u32::MAX), None]);
    Plan { common: r.below(3), common_indexed: r.chance(1, 5), a: SidePlan { pre: 0, enable: enable(r) }, b: SidePlan { pre: 0, enable: enable(r) },
           na: 0, nb: 0, random: true, b_into_a: r.chance(1, 2), after: r.below(3), rebuild: *r.pick(&[None, None, Some(2), Some(u32::MAX)]) }
}

fn concurrent_stream(cfg: &Cfg, out: &mut Out) {
    let mut r = cfg.rng(2201);
    let mut plans = fixed_plans();
    let fixed = plans.len();
    for _ in 0..cfg.n(60, 3000) { plans.push(random_plan(&mut r)); }
    // a fresh pair of repositories every 30 scenarios (every scenario forks off the initial operation)
    let mut envs: Option<(Env, Env)> = None;
    for (scn, plan) in plans.iter().enumerate() {
        if scn % 30 == 0 { let accept = (scn / 30) % 3 != 2; envs = Some((Env::new(accept), Env::new(accept))); }
        let (env, env_c) = envs.as_mut().unwrap();
        scenario(env, env_c, out, &mut r, scn as u64, plan);
        out.tally("concurrent.scenario", if scn < fixed { "fixed" } else { "random" });
    }
}

pub fn run(cfg: &Cfg, out: &mut Out) {
    std::panic::set_hook(Box::new(|_| {}));
    // the repos live in temp dirs that are removed when the batch ends; prefer a RAM-backed one (many fsyncs)
    if std::path::Path::new("/dev/shm").is_dir() && std::env::var_os("JJVERIF_KEEP_TMPDIR").is_none() {
        // SAFETY: single-threaded at this point
        unsafe { std::env::set_var("TMPDIR", "/dev/shm") };
    }
    // fixed + random scenarios of concurrent operations with partially enabled indexes first (small cases)
    let t0 = std::time::Instant::now();
    concurrent_stream(cfg, out);
    let t_conc = t0.elapsed().as_secs_f64();
    let mut r = cfg.rng(22);
    let batches = cfg.n(40, 600);
    for b in 0..batches {
        batch(b % 3 != 2, out, &mut r, b, 40);
    }
    out.note(format!("first: concurrent operations whose changed-path indexes cover different ranges ({} fixed pairings of side kinds [indexed from the start / enabled after 1-2 commits with max_commits 0 or 1 / never / fully rebuilt] x both merge orders, then random ones over random histories), merged with Transaction::merge_operation, more commits on top, optional rebuild; every commit asked through the merged index, files() against a scan of the same commits in an index-less repository ({t_conc:.1} s of the run)", fixed_plans().len()));
    out.note("batches of 40 histories (1 in 4 a diamond whose merge commit carries the automatic content merge of its parents; the others random as in C08: linear / merges / criss-cross / redundant parents, 1 in 6 commit trees conflicted) written into two fresh repos: one with the changed-path index enabled beforehand (1 in 3 histories through concurrent operations merged on reload), one indexed afterwards with max_commits ∈ {3, 17, all}; both same-change settings".to_string());
}
