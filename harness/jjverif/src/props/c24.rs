//! C24 — checkout writes the tree and an immediate snapshot sees no change.
//! Real `TestWorkspace`s: random checkout sequences between random trees (files, executables,
//! symlinks, conflicts, file<->directory replacements) under random sparse patterns, some preceded
//! by random edits + snapshot.  Cases: every real `check_out` (`co`), `set_sparse_patterns`
//! (`sparse`) and `snapshot` (`snap`).
//! Oracle (property text): disk within the patterns = the tree (conflicts as marker files);
//! snapshot right after = identical tree ids; switching a→b = checking out b from scratch.
use crate::rt::*;
use super::c23::wc_common::*;
use super::c23::{gen_sparse, gen_tree, random_edit};
use jj_lib::config::{ConfigLayer, ConfigSource};
use jj_lib::settings::UserSettings;

/// leaves the tree puts on disk within the patterns
pub fn expected_leaves(tree: &TreeM, sparse: &[P]) -> Disk {
    tree.iter().filter(|(q, _)| in_sparse(sparse, q)).map(|(q, v)| (q.clone(), v.on_disk())).collect()
}

/// directories implied by a set of leaves
pub fn with_parent_dirs(l: &Disk) -> Disk {
    let mut d = l.clone();
    for q in l.keys() { for n in 1..q.len() { d.insert(q[..n].to_vec(), Ent::Dir); } }
    d
}

fn settings_with(eol: &str, exec: &str) -> UserSettings {
    let mut config = testutils::base_user_config();
    let text = format!("working-copy.eol-conversion = \"{eol}\"\nworking-copy.exec-bit-change = \"{exec}\"\n");
    config.add_layer(ConfigLayer::parse(ConfigSource::User, &text).unwrap());
    UserSettings::from_config(config).unwrap()
}

pub fn run(cfg: &Cfg, out: &mut Out) {
    let mut r = cfg.rng(24);
    let workspaces = cfg.n(100, 500);
    for _ in 0..workspaces {
        let mut env = Env::new();
        let conflicts = r.chance(2, 3);
        if r.chance(1, 3) { env.set_sparse(out, &gen_sparse(&mut r)); }
        for step in 0..6 {
            if step > 0 && r.chance(1, 5) {
                // the old tree is then the snapshot of an edited working copy
                for _ in 0..r.range(1, 3) { random_edit(&env, &mut r); }
                let res = env.snapshot(out, &[]);
                if res.result.is_err() { break; }
                out.tally("step", "edit+snapshot");
            }
            if r.chance(1, 8) { env.set_sparse(out, &gen_sparse(&mut r)); out.tally("step", "sparse"); }
            let gt = gen_tree(&mut r, conflicts);
            let tree = env.build_tree(&gt);
            let res = env.check_out(out, &tree);
            out.tally("step", "checkout");
            let sparse = res.pre.sparse.clone();
            let (disk, _states, stats) = match &res.result {
                Ok(x) => x,
                Err(_) if res.known_unsorted => {
                    ofail(out, "checkout:panic:file-states-pushed-out-of-order", format!("check_out panicked (changed_file_states must be sorted) on disk {} old {} new {}",
                        show_disk(&res.pre.disk), show_tree(&res.pre.tree), show_tree(&res.new_tree)));
                    break;
                }
                Err(e) => { ofail(out, &format!("checkout:{e}"), format!("check_out failed: {e}; disk {} old {} new {}", show_disk(&res.pre.disk), show_tree(&res.pre.tree), show_tree(&res.new_tree))); break; }
            };
            let has_swap = res.pre.tree.keys().any(|a| res.new_tree.keys().any(|b| is_strict_prefix(a, b) || is_strict_prefix(b, a)));
            if has_swap { out.tally("shape", "file<->dir"); }
            if res.new_tree.values().any(|v| matches!(v, TV::Conflict { .. })) { out.tally("shape", "conflict"); }
            if res.new_tree.values().any(|v| matches!(v, TV::Link(_))) { out.tally("shape", "symlink"); }
            out.nontrivial((show_tree(&res.pre.tree), show_tree(&res.new_tree), show_seq(&sparse)));
            // Was everything on disk owned by the old checkout (no untracked / ignored leftovers of the
            // random edits, no stray directories)?  Only then do the unconditional clauses apply;
            // obstructed checkouts are C25's subject.
            let in_sync = res.pre.disk == with_parent_dirs(&expected_leaves(&res.pre.tree, &sparse));
            out.tally("pre-disk", if in_sync { "in-sync" } else { "has-untracked" });
            // (a) the disk within the patterns is exactly the tree
            let want_leaves = expected_leaves(&res.new_tree, &sparse);
            if in_sync {
                let want = with_parent_dirs(&want_leaves);
                if *disk != want {
                    ofail(out, "checkout:disk-differs-from-tree", format!("after check_out of {} (sparse {}) from {} the disk is {} instead of {}",
                        show_tree(&res.new_tree), show_seq(&sparse), show_tree(&res.pre.tree), show_disk(disk), show_disk(&want)));
                } else if stats.skipped_files != 0 {
                    ofail(out, "checkout:skipped-without-obstacle", format!("{} paths skipped although nothing untracked was on disk", stats.skipped_files));
                } else { out.oracle_ok(); }
            } else if stats.skipped_files == 0 {
                // nothing was in the way: every tree path within the patterns is on disk as written
                let wrong: Vec<String> = want_leaves.iter().filter(|(q, e)| disk.get(*q) != Some(*e)).map(|(q, _)| show_p(q)).collect();
                if wrong.is_empty() { out.oracle_ok(); } else {
                    ofail(out, "checkout:disk-differs-from-tree", format!("after check_out of {} (sparse {}) with no skipped path, {} differ on disk {}",
                        show_tree(&res.new_tree), show_seq(&sparse), wrong.join(","), show_disk(disk)));
                }
            }
            // (b) an immediate snapshot returns the identical tree (when no path was skipped).
            //     With untracked leftovers on disk (formerly ignored files whose `.gitignore` the
            //     checkout removed, …) the snapshot may *add* paths; then every path of the
            //     checked-out tree must still come back unchanged.
            let snap = env.snapshot(out, &[]);
            if stats.skipped_files == 0 {
                match &snap.tree {
                    Some(t) if t.tree_ids() == tree.tree_ids() => out.oracle_ok(),
                    Some(t) if !in_sync && { let got = read_tree(t); res.new_tree.iter().all(|(q, v)| got.get(q) == Some(v)) } => out.oracle_ok(),
                    Some(t) => ofail(out, "checkout:snapshot-after-checkout-differs", format!("checked out {} (sparse {}) onto disk {}, snapshot gives {}",
                        show_tree(&res.new_tree), show_seq(&sparse), show_disk(&res.pre.disk), show_tree(&read_tree(t)))),
                    None if snap.known_enotdir || snap.known_conflict_dir => out.tally("step", "snapshot-known-finding"),
                    None => ofail(out, "checkout:snapshot-after-checkout-failed", format!("{:?}", snap.result.as_ref().err())),
                }
            } else { out.tally("step", "checkout-with-skips"); }
            // (c) switching = checking out from scratch (fresh workspace, same patterns)
            if in_sync && r.chance(1, 3) {
                let mut fresh = Env::new();
                if sparse != vec![Vec::<String>::new()] { fresh.set_sparse(out, &sparse); }
                let t2 = fresh.build_tree(&gt);
                let res2 = fresh.check_out(out, &t2);
                match &res2.result {
                    Ok((d2, _, _)) if d2 == disk => out.oracle_ok(),
                    Ok((d2, _, _)) => ofail(out, "checkout:switch-differs-from-fresh", format!("switch {} -> {} gives {}, fresh checkout gives {}",
                        show_tree(&res.pre.tree), show_tree(&res.new_tree), show_disk(disk), show_disk(d2))),
                    Err(e) => ofail(out, &format!("checkout:{e}"), "fresh checkout failed".into()),
                }
                out.tally("step", "fresh-compare");
            }
        }
    }
    // other EOL / executable-bit policies: oracle only (the model has no EOL conversion and only the
    // `respect` exec policy): re-snapshot identity must hold under every policy
    let mut r = cfg.rng(124);
    for (eol, exec) in [("input-output", "respect"), ("input", "ignore"), ("none", "ignore"), ("input-output", "auto")] {
        for _ in 0..cfg.n(6, 40) {
            let mut env = Env::with_settings(&settings_with(eol, exec));
            for _ in 0..4 {
                let gt = gen_tree(&mut r, true);
                let tree = env.build_tree(&gt);
                let commit = testutils::commit_with_tree(env.tw.repo.store(), tree.clone());
                use jj_lib::repo::Repo as _;
                use pollster::FutureExt as _;
                let op = env.tw.repo.op_id().clone();
                let ok = guard(|| env.tw.workspace.check_out(op, None, &commit).block_on().is_ok()).unwrap_or(false);
                out.impl_only();
                let snap = guard(|| env.tw.snapshot());
                out.impl_only();
                out.tally("policy", &format!("{eol}/{exec}"));
                match snap {
                    Ok(Ok(t)) if ok && t.tree_ids() == tree.tree_ids() => out.oracle_ok(),
                    other => ofail(out, "checkout:snapshot-after-checkout-differs-under-policy",
                        format!("eol={eol} exec={exec} tree={} checkout_ok={ok} snapshot={:?}", show_tree(&read_tree(&tree)),
                                other.map(|r| r.map(|t| show_tree(&read_tree(&t))).map_err(|e| e.to_string())))),
                }
            }
        }
    }
    for m in PANICS.lock().unwrap().iter() { out.note(format!("panic: {m}")); }
    out.note(format!("{workspaces} temp workspaces × up to 6 checkouts, each followed by a snapshot; every third compared with a fresh-workspace checkout; 4 other EOL/exec policies oracle-only"));
}
