//! C14 — the operation-head store never loses a published operation.
//!
//! Real code, full stack: a `testutils::TestRepo` (real `SimpleOpStore` + `SimpleOpHeadsStore` on
//! disk), N "processes" each with its own `RepoLoader` (own store instances on the same directory).
//!   * commit  = `repo.start_transaction().write(desc)` then the real `UnpublishedOperation::publish()`
//!               (lock; `update_op_heads(parents, id)`: add, then remove each parent);
//!   * load    = the real `RepoLoader::load_at_head()` = `op_heads_store::resolve_op_heads` with jj's own
//!               merge resolver (creates the merge operation, adds it, removes ancestors and parents).
//! Each process is an OS thread parked in `verif_hooks::point` before every `opheads.{read,lock,add,remove}`
//! step; the scheduler (`headproto_sched.rs`) releases one step at a time.  After every step the `heads/`
//! listing (operation ids mapped to small integers in creation order) is compared with the Lean model.
//!
//! Oracle (from the property text): after every step `heads/` is not empty and every published
//! operation (its `add` step has happened) is an ancestor-or-equal of some head (ancestry from the
//! real op store); no reader fails; once everything has finished or crashed, one `load_at_head()` by
//! a fresh loader leaves exactly one head and it descends from every published operation.
#[path = "headproto_sched.rs"]
mod sched;

use crate::rt::*;
use jj_lib::object_id::ObjectId as _;
use jj_lib::op_store::OperationId;
use jj_lib::repo::{ReadonlyRepo, RepoLoader};
use pollster::FutureExt as _;
use sched::{PState, Sched};
use std::collections::{BTreeSet, HashMap};
use std::path::PathBuf;
use std::sync::{Arc, Mutex};
use testutils::TestRepo;

#[derive(Clone, Copy, PartialEq, Eq, Debug)]
pub enum Mode { Seq, Working, Ineffective }

#[derive(Clone, Copy, Debug, PartialEq, Eq)]
enum Op { Load, Commit }

/// Where operation timestamps come from (they are part of the operation id, and `resolve_op_heads`
/// orders the parents of a merge operation by them):
///  * `Real`     — the wall clock (ms resolution): ties, and therefore the order of merge parents and
///                 whether two resolvers write the *identical* merge operation, depend on machine speed;
///  * `Same`     — every operation of the case has the same `debug.operation-timestamp`: ties always
///                 (parent order = `HashSet` iteration order; two resolvers that pick the same parent
///                 order write one and the same merge operation);
///  * `Distinct` — every operation gets its own, strictly increasing timestamp in start order: no ties,
///                 everything is determined by the schedule.
#[derive(Clone, Copy, Debug, PartialEq, Eq)]
pub enum Clock { Real, Same, Distinct }

type Res = Result<Arc<ReadonlyRepo>, String>;

/// One repository on disk reused by all cases: before each case `op_heads/heads/` is reset to the
/// state `SimpleOpHeadsStore::init` leaves (only the initial head's marker file).  Operations of
/// earlier cases stay in the op store; they are unreachable from the new heads and have unique ids.
struct Env { test_repo: TestRepo, heads_dir: PathBuf, initial_head: String, loaders: Vec<RepoLoader>, same_clock_loader: RepoLoader,
    /// loaders with timestamp tick 1, 2, … (created on demand, reused by later cases: creating a loader and
    /// warming its index cache is the expensive part of an operation)
    tick_loaders: std::cell::RefCell<Vec<RepoLoader>> }

/// a loader (own store instances); with `tick`, all its operations carry the timestamp
/// 2020-01-01T00:00:00Z + `tick` seconds (`debug.operation-timestamp`)
fn make_loader(test_repo: &TestRepo, tick: Option<u64>) -> RepoLoader {
    let mut config = testutils::base_user_config();
    if let Some(tick) = tick {
        let (day, h, m, sec) = (1 + tick / 86400, tick / 3600 % 24, tick / 60 % 60, tick % 60);
        let text = format!("debug.operation-timestamp = \"2020-01-{day:02}T{h:02}:{m:02}:{sec:02}+00:00\"\n");
        config.add_layer(jj_lib::config::ConfigLayer::parse(jj_lib::config::ConfigSource::CommandArg, &text).unwrap());
    }
    let settings = jj_lib::settings::UserSettings::from_config(config).unwrap();
    RepoLoader::init_from_file_system(&settings, test_repo.repo_path(), &test_repo.env.default_backend_factories()).expect("loader")
}

impl Env {
    fn new(max_np: usize) -> Self {
        let test_repo = TestRepo::init();
        let heads_dir = test_repo.repo_path().join("op_heads").join("heads");
        let loaders = (0..max_np).map(|_| make_loader(&test_repo, None)).collect();
        let same_clock_loader = make_loader(&test_repo, Some(0));
        let heads: Vec<String> = std::fs::read_dir(&heads_dir).unwrap().map(|e| e.unwrap().file_name().into_string().unwrap()).collect();
        assert_eq!(heads.len(), 1, "a fresh repo has one op head");
        Env { test_repo, heads_dir, initial_head: heads[0].clone(), loaders, same_clock_loader, tick_loaders: Default::default() }
    }
    fn loader_for_tick(&self, tick: u64) -> RepoLoader {
        let mut pool = self.tick_loaders.borrow_mut();
        while (pool.len() as u64) < tick { let t = pool.len() as u64 + 1; pool.push(make_loader(&self.test_repo, Some(t))); }
        pool[tick as usize - 1].clone()
    }
    fn reset(&self) {
        for e in std::fs::read_dir(&self.heads_dir).unwrap() { std::fs::remove_file(e.unwrap().path()).unwrap(); }
        std::fs::write(self.heads_dir.join(&self.initial_head), "").unwrap();
    }
}

struct Case<'a> {
    env: &'a Env,
    clock: Clock,
    tick: u64,
    heads_dir: PathBuf,
    sched: Sched<Res>,
    loaders: Vec<RepoLoader>,
    handle: Vec<Option<Arc<ReadonlyRepo>>>,
    cur_op: Vec<Option<Op>>,
    /// what the model's local state of the process is: result of its last completed resolve
    resolved: Vec<usize>,
    num: HashMap<String, usize>,
    dag: Vec<Vec<usize>>,
    order: Vec<usize>,
    slot: Arc<Mutex<Option<(String, Vec<String>)>>>,
    lock_holder: Option<usize>,
    added: BTreeSet<usize>,
    req: Vec<String>,
    ans: Vec<String>,
    failed: Option<(String, String)>,
    max_heads: usize,
    merges: usize,
    /// a resolver wrote a merge operation whose id already existed (same parents, order and timestamp)
    identical_merges: usize,
    counter: usize,
}

impl<'a> Case<'a> {
    fn new(np: usize, env: &'a Env, clock: Clock) -> Self {
        env.reset();
        let heads_dir = env.heads_dir.clone();
        let loaders: Vec<RepoLoader> = env.loaders[..np].to_vec();
        let _ = &env.test_repo;
        let mut c = Case { env, clock, tick: 0, heads_dir, sched: Sched::new(np, "opheads."), loaders, handle: vec![None; np],
            cur_op: vec![None; np], resolved: vec![0; np], num: HashMap::new(), dag: vec![], order: vec![],
            slot: Arc::new(Mutex::new(None)), lock_holder: None, added: BTreeSet::new(), req: vec![], ans: vec![],
            failed: None, max_heads: 0, merges: 0, identical_merges: 0, counter: 0 };
        let init = c.list_dir();
        assert_eq!(init.len(), 1, "a fresh repo has one op head");
        c.num.insert(init[0].clone(), 0);
        c.dag.push(vec![]);
        c.order.push(0);
        c.added.insert(0);
        c
    }

    fn list_dir(&self) -> Vec<String> {
        let mut v: Vec<String> = std::fs::read_dir(&self.heads_dir).unwrap().map(|e| e.unwrap().file_name().into_string().unwrap())
            .filter(|n| n.len() >= 16 && n.chars().all(|ch| ch.is_ascii_hexdigit())).collect();
        v.sort();
        v
    }

    fn number_of(&mut self, hex: &str) -> usize {
        if let Some(n) = self.num.get(hex) { return *n; }
        // an operation first seen at its `add` step: a merge created by a resolver
        let id = OperationId::try_from_hex(hex).expect("hex op id");
        let data = self.loaders[0].op_store().read_operation(&id).block_on().expect("op readable");
        let ps: Vec<usize> = data.parents.iter().map(|p| *self.num.get(&p.hex()).expect("parent of a new op is known")).collect();
        self.register(hex.to_string(), ps)
    }

    fn register(&mut self, hex: String, parents: Vec<usize>) -> usize {
        let n = self.dag.len();
        self.num.insert(hex, n);
        self.dag.push(parents);
        n
    }

    fn is_anc(&self, a: usize, b: usize) -> bool {
        if a == b { return true; }
        let mut stack = vec![b];
        let mut seen = BTreeSet::new();
        while let Some(x) = stack.pop() {
            for p in &self.dag[x] { if *p == a { return true; } if seen.insert(*p) { stack.push(*p); } }
        }
        false
    }

    fn observe(&mut self) -> String {
        let now: Vec<usize> = self.list_dir().iter().map(|h| self.number_of(h)).collect();
        self.order.retain(|n| now.contains(n));
        for n in &now { if !self.order.contains(n) { self.order.push(*n); } }
        self.max_heads = self.max_heads.max(self.order.len());
        if self.order.is_empty() { "none".into() } else { self.order.iter().map(|n| n.to_string()).collect::<Vec<_>>().join(",") }
    }

    fn fail(&mut self, sig: &str, detail: String) { if self.failed.is_none() { self.failed = Some((sig.to_string(), detail)); } }

    fn check_invariant(&mut self, after: &str) {
        if self.failed.is_some() { return; }
        if self.order.is_empty() { self.fail("opheads:no-heads", format!("after {after}: heads/ is empty")); return; }
        let lost: Vec<usize> = self.added.iter().copied().filter(|p| !self.order.iter().any(|h| self.is_anc(*p, *h))).collect();
        if !lost.is_empty() {
            self.fail("opheads:published-op-unreachable", format!("after {after}: published operations {lost:?} are not ancestors of any head {:?}", self.order));
        }
    }

    fn start(&mut self, pid: usize, op: Op) {
        // every operation of a process runs on that process's own loader; the clock mode decides which
        // `debug.operation-timestamp` (if any) its settings carry
        self.tick += 1;
        let loader = match self.clock {
            Clock::Real => self.loaders[pid].clone(),
            Clock::Same => self.env.same_clock_loader.clone(),
            Clock::Distinct => self.env.loader_for_tick(self.tick),
        };
        let reload_base = self.clock != Clock::Real;
        let handle = self.handle[pid].clone();
        let slot = self.slot.clone();
        *slot.lock().unwrap() = None;
        static COUNTER: std::sync::atomic::AtomicUsize = std::sync::atomic::AtomicUsize::new(0);
        self.counter = COUNTER.fetch_add(1, std::sync::atomic::Ordering::SeqCst);
        let desc = format!("op {} by process {pid}", self.counter);
        let st = self.sched.start(pid, move || -> Res {
            match op {
                Op::Load => loader.load_at_head().block_on().map_err(|e| format!("{e}: {:?}", std::error::Error::source(&e).map(|s| s.to_string()))),
                Op::Commit => {
                    let mut base = handle.expect("commit needs a loaded repo");
                    if reload_base {
                        // same repo state, but through the loader whose settings carry this operation's timestamp
                        base = loader.load_at(base.operation()).block_on().map_err(|e| e.to_string())?;
                    }
                    let tx = base.start_transaction();
                    let unpublished = tx.write(desc).block_on().map_err(|e| e.to_string())?;
                    let o = unpublished.operation();
                    *slot.lock().unwrap() = Some((o.id().hex(), o.parent_ids().iter().map(|p| p.hex()).collect()));
                    unpublished.publish().block_on().map_err(|e| e.to_string())
                }
            }
        });
        assert!(matches!(st, PState::At(..)), "operation ended without a hook point: {st:?}");
        self.cur_op[pid] = Some(op);
        match op {
            Op::Load => self.req.push(format!("S{pid}:r")),
            Op::Commit => {
                let (hex, ps) = self.slot.lock().unwrap().take().expect("commit wrote its operation");
                let ps: Vec<usize> = ps.iter().map(|p| self.num[p]).collect();
                let n = self.register(hex, ps);
                self.req.push(format!("S{pid}:p{n}"));
            }
        }
        self.ans.push("S".into());
    }

    fn can_step(&self, pid: usize, mode: Mode) -> bool {
        match self.sched.state(pid) {
            PState::At(kind, _) => !(kind == "opheads.lock" && mode != Mode::Ineffective && self.lock_holder.is_some()),
            _ => false,
        }
    }

    fn parked(&self, pid: usize) -> bool { matches!(self.sched.state(pid), PState::At(..)) }

    fn step(&mut self, pid: usize, mode: Mode) {
        let PState::At(kind, detail) = self.sched.state(pid) else { panic!("not parked") };
        let mut arg: Option<usize> = None;
        let k = match kind {
            "opheads.read" => "read".to_string(),
            "opheads.lock" => {
                if mode == Mode::Ineffective { let _ = std::fs::remove_file(self.heads_dir.join("lock")); }
                self.lock_holder = Some(pid);
                "lock".to_string()
            }
            "opheads.add" => { let n = self.number_of(&detail); self.added.insert(n); format!("add:{n}") }
            "opheads.remove" => { let n = self.number_of(&detail); arg = Some(n); format!("rm:{n}") }
            other => format!("?{other}"),
        };
        // number of heads that survive the ancestor filter, as the resolver is about to see them
        let filtered_before = self.order.iter().filter(|h| !self.order.iter().any(|h2| h2 != *h && self.is_anc(**h, *h2))).count();
        let st = self.sched.step(pid);
        // A resolver that is parked at `opheads.add` right after a read is about to add either the single
        // head that survived the filter or the merge operation it has just written; that operation is the
        // argument of the read step (the model ignores it in the first case and checks its parents in the
        // second).  The merge operation need not be new to us: ids are content hashes, and two resolvers
        // that merge the same heads in the same order within the same timestamp write one and the same
        // operation (so does a resolver repeating the merge of one that crashed before its `add`).
        if kind == "opheads.read" {
            if let PState::At("opheads.add", hex) = &st {
                if !self.num.contains_key(hex) { self.merges += 1; }
                else if filtered_before >= 2 { self.identical_merges += 1; }
                arg = Some(self.number_of(hex));
            }
        }
        self.req.push(match arg { Some(a) => format!("T{pid}:{a}"), None => format!("T{pid}") });
        let heads = self.observe();
        let mut item = format!("{k} {heads}");
        self.check_invariant(&format!("process {pid} {kind} {}", &detail[..detail.len().min(8)]));
        match st {
            PState::At(..) => {}
            PState::Done => {
                if self.lock_holder == Some(pid) { self.lock_holder = None; }
                let op = self.cur_op[pid].take().unwrap();
                match self.sched.take_result(pid).unwrap() {
                    Ok(repo) => {
                        let n = self.number_of(&repo.operation().id().hex());
                        if op == Op::Load { self.resolved[pid] = n; item += &format!(" ret={n}"); }
                        self.handle[pid] = Some(repo);
                    }
                    Err(e) => {
                        item += " err";
                        let sig = if e.contains("no head operation") { "opheads:reader-found-no-head" } else { "opheads:operation-failed" };
                        self.fail(sig, format!("{op:?} of process {pid} failed: {e}"));
                    }
                }
                self.sched.set_idle(pid);
            }
            PState::Panicked(m) => {
                if self.lock_holder == Some(pid) { self.lock_holder = None; }
                item += " panic";
                self.fail("opheads:panic", format!("{:?} of process {pid} panicked: {m}", self.cur_op[pid]));
                self.cur_op[pid] = None;
                self.sched.set_idle(pid);
            }
            other => panic!("unexpected state {other:?}"),
        }
        self.ans.push(item);
    }

    fn crash(&mut self, pid: usize) {
        let st = self.sched.crash(pid);
        assert_eq!(st, PState::Crashed);
        if self.lock_holder == Some(pid) { self.lock_holder = None; }
        self.cur_op[pid] = None;
        self.sched.set_idle(pid);
        let heads = self.observe();
        self.req.push(format!("X{pid}"));
        self.ans.push(format!("X {heads}"));
        self.check_invariant(&format!("crash of process {pid}"));
    }

    /// quiescence: one `load_at_head` by a fresh loader, then the closing checks; emits the case
    fn finish(mut self, out: &mut Out, mode: Mode, label: &str, reader: usize) {
        self.start(reader, Op::Load);
        while self.parked(reader) { self.step(reader, mode); }
        if self.failed.is_none() {
            if self.order.len() != 1 {
                let o = self.order.clone();
                self.fail("opheads:quiescent-multiple-heads", format!("after the final load heads = {o:?}"));
            } else {
                let h = self.order[0];
                let bad: Vec<usize> = self.added.iter().copied().filter(|p| !self.is_anc(*p, h)).collect();
                if !bad.is_empty() { self.fail("opheads:quiescent-head-not-descendant", format!("single head {h} does not descend from published {bad:?}")); }
                if self.handle[reader].as_ref().map(|r| self.num[&r.operation().id().hex()]) != Some(h) {
                    self.fail("opheads:load-not-at-head", format!("load_at_head returned an operation that is not the single head {h}"));
                }
            }
        }
        let w = if mode == Mode::Ineffective { 0 } else { 1 };
        let dag = self.dag.iter().map(|ps| if ps.is_empty() { "-".to_string() } else { ps.iter().map(|p| p.to_string()).collect::<Vec<_>>().join(",") }).collect::<Vec<_>>().join(";");
        let request = format!("run {w} {} {dag} {}", self.handle.len(), self.req.join("/"));
        let answer = self.ans.join(";");
        out.case(&request, &answer);
        out.tally("mode", &format!("{mode:?}"));
        out.tally("stream", label);
        out.tally("clock", &format!("{:?}", self.clock));
        out.tally("max_heads", &self.max_heads.min(4).to_string());
        out.tally("merge_ops", &self.merges.min(3).to_string());
        if self.identical_merges > 0 { out.tally("identical_merge_op_rewritten", &format!("{:?}", self.clock)); }
        if self.max_heads >= 2 { out.nontrivial(&request); }
        match self.failed.take() {
            None => out.oracle_ok(),
            Some((sig, detail)) => { out.tally("oracle_failure_signature", &sig); out.oracle_fail(&sig, format!("[{label} {mode:?}] {detail}; replay: C14 {request}")) },
        }
    }
}

fn random_case(out: &mut Out, env: &Env, r: &mut Rng, mode: Mode, clock: Clock, np: usize, nops: usize) {
    let mut c = Case::new(np + 1, env, clock);
    let crashy = r.chance(1, 3);
    let mut started = 0;
    loop {
        let parked: Vec<usize> = (0..np).filter(|p| c.parked(*p)).collect();
        let idle: Vec<usize> = (0..np).filter(|p| !c.parked(*p)).collect();
        let can_start = started < nops && !idle.is_empty() && (parked.is_empty() || mode != Mode::Seq);
        if parked.is_empty() && !can_start { break; }
        if can_start && (parked.is_empty() || r.chance(1, 3)) {
            let p = *r.pick(&idle);
            let op = if c.handle[p].is_none() || r.chance(2, 5) { Op::Load } else { Op::Commit };
            c.start(p, op);
            started += 1;
            continue;
        }
        if crashy && r.chance(1, 10) { let p = *r.pick(&parked); c.crash(p); continue; }
        let steppable: Vec<usize> = parked.iter().copied().filter(|p| c.can_step(*p, mode)).collect();
        assert!(!steppable.is_empty(), "deadlock");
        let p = *r.pick(&steppable);
        c.step(p, mode);
    }
    c.finish(out, mode, "random", np);
}

/// All schedules (stateless DFS, re-executing from scratch) of fixed per-process programs after a
/// sequential `setup`; at most `max_crashes` crashes per schedule.  Returns (cases run, completed?).
fn exhaustive(out: &mut Out, env: &Env, mode: Mode, clock: Clock, setup: &[(usize, Op)], programs: &[Vec<Op>], max_crashes: usize, budget: usize, label: &str) -> (usize, bool) {
    let np = programs.len();
    let mut prefix: Vec<usize> = vec![];
    let mut runs = 0;
    loop {
        if runs >= budget { return (runs, false); }
        let mut c = Case::new(np + 1, env, clock);
        for (p, op) in setup { c.start(*p, *op); while c.parked(*p) { c.step(*p, mode); } }
        let mut next_op = vec![0usize; np];
        let mut choices: Vec<(usize, usize)> = vec![];
        let mut crashes = 0;
        loop {
            // start whatever can start (no shared effect before the first hook point)
            for p in 0..np {
                if !c.parked(p) && next_op[p] < programs[p].len() { let op = programs[p][next_op[p]]; next_op[p] += 1; c.start(p, op); }
            }
            // actions: step(p) for enabled p, then crash(p)
            let mut actions: Vec<(bool, usize)> = (0..np).filter(|p| c.can_step(*p, mode)).map(|p| (false, p)).collect();
            if crashes < max_crashes { actions.extend((0..np).filter(|p| c.parked(*p)).map(|p| (true, p))); }
            if actions.is_empty() { break; }
            let i = choices.len();
            let pick = if i < prefix.len() { prefix[i] } else { 0 };
            choices.push((pick, actions.len()));
            let (is_crash, p) = actions[pick];
            if is_crash { crashes += 1; c.crash(p); next_op[p] = programs[p].len(); } else { c.step(p, mode); }
        }
        c.finish(out, mode, label, np);
        runs += 1;
        // next schedule in lexicographic order
        let mut j = choices.len();
        loop {
            if j == 0 { return (runs, true); }
            j -= 1;
            if choices[j].0 + 1 < choices[j].1 { break; }
        }
        prefix = choices[..j].iter().map(|ch| ch.0).collect();
        prefix.push(choices[j].0 + 1);
    }
}

pub fn run(cfg: &Cfg, out: &mut Out) {
    if std::path::Path::new("/dev/shm").is_dir() && std::env::var_os("TMPDIR").is_none() {
        // the op store fsyncs every file; keep the temp repos on tmpfs
        unsafe { std::env::set_var("TMPDIR", "/dev/shm"); }
    }
    sched::quiet_crash_panics();
    let env = Env::new(4);
    use Op::*;
    let quick = cfg.tier == Tier::Quick;
    let mut complete = true;
    let mut notes = vec![];
    // two committers from the same base; committer vs loader; two loaders on divergent heads
    let both_loaded = [(0, Load), (1, Load)];
    let diverged = [(0, Load), (1, Load), (0, Commit), (1, Commit)];
    let plans: Vec<(&str, &[(usize, Op)], Vec<Vec<Op>>, usize, usize)> = vec![
        ("commit|commit", &both_loaded, vec![vec![Commit], vec![Commit]], 1, 2000),
        ("commit|load", &diverged, vec![vec![Commit], vec![Load]], 1, if quick { 700 } else { 20000 }),
        ("load|load", &diverged, vec![vec![Load], vec![Load]], 0, if quick { 300 } else { 20000 }),
        ("commit,load|commit", &both_loaded, vec![vec![Commit, Load], vec![Commit]], 0, if quick { 400 } else { 20000 }),
    ];
    for (label, setup, programs, max_crashes, budget) in &plans {
        for mode in [Mode::Working, Mode::Ineffective] {
            let (n, done) = exhaustive(out, &env, mode, Clock::Distinct, setup, programs, *max_crashes, budget * cfg.scale as usize, label);
            notes.push(format!("{label} {mode:?}: {n} schedules{}", if done { " (all)" } else { " (budget reached)" }));
            complete &= done;
        }
    }
    // the same enumerations with every operation carrying the same timestamp: merge parents are ordered by
    // `HashSet` iteration, and two resolvers frequently write one and the same merge operation (same id)
    for (label, setup, programs, max_crashes, _) in &plans[1..3] {
        let (n, _) = exhaustive(out, &env, Mode::Ineffective, Clock::Same, setup, programs, *max_crashes, 150 * cfg.scale as usize, label);
        notes.push(format!("{label} Ineffective, equal timestamps: first {n} schedules"));
    }
    out.set_exhaustive(complete);
    out.note(format!("exhaustive schedule enumeration for 2 processes (≤1 crash where stated): {}", notes.join("; ")));
    let mut r = cfg.rng(14);
    let rounds = cfg.n(3, 60);
    for _ in 0..rounds {
        for (nops, np) in [(3usize, 2usize), (5, 2), (6, 3), (9, 3)] {
            for mode in [Mode::Seq, Mode::Working, Mode::Ineffective] {
                for _ in 0..6 {
                    let clock = match r.below(4) { 0 => Clock::Real, 1 => Clock::Same, _ => Clock::Distinct };
                    random_case(out, &env, &mut r, mode, clock, np, nops);
                }
            }
        }
    }
}
