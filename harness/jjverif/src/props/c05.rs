//! C05 — materialized conflicts parse back to the same conflict.
//!
//! Cases: 2–4 sided file conflicts built from a line pool with marker look-alikes, empty sides,
//! missing final newline, CR / CRLF files; hunks come from the real `files::merge_hunks`; the text
//! from the real `materialize_merge_result_to_bytes` for every `ConflictMarkerStyle`, with and
//! without labels, chosen / explicit marker length; parsed back with the real `parse_conflict`.
//! A second stream parses damaged materializations and marker soup (correspondence only).
//! Oracle (property text): `parse_conflict(materialize(m), sides, len) == Some(merge_hunks(m))`.
use crate::rt::*;
use bstr::BString;
use jj_lib::conflict_labels::ConflictLabels;
use jj_lib::conflicts::{
    self, ConflictMarkerStyle, ConflictMaterializeOptions, MIN_CONFLICT_MARKER_LEN,
};
use jj_lib::diff::{ContentDiff, DiffHunkKind};
use jj_lib::files::{self, FileMergeHunkLevel, MergeResult};
use jj_lib::merge::{Merge, SameChange};
use jj_lib::tree_merge::MergeOptions;

const POOL: &[&[u8]] = &[
    b"a", b"b", b"c", b"d", b"", b"a", b"b",
    b"<<<<<<<", b"<<<<<<< x", b"+++++++ x", b"------- y", b"------ z", b"%%%%%%%", b">>>>>>>",
    b"=======", b"|||||||", b"\\\\\\\\\\\\\\", b"\\\\\\\\\\\\\\ n", b"-a", b" a", b"+", b"-", b"+b",
    b"++++++++++ long", b"<<<<<<<<<<<", b">>>>>>>>>>> e", b"-------x", b"%%%%%%%\tt", b"||||||",
    b"=========", b">>>>>>", b"<<<<<<<\x0c", b"+++++++\x0bv",
];
const PLAIN: &[&[u8]] = &[b"a", b"b", b"c", b"d", b"e", b""];

pub const STYLES: [(ConflictMarkerStyle, &str); 4] = [
    (ConflictMarkerStyle::Diff, "diff"),
    (ConflictMarkerStyle::DiffExperimental, "diffexp"),
    (ConflictMarkerStyle::Snapshot, "snapshot"),
    (ConflictMarkerStyle::Git, "git"),
];

pub fn show_terms(ts: &[BString]) -> String { ts.iter().map(|t| hex(t)).collect::<Vec<_>>().join(",") }
pub fn show_hunks(hs: &[Merge<BString>]) -> String {
    hs.iter().map(|h| show_terms(h.as_slice())).collect::<Vec<_>>().join(";")
}

/// how lines of one file are terminated
#[derive(Clone, Copy)]
enum Eol { Lf, Crlf, Mixed }

fn render(lines: &[&[u8]], eol: Eol, r: &mut Rng, drop_final: bool, cr_tail: bool) -> Vec<u8> {
    let mut v = vec![];
    for l in lines {
        v.extend_from_slice(l);
        let crlf = match eol { Eol::Lf => false, Eol::Crlf => true, Eol::Mixed => r.chance(1, 2) };
        if crlf { v.push(b'\r'); }
        v.push(b'\n');
    }
    if drop_final && v.last() == Some(&b'\n') {
        v.pop();
        if v.last() == Some(&b'\r') && r.chance(1, 2) { v.pop(); }
    }
    if cr_tail { v.extend_from_slice(b"x\r"); }
    v
}

fn gen_files(r: &mut Rng, sides: usize, size: usize) -> Vec<BString> {
    let nterms = 2 * sides - 1;
    let pool: &[&[u8]] = if r.chance(1, 4) { PLAIN } else { POOL };
    let eol_mode = r.below(5); // 0,1: LF   2: CRLF   3: per file   4: per line
    let derived = r.chance(3, 5);
    let base: Vec<&[u8]> = (0..r.range(0, size)).map(|_| *r.pick(pool)).collect();
    let mut out = vec![];
    for _ in 0..nterms {
        let lines: Vec<&[u8]> = if derived {
            let mut l = base.clone();
            for _ in 0..r.below(3) {
                match r.below(3) {
                    0 if !l.is_empty() => { let i = r.below(l.len()); l.remove(i); }
                    1 => { let i = r.below(l.len() + 1); l.insert(i, *r.pick(pool)); }
                    _ if !l.is_empty() => { let i = r.below(l.len()); l[i] = *r.pick(pool); }
                    _ => {}
                }
            }
            l
        } else {
            (0..r.below(size + 1)).map(|_| *r.pick(pool)).collect()
        };
        let eol = match eol_mode { 0 | 1 => Eol::Lf, 2 => Eol::Crlf, 3 => if r.chance(1, 2) { Eol::Crlf } else { Eol::Lf }, _ => Eol::Mixed };
        let empty = r.chance(1, 12);
        let (drop_final, cr_tail) = (r.chance(1, 4), r.chance(1, 25));
        let f = if empty { vec![] } else { render(&lines, eol, r, drop_final, cr_tail) };
        out.push(BString::from(f));
    }
    out
}

fn gen_labels(r: &mut Rng, nterms: usize) -> Vec<String> {
    match r.below(6) {
        0 | 1 => vec![],
        2 => (0..nterms).map(|i| format!("label {i}")).collect(),
        3 => (0..nterms).map(|i| if r.chance(1, 2) { String::new() } else { format!("rev{i} \"d-e\" <x>") }).collect(),
        4 => (0..(2 * r.range(1, 4) - 1)).map(|i| format!("l{i}")).collect(),
        _ => (0..nterms).map(|i| if i % 2 == 0 { format!("+++++++ möve {i}") } else { "-------".to_string() }).collect(),
    }
}

fn show_labels(l: &[String]) -> String {
    if l.is_empty() { "u".into() } else { l.iter().map(|s| hex(s.as_bytes())).collect::<Vec<_>>().join(",") }
}

fn diff_entry(l: &[u8], rr: &[u8]) -> String {
    let d = ContentDiff::by_line([l, rr]);
    let groups: Vec<String> = d.hunks().map(|h| {
        let k = match h.kind { DiffHunkKind::Matching => "m", DiffHunkKind::Different => "d" };
        format!("{k}.{}.{}", hex(h.contents[0]), hex(h.contents[1]))
    }).collect();
    format!("{},{},{}", hex(l), hex(rr), if groups.is_empty() { "-".to_string() } else { groups.join("/") })
}

/// The line diffs `materialize_jj_style_conflict` may ask for: every base against the add with
/// the same and the next index, on the hunk contents as they are and (when a side lacks the final
/// EOL) with either EOL appended.  Computed with the real `ContentDiff::by_line`; the diff itself
/// is C03's subject, here it is an input of the model.
fn diff_table(hunks: &[Merge<BString>]) -> String {
    let mut entries: Vec<String> = vec![];
    let mut seen = std::collections::HashSet::new();
    for h in hunks {
        if h.is_resolved() { continue; }
        let all_eol = h.iter().all(|c| c.last().is_none_or(|x| *x == b'\n'));
        let pads: &[&[u8]] = if all_eol { &[b""] } else { &[b"\n", b"\r\n"] };
        for pad in pads {
            let t: Vec<Vec<u8>> = h.iter().map(|c| { let mut v = c.to_vec(); v.extend_from_slice(pad); v }).collect();
            let nb = t.len() / 2;
            for b in 0..nb {
                for a in [b, b + 1] {
                    let (l, rr) = (&t[2 * b + 1], &t[2 * a]);
                    if seen.insert((l.clone(), rr.clone())) { entries.push(diff_entry(l, rr)); }
                }
            }
        }
    }
    if entries.is_empty() { "-".into() } else { entries.join(";") }
}

fn has_lookalike(files: &[BString]) -> bool {
    files.iter().any(|f| f.split(|b| *b == b'\n').any(|l| {
        l.len() >= 6 && b"<>+-%\\|=".contains(&l[0]) && l[..6].iter().all(|b| *b == l[0])
    }))
}

fn parse_case(out: &mut Out, bytes: &[u8], sides: usize, len: usize) -> Option<Vec<Merge<BString>>> {
    let got = guard(|| conflicts::parse_conflict(bytes, sides, len));
    let resp = match &got { Ok(Some(h)) => show_hunks(h), Ok(None) => "none".into(), Err(_) => "panic".into() };
    out.case(&format!("parse {sides} {len} {}", hex(bytes)), &resp);
    if let Err(e) = &got { out.oracle_fail("parse:panic", format!("parse_conflict panicked: {e} on {:?}", BString::from(bytes))); }
    got.ok().flatten()
}

fn one(out: &mut Out, r: &mut Rng, files: &[BString], sides: usize, level: Option<FileMergeHunkLevel>) {
    let m = Merge::from_vec(files.to_vec());
    let opts = MergeOptions {
        hunk_level: level.unwrap_or(if r.chance(1, 3) { FileMergeHunkLevel::Word } else { FileMergeHunkLevel::Line }),
        same_change: if r.chance(1, 2) { SameChange::Keep } else { SameChange::Accept },
    };
    let chosen = conflicts::choose_materialized_conflict_marker_len(&m);
    out.case(&format!("choose {}", show_terms(files)), &chosen.to_string());
    let hunks = match files::merge_hunks(&m, &opts) {
        MergeResult::Conflict(h) => h,
        MergeResult::Resolved(content) => {
            out.tally("merge", "resolved");
            // resolved content is written verbatim; parsing it is a correspondence-only case
            parse_case(out, &content, sides, chosen);
            return;
        }
    };
    out.tally("merge", "conflict");
    out.tally("sides", &sides.to_string());
    let no_eol = hunks.iter().any(|h| !h.is_resolved() && h.iter().any(|c| c.last().is_some_and(|x| *x != b'\n')));
    let crlf = files.iter().any(|f| f.windows(2).any(|w| w == b"\r\n"));
    let look = has_lookalike(files);
    if no_eol { out.tally("feature", "side-without-final-eol"); }
    if crlf { out.tally("feature", "crlf"); }
    if look { out.tally("feature", "marker-lookalike"); }
    if chosen > MIN_CONFLICT_MARKER_LEN { out.tally("feature", "escalated-marker-len"); }
    let table = diff_table(&hunks);
    // hypotheses of the Lean round-trip theorem, evaluated by the model on the real merge_hunks
    // output (HunksWF at the chosen length, LinesFrom) and on the real line diffs (DiffOK)
    // (line-level merging only: a word-level merge can synthesize lines that are in no input, see notes/C05.md)
    if opts.hunk_level == FileMergeHunkLevel::Line {
        out.case(&format!("wf {sides} {} {}", show_terms(files), show_hunks(&hunks)), "1");
    }
    out.tally("hunk_level", if opts.hunk_level == FileMergeHunkLevel::Line { "line" } else { "word" });
    // a resolved hunk containing a marker line of the parse length that is not a line of any input
    // (only word-level merging can produce one)
    let input_lines: std::collections::HashSet<&[u8]> = files.iter().flat_map(|f| f.split_inclusive(|b| *b == b'\n')).collect();
    let synthesized_marker = |len: usize| hunks.iter().filter(|h| h.is_resolved()).any(|h| h.first().split_inclusive(|b| *b == b'\n').any(|l| {
        !input_lines.contains(l) && b"<>+-%\\|=".contains(&l[0]) && {
            let run = l.iter().take_while(|b| **b == l[0]).count();
            run >= len && l.get(run).is_none_or(|b| b.is_ascii_whitespace())
        }
    }));
    if table != "-" {
        for e in table.split(';') {
            let mut it = e.split(',');
            let (l, rr) = (it.next().unwrap(), it.next().unwrap());
            let ends = |h: &str| h == "-" || h.ends_with("0a");
            if ends(l) && ends(rr) && r.chance(1, 3) { out.case(&format!("diffok {e}"), "1"); }
        }
    }
    for (style, sname) in STYLES {
        let labels = gen_labels(r, files.len());
        let (ml, len) = match r.below(10) {
            0..=5 => (None, chosen),
            6 | 7 => { let l = chosen + r.below(3); (Some(l), l) }
            _ => { let l = r.range(1, chosen); (Some(l), l) }
        };
        let mo = ConflictMaterializeOptions { marker_style: style, marker_len: ml, merge: opts.clone() };
        let cl = ConflictLabels::from_vec(labels.clone());
        let bytes = match guard(|| conflicts::materialize_merge_result_to_bytes(&m, &cl, &mo)) {
            Ok(b) => b,
            Err(e) => { out.case("mat panic", "panic"); out.oracle_fail("materialize:panic", format!("{e} files={files:?}")); continue; }
        };
        let tbl = if style.allows_diff() { table.as_str() } else { "-" };
        out.case(&format!("mat {sname} {} {} {} {} {tbl}", ml.unwrap_or(0), show_labels(&labels), show_terms(files), show_hunks(&hunks)), &hex(&bytes));
        out.tally("style", sname);
        out.tally("labels", if labels.is_empty() { "none" } else { "some" });
        let parsed = parse_case(out, &bytes, sides, len);
        if no_eol || crlf || look || !labels.is_empty() { out.nontrivial((files.to_vec(), sname, labels.clone(), len)); }
        if len >= chosen {
            // the property: same arity, the marker length jj chose (or a longer one)
            if parsed.as_ref() == Some(&hunks) { out.oracle_ok(); } else {
                let kind = if parsed.is_none() { "none" } else { "mismatch" };
                let sig = if opts.hunk_level == FileMergeHunkLevel::Word && synthesized_marker(len) {
                    "roundtrip:word-merge-synthesized-marker-in-resolved-hunk".to_string()
                } else { format!("roundtrip:{sname}:{kind}") };
                out.oracle_fail(&sig, format!(
                    "files={files:?} opts={opts:?} style={sname} len={len} labels={labels:?}\n text={:?}\n merge_hunks={hunks:?}\n parsed={parsed:?}", bytes));
            }
        } else {
            out.tally("feature", "short-explicit-len(correspondence only)");
        }
        // damaged text: correspondence only
        if r.chance(1, 4) {
            let mut lines: Vec<&[u8]> = bytes.split_inclusive(|b| *b == b'\n').collect();
            match r.below(4) {
                0 if lines.len() > 1 => { let i = r.below(lines.len()); lines.remove(i); }
                1 => { let i = r.below(lines.len()); let l = lines[i]; lines.insert(i, l); }
                2 => { let i = r.below(lines.len() + 1); lines.insert(i, *r.pick(&[b"<<<<<<<\n" as &[u8], b">>>>>>>\n", b"+++++++\n", b"-------\n", b"%%%%%%%\n", b"=======\n", b"|||||||\n", b"\n", b"x\n"])); }
                _ => { let i = r.below(lines.len()); let j = r.below(lines.len()); lines.swap(i, j); }
            }
            let damaged: Vec<u8> = lines.concat();
            parse_case(out, &damaged, if r.chance(1, 5) { r.range(1, 4) } else { sides }, len);
            out.tally("stream", "damaged");
        }
    }
}

const SOUP: &[&[u8]] = &[
    b"<<<<<<<\n", b"<<<<<<< c\n", b">>>>>>>\n", b">>>>>>> e\n", b"+++++++\n", b"+++++++ s\n", b"-------\n", b"------- b\n",
    b"%%%%%%%\n", b"%%%%%%% d\n", b"\\\\\\\\\\\\\\ n\n", b"=======\n", b"|||||||\n", b"a\n", b"b\n", b"\n", b"\r\n", b" a\n", b"-a\n", b"+b\n",
    b"-\n", b"+\n", b" \n", b"<<<<<<<\r\n", b">>>>>>>\r\n", b"+++++++\r\n", b"-------\r\n", b"x", b">>>>>>>", b">>>>>>> e", b"<<<<<<<<<\n", b"++++\n",
];

pub fn run(cfg: &Cfg, out: &mut Out) {
    let mut r = cfg.rng(5);
    // sizes small → large
    let per = cfg.n(3000, 40_000);
    for size in 1..=5usize {
        for _ in 0..per {
            let sides = match r.below(6) { 0..=2 => 2, 3 | 4 => 3, _ => 4 };
            let files = gen_files(&mut r, sides, size);
            one(out, &mut r, &files, sides, None);
        }
    }
    // crafted: word-level merging of two sides that each delete one separator byte synthesizes
    // marker lines (length 9) that are in no input, so the chosen marker length (7) does not cover them
    {
        let base = b"<<<<x<<<<<y\na\n||||x|||||y\nb\n====x=====y\nc\n>>>>x>>>>>y\nsep\nq\n".to_vec();
        let side1: Vec<u8> = base.iter().copied().filter(|b| *b != b'x').collect::<Vec<u8>>().iter().flat_map(|b| if *b == b'q' { b"q1".to_vec() } else { vec![*b] }).collect();
        let side2: Vec<u8> = base.iter().copied().filter(|b| *b != b'y').collect::<Vec<u8>>().iter().flat_map(|b| if *b == b'q' { b"q2".to_vec() } else { vec![*b] }).collect();
        let files = vec![BString::from(side1), BString::from(base), BString::from(side2)];
        let mut r = cfg.rng(56);
        one(out, &mut r, &files, 2, Some(FileMergeHunkLevel::Word));
        one(out, &mut r, &files, 2, Some(FileMergeHunkLevel::Line));
        out.tally("stream", "crafted-word-merge");
    }
    // marker soup: correspondence of the parsers on arbitrary marker sequences
    let mut r = cfg.rng(55);
    for _ in 0..cfg.n(10_000, 200_000) {
        let n = r.range(1, 9);
        let mut v = vec![];
        for _ in 0..n { let s: &[u8] = SOUP[r.below(SOUP.len())]; v.extend_from_slice(s); }
        let sides = r.range(1, 3);
        let len = *r.pick(&[1usize, 4, 7, 7, 7, 8, 9]);
        parse_case(out, &v, sides, len);
        out.tally("stream", "soup");
    }
    out.note("merge inputs: 2–4 sides, 0–5 lines per file from a pool of marker look-alikes; per style one random label set and marker-length mode (None / explicit ≥ chosen / explicit shorter = correspondence only)".into());
}
