//! Deterministic scheduler for the head-set protocols (C14 op heads, C21 stacked tables).
//!
//! N "processes" are OS threads running the *real* jj code.  `jj_lib::verif_hooks::point(kind, detail)`
//! is called by that code just before every protocol step; the hook installed here parks the calling
//! thread until the scheduler releases it for exactly one step.  A crash is simulated by unwinding the
//! parked thread with a marker panic: destructors run, so a held `FileLock` is released exactly as the
//! kernel releases the flock of a dying process; nothing else of the operation happens.
use std::cell::RefCell;
use std::sync::{Arc, Condvar, Mutex, Once};
use std::time::Duration;

pub struct CrashMarker;

#[derive(Clone, Debug, PartialEq, Eq)]
pub enum PState {
    Idle,
    Running,
    /// parked in the hook, about to perform (kind, detail)
    At(&'static str, String),
    Done,
    Crashed,
    /// the real code panicked by itself
    Panicked(String),
}

struct Slot<R> {
    st: PState,
    go: bool,
    crash: bool,
    result: Option<R>,
}

struct Shared<R> {
    m: Mutex<Vec<Slot<R>>>,
    cv: Condvar,
}

trait Parker: Send + Sync {
    fn park(&self, pid: usize, kind: &'static str, detail: &str);
}

impl<R: Send> Parker for Shared<R> {
    fn park(&self, pid: usize, kind: &'static str, detail: &str) {
        let mut g = self.m.lock().unwrap();
        g[pid].st = PState::At(kind, detail.to_string());
        g[pid].go = false;
        self.cv.notify_all();
        loop {
            if g[pid].crash {
                drop(g);
                std::panic::resume_unwind(Box::new(CrashMarker));
            }
            if g[pid].go {
                g[pid].go = false;
                g[pid].st = PState::Running;
                return;
            }
            g = self.cv.wait(g).unwrap();
        }
    }
}

thread_local! {
    static CURRENT: RefCell<Option<(usize, Arc<dyn Parker>, &'static str)>> = const { RefCell::new(None) };
}

static INSTALL: Once = Once::new();

fn install_hook() {
    INSTALL.call_once(|| {
        jj_lib::verif_hooks::set_hook(Some(Box::new(|kind, detail| {
            let cur = CURRENT.with(|c| c.borrow().clone());
            if let Some((pid, parker, prefix)) = cur {
                if kind.starts_with(prefix) {
                    parker.park(pid, kind, detail);
                }
            }
        })));
    });
}

type Job<R> = Box<dyn FnOnce() -> R + Send + 'static>;

pub struct Sched<R> {
    shared: Arc<Shared<R>>,
    jobs: Vec<Option<std::sync::mpsc::Sender<Job<R>>>>,
    threads: Vec<Option<std::thread::JoinHandle<()>>>,
}

impl<R: Send + 'static> Sched<R> {
    /// `prefix`: only hook points whose kind starts with it are scheduling points ("table." / "opheads.")
    pub fn new(nproc: usize, prefix: &'static str) -> Self {
        install_hook();
        let slots = (0..nproc).map(|_| Slot { st: PState::Idle, go: false, crash: false, result: None }).collect();
        let shared = Arc::new(Shared { m: Mutex::new(slots), cv: Condvar::new() });
        let mut jobs = vec![];
        let mut threads = vec![];
        for pid in 0..nproc {
            let (tx, rx) = std::sync::mpsc::channel::<Job<R>>();
            let sh = shared.clone();
            let h = std::thread::Builder::new().stack_size(2 << 20).spawn(move || {
                let parker: Arc<dyn Parker> = sh.clone();
                CURRENT.with(|c| *c.borrow_mut() = Some((pid, parker, prefix)));
                while let Ok(op) = rx.recv() {
                    let r = std::panic::catch_unwind(std::panic::AssertUnwindSafe(op));
                    let mut g = sh.m.lock().unwrap();
                    match r {
                        Ok(v) => { g[pid].result = Some(v); g[pid].st = PState::Done; }
                        Err(e) => {
                            g[pid].st = if e.is::<CrashMarker>() { PState::Crashed }
                                else if let Some(s) = e.downcast_ref::<&str>() { PState::Panicked(s.to_string()) }
                                else if let Some(s) = e.downcast_ref::<String>() { PState::Panicked(s.clone()) }
                                else { PState::Panicked("panic".into()) };
                        }
                    }
                    sh.cv.notify_all();
                }
                CURRENT.with(|c| *c.borrow_mut() = None);
            }).unwrap();
            jobs.push(Some(tx));
            threads.push(Some(h));
        }
        Sched { shared, jobs, threads }
    }

    fn wait_settled(&self, pid: usize) -> PState {
        let mut g = self.shared.m.lock().unwrap();
        loop {
            if g[pid].st != PState::Running {
                return g[pid].st.clone();
            }
            let (ng, to) = self.shared.cv.wait_timeout(g, Duration::from_secs(30)).unwrap();
            g = ng;
            if to.timed_out() && g[pid].st == PState::Running {
                panic!("scheduler: process {pid} did not reach a hook point within 30 s (blocked in a lock?)");
            }
        }
    }

    /// Start an operation of process `pid`; returns when it is parked at its first hook point (or finished).
    pub fn start(&mut self, pid: usize, op: impl FnOnce() -> R + Send + 'static) -> PState {
        {
            let mut g = self.shared.m.lock().unwrap();
            assert!(!matches!(g[pid].st, PState::Running | PState::At(..)), "process busy");
            g[pid] = Slot { st: PState::Running, go: false, crash: false, result: None };
        }
        self.jobs[pid].as_ref().unwrap().send(Box::new(op)).unwrap();
        self.wait_settled(pid)
    }

    pub fn state(&self, pid: usize) -> PState { self.shared.m.lock().unwrap()[pid].st.clone() }

    /// Let `pid` perform the step it is parked at and run on to its next hook point (or its end).
    pub fn step(&mut self, pid: usize) -> PState {
        {
            let mut g = self.shared.m.lock().unwrap();
            assert!(matches!(g[pid].st, PState::At(..)), "step of a process that is not parked");
            g[pid].st = PState::Running;
            g[pid].go = true;
            self.shared.cv.notify_all();
        }
        self.wait_settled(pid)
    }

    /// Kill `pid` where it is parked.
    pub fn crash(&mut self, pid: usize) -> PState {
        {
            let mut g = self.shared.m.lock().unwrap();
            assert!(matches!(g[pid].st, PState::At(..)), "crash of a process that is not parked");
            g[pid].st = PState::Running;
            g[pid].crash = true;
            self.shared.cv.notify_all();
        }
        self.wait_settled(pid)
    }

    pub fn take_result(&mut self, pid: usize) -> Option<R> { self.shared.m.lock().unwrap()[pid].result.take() }

    pub fn set_idle(&mut self, pid: usize) { self.shared.m.lock().unwrap()[pid].st = PState::Idle; }
}

impl<R> Drop for Sched<R> {
    fn drop(&mut self) {
        // unwind whatever is still parked, then join
        {
            let mut g = self.shared.m.lock().unwrap();
            for s in g.iter_mut() {
                if matches!(s.st, PState::At(..)) { s.crash = true; }
            }
            self.shared.cv.notify_all();
        }
        for j in self.jobs.iter_mut() { j.take(); }
        for h in self.threads.iter_mut() {
            if let Some(h) = h.take() { let _ = h.join(); }
        }
    }
}

/// Silence the default panic message for the crash marker (other panics keep their message).
pub fn quiet_crash_panics() {
    static Q: Once = Once::new();
    Q.call_once(|| {
        let prev = std::panic::take_hook();
        std::panic::set_hook(Box::new(move |info| {
            if info.payload().is::<CrashMarker>() { return; }
            prev(info);
        }));
    });
}
