//! C43 — per-repo configuration cannot be injected by a copied repository.
//!
//! Real temp dir per sequence: `<td>/cfg` (the user's root config dir), `<td>/r0..r3` (repository
//! directories: absent / real dir / symlink), `<td>/evil` and `<td>/cfg/../evil` (a planted config dir
//! *outside* the root, with valid metadata and a config file, that only a non-validated id can
//! reach).  A sequence of user actions (mkdir, rm, mv, cp, ln -s, write/delete the config-id file
//! with arbitrary content, place a legacy config, edit/delete the config dir, chmod) interleaved
//! with `SecureConfig::{maybe_load_config, load_config}` through the public API, each load with a
//! fresh `SecureConfig` (= a new process; no cache) and one seeded ChaCha20 generator per sequence.
//! The whole sequence is one request; the answer is one token per op + the final state of all
//! directories.  Random ids are renamed in order of generation to the model's `genId k`.
//!
//! Oracle (property text only):
//!  * every loaded config file is `<root>/<20 hex digits>/config.toml`, lexically and after
//!    resolving symlinks;                                     `secure-config:path-outside-config-dir`
//!  * a config-id file that is not 20 hex digits never yields a config   `secure-config:malformed-id-accepted`
//!  * a writable copy (`cp a b`) of a repo whose original still exists — i.e. the copied config-id
//!    names a config dir whose metadata records the original's path, that path is still a real
//!    directory carrying the same id, and nothing touched either directory since — gets a different
//!    file, with the original's content, and the original's config dir is not
//!    written to by that load                                  `secure-config:copy-shares-original-config`,
//!                                                             `secure-config:copy-load-modified-original`,
//!                                                             `secure-config:copy-content-not-copied`
use crate::rt::*;
use jj_lib::secure_config::{SecureConfig, SecureConfigError, metadata_path, read_metadata};
use rand::SeedableRng as _;
use rand_chacha::ChaCha20Rng;
use std::collections::BTreeMap;
use std::fs;
use std::os::unix::fs::PermissionsExt as _;
use std::path::{Component, Path, PathBuf};

const NREPO: usize = 4;

#[derive(Clone, Debug, Hash, PartialEq, Eq)]
enum IdContent { Del, Abs, Bytes(Vec<u8>) }

#[derive(Clone, Debug, Hash, PartialEq, Eq)]
enum Op {
    Mk(usize), Rm(usize), Mv(usize, usize), Cp(usize, usize), Ln(usize, usize), SetId(usize, IdContent),
    Legacy(usize, u32), Edit(usize, u32), RmConf(usize), Chmod(usize, bool), Load(usize), LoadC(usize),
}

impl Op {
    fn token(&self) -> String {
        match self {
            Op::Mk(r) => format!("mk:{r}"), Op::Rm(r) => format!("rm:{r}"), Op::Mv(a, b) => format!("mv:{a}:{b}"),
            Op::Cp(a, b) => format!("cp:{a}:{b}"), Op::Ln(a, b) => format!("ln:{a}:{b}"),
            Op::SetId(r, IdContent::Del) => format!("id:{r}:del"), Op::SetId(r, IdContent::Abs) => format!("id:{r}:@abs"),
            Op::SetId(r, IdContent::Bytes(b)) => format!("id:{r}:h{}", hex(b)),
            Op::Legacy(r, c) => format!("leg:{r}:{c}"), Op::Edit(r, c) => format!("edit:{r}:{c}"),
            Op::RmConf(r) => format!("rmconf:{r}"), Op::Chmod(r, w) => format!("{}:{r}", if *w { "rw" } else { "ro" }),
            Op::Load(r) => format!("load:{r}"), Op::LoadC(r) => format!("loadc:{r}"),
        }
    }
}

/// the property's own notion of a well-formed id (written from the text: 2·10 hex digits)
fn well_formed(bytes: &[u8]) -> bool { bytes.len() == 20 && bytes.iter().all(|b| b.is_ascii_hexdigit()) }

struct World {
    td: tempfile::TempDir,
    root: PathBuf,
    workspace_kind: bool,
    rng: ChaCha20Rng,
    /// real random id -> k (generation order)
    gens: BTreeMap<String, usize>,
    literals: Vec<String>,
    // --- oracle bookkeeping (independent of the model) ---
    /// per repo name: a counter bumped by every user action that touches the directory or its config
    version: [u64; NREPO],
    /// per repo name: (version at that time, config file) of the last successful load
    known: [Option<(u64, PathBuf)>; NREPO],
    /// per repo name: made by `cp a b`: (a, a's version at copy time, a's known file, content of that file)
    origin: [Option<(usize, u64, PathBuf, Option<Vec<u8>>)>; NREPO],
}

fn gen_name(k: usize) -> String { format!("{}{:04x}", "0".repeat(16), k) }

impl World {
    fn repo(&self, r: usize) -> PathBuf { self.td.path().join(format!("r{r}")) }
    fn id_name(&self) -> &'static str { if self.workspace_kind { "workspace-config-id" } else { "config-id" } }
    fn legacy_name(&self) -> &'static str { if self.workspace_kind { "workspace-config.toml" } else { "config.toml" } }
    fn lstat(&self, r: usize) -> Option<fs::Metadata> { fs::symlink_metadata(self.repo(r)).ok() }
    fn is_real_dir(&self, r: usize) -> bool { self.lstat(r).is_some_and(|m| m.is_dir()) }
    fn is_absent(&self, r: usize) -> bool { self.lstat(r).is_none() }
    /// canonical name of a config dir: generated ids by generation order; anything that is not plain
    /// alphanumeric (only reachable if the id validation is broken) hex-escaped, so that the answer
    /// stays one line
    fn canon_id(&self, name: &str) -> String {
        match self.gens.get(name) {
            Some(k) => gen_name(*k),
            None if name.chars().all(|c| c.is_ascii_alphanumeric()) => name.to_string(),
            None => format!("h{}", hex(name.as_bytes())),
        }
    }
    fn repo_index(&self, p: &Path) -> Option<usize> { (0..NREPO).find(|r| self.repo(*r) == p) }
    /// the valid id currently in r's id file (through symlinks), as the user would read it
    fn current_id(&self, r: usize) -> Option<String> {
        let b = fs::read(self.repo(r).join(self.id_name())).ok()?;
        if well_formed(&b) { Some(String::from_utf8(b).unwrap()) } else { None }
    }
    fn bump(&mut self, r: usize) { self.version[r] += 1; }

    fn user_op(&mut self, op: &Op) {
        match op {
            Op::Mk(r) => if self.is_absent(*r) { fs::create_dir(self.repo(*r)).unwrap(); self.bump(*r); self.origin[*r] = None; },
            Op::Rm(r) => {
                match self.lstat(*r) {
                    Some(m) if m.is_dir() => { let _ = fs::set_permissions(self.repo(*r), fs::Permissions::from_mode(0o755)); fs::remove_dir_all(self.repo(*r)).unwrap() }
                    Some(_) => fs::remove_file(self.repo(*r)).unwrap(),
                    None => {}
                }
                self.bump(*r); self.origin[*r] = None;
            }
            Op::Mv(a, b) => if self.is_real_dir(*a) && self.is_absent(*b) {
                fs::rename(self.repo(*a), self.repo(*b)).unwrap();
                self.bump(*a); self.bump(*b); self.origin[*b] = None; self.origin[*a] = None;
            },
            Op::Cp(a, b) => if self.is_real_dir(*a) && self.is_absent(*b) {
                fs::create_dir(self.repo(*b)).unwrap();
                for e in fs::read_dir(self.repo(*a)).unwrap() {
                    let e = e.unwrap();
                    let dst = self.repo(*b).join(e.file_name());
                    let m = fs::symlink_metadata(e.path()).unwrap();
                    if m.file_type().is_symlink() { std::os::unix::fs::symlink(fs::read_link(e.path()).unwrap(), dst).unwrap(); }
                    else if m.is_file() { fs::copy(e.path(), dst).unwrap(); }
                }
                self.bump(*b);
                // oracle bookkeeping: b is a copy of a, if a's config is known for a's current version
                self.origin[*b] = match &self.known[*a] {
                    Some((v, f)) if *v == self.version[*a] => Some((*a, *v, f.clone(), fs::read(f).ok())),
                    _ => None,
                };
            },
            Op::Ln(a, b) => if self.is_real_dir(*a) && self.is_absent(*b) {
                std::os::unix::fs::symlink(self.repo(*a), self.repo(*b)).unwrap();
                self.bump(*b); self.origin[*b] = None;
            },
            Op::SetId(r, c) => if self.is_real_dir(*r) {
                let p = self.repo(*r).join(self.id_name());
                match c {
                    IdContent::Del => { let _ = fs::remove_file(&p); }
                    IdContent::Abs => fs::write(&p, self.td.path().join("evil").to_str().unwrap()).unwrap(),
                    IdContent::Bytes(b) => fs::write(&p, b).unwrap(),
                }
                self.bump(*r); self.origin[*r] = None;
            },
            Op::Legacy(r, c) => if self.is_real_dir(*r) {
                let p = self.repo(*r).join(self.legacy_name());
                let _ = fs::remove_file(&p);
                fs::write(&p, c.to_string()).unwrap();
                self.bump(*r);
            },
            Op::Edit(r, c) => if let Some(id) = self.current_id(*r) {
                let d = self.root.join(&id);
                if d.is_dir() { fs::write(d.join("config.toml"), c.to_string()).unwrap(); }
            },
            Op::RmConf(r) => if let Some(id) = self.current_id(*r) {
                let d = self.root.join(&id);
                if d.is_dir() { fs::remove_dir_all(d).unwrap(); }
                // every repo sharing that id loses its known config
                for q in 0..NREPO { self.bump(q); }
            },
            Op::Chmod(r, w) => if self.is_real_dir(*r) {
                fs::set_permissions(self.repo(*r), fs::Permissions::from_mode(if *w { 0o755 } else { 0o555 })).unwrap();
            },
            Op::Load(_) | Op::LoadC(_) => unreachable!(),
        }
    }

    /// names of new directories under root that are neither literal nor known ⇒ generated now
    fn note_generated(&mut self) {
        let mut names: Vec<String> = fs::read_dir(&self.root).unwrap().map(|e| e.unwrap().file_name().into_string().unwrap()).collect();
        names.sort();
        for n in names {
            if !self.literals.contains(&n) && !self.gens.contains_key(&n) {
                let k = self.gens.len();
                self.gens.insert(n, k);
            }
        }
    }

    fn show_file(&self, p: &Path) -> String {
        match p.strip_prefix(&self.root) {
            Ok(rel) => {
                let comps: Vec<Component> = rel.components().collect();
                match comps.as_slice() {
                    [Component::Normal(id), Component::Normal(f)] => format!("{}/{}", self.canon_id(id.to_str().unwrap()), f.to_str().unwrap()),
                    _ => "ESCAPE".to_string(),
                }
            }
            Err(_) => "ESCAPE".to_string(),
        }
    }

    fn dump(&self) -> String {
        let mut repos = vec![];
        for r in 0..NREPO {
            let s = match self.lstat(r) {
                None => "-".to_string(),
                Some(m) if m.file_type().is_symlink() => {
                    let t = fs::read_link(self.repo(r)).unwrap();
                    format!("L{}", self.repo_index(&t).map(|i| i.to_string()).unwrap_or("?".into()))
                }
                Some(m) => {
                    let id = match fs::read(self.repo(r).join(self.id_name())) {
                        Err(_) => "-".to_string(),
                        Ok(b) => match String::from_utf8(b) {
                            Err(_) => "x".to_string(),
                            Ok(s) => {
                                let s = if s == self.td.path().join("evil").to_str().unwrap() { "/abs/evil".to_string() }
                                        else { match self.gens.get(&s) { Some(k) => gen_name(*k), None => s } };
                                format!("t{}", hex(s.as_bytes()))
                            }
                        },
                    };
                    let lp = self.repo(r).join(self.legacy_name());
                    let leg = match fs::symlink_metadata(&lp) {
                        Err(_) => "-".to_string(),
                        Ok(lm) if lm.file_type().is_symlink() => {
                            let t = fs::read_link(&lp).unwrap();
                            let shown = self.show_file(&t);
                            format!("l{}", shown.strip_suffix("/config.toml").unwrap_or("?"))
                        }
                        Ok(_) => format!("f{}", fs::read_to_string(&lp).unwrap_or("?".into())),
                    };
                    format!("D(id={id};leg={leg};w={})", if m.permissions().mode() & 0o200 != 0 { 1 } else { 0 })
                }
            };
            repos.push(format!("{r}={s}"));
        }
        let mut confs: Vec<(String, String)> = vec![];
        for e in fs::read_dir(&self.root).unwrap() {
            let e = e.unwrap();
            let name = e.file_name().into_string().unwrap();
            let md = match read_metadata(&e.path()) {
                Err(SecureConfigError::PathError(_)) => "-".to_string(),
                Err(_) => "undecodable".to_string(),
                Ok(m) => match metadata_path(&m) {
                    Ok(None) => "none".to_string(),
                    Ok(Some(p)) => self.repo_index(p).map(|i| format!("r{i}")).unwrap_or("?".into()),
                    Err(_) => "?".to_string(),
                },
            };
            let cfg = fs::read_to_string(e.path().join("config.toml")).unwrap_or("-".into());
            let cname = self.canon_id(&name);
            confs.push((cname.clone(), format!("{cname}(md={md};cfg={cfg})")));
        }
        confs.sort();
        format!("R[{}] C[{}]", repos.join(" "), confs.into_iter().map(|c| c.1).collect::<Vec<_>>().join(" "))
    }
}

fn run_seq(out: &mut Out, ops: &[Op], workspace_kind: bool, seed: u64) {
    // a memory file system when there is one: the sequences are thousands of tiny file operations
    let base = if Path::new("/dev/shm").is_dir() { PathBuf::from("/dev/shm") } else { std::env::temp_dir() };
    let td = tempfile::Builder::new().prefix("jjverif-c43-").tempdir_in(base).unwrap();
    let root = td.path().join("cfg");
    fs::create_dir(&root).unwrap();
    let mut w = World { root, workspace_kind, rng: ChaCha20Rng::seed_from_u64(seed), gens: BTreeMap::new(), literals: vec![],
                        version: [0; NREPO], known: Default::default(), origin: Default::default(), td };
    // the planted directory outside the root: valid metadata (pointing at r0) + a config file
    let evil = w.td.path().join("evil");
    fs::create_dir(&evil).unwrap();
    {
        use jj_lib::protos::secure_config::ConfigMetadata;
        use prost_shim::encode;
        fs::write(evil.join("metadata.binpb"), encode(&ConfigMetadata { path: Some(w.repo(0).to_str().unwrap().as_bytes().to_vec()) })).unwrap();
        fs::write(evil.join("config.toml"), "666").unwrap();
    }
    for op in ops {
        if let Op::SetId(_, IdContent::Bytes(b)) = op { if let Ok(s) = String::from_utf8(b.clone()) { if !w.literals.contains(&s) { w.literals.push(s); } } }
    }
    let mut toks = vec![];
    let mut failures: Vec<(&'static str, String)> = vec![];
    let mut oracle_checks = 0u64;
    let mut copy_checked = 0u64;
    for op in ops {
        let (r, gen_if_none) = match op { Op::Load(r) => (*r, false), Op::LoadC(r) => (*r, true), other => { w.user_op(other); toks.push(".".to_string()); continue; } };
        let repo_dir = w.repo(r);
        let id_bytes = fs::read(repo_dir.join(w.id_name())).ok();
        let origin_snapshot = w.origin[r].as_ref().map(|(a, _, f, _)| (*a, f.clone(), dir_snapshot(f.parent().unwrap())));
        // Precondition of the copy clause, read off the disk before the load: the copy's config-id file
        // still names the original's config dir, the original's own config-id file too, and that config
        // dir belongs to the original (its metadata records the original's path, which is a real directory).
        let copy_precondition = w.origin[r].as_ref().is_some_and(|(a, _, f, _)| {
            let dir = f.parent().unwrap();
            let names_dir = |bytes: &Option<Vec<u8>>| bytes.as_deref().is_some_and(|b| well_formed(b) && w.root.join(std::str::from_utf8(b).unwrap()) == dir);
            names_dir(&id_bytes) && names_dir(&fs::read(w.repo(*a).join(w.id_name())).ok())
                && read_metadata(dir).ok().is_some_and(|m| matches!(metadata_path(&m), Ok(Some(p)) if p == w.repo(*a)))
        });
        let sc = if workspace_kind { SecureConfig::new_workspace(repo_dir.clone()) } else { SecureConfig::new_repo(repo_dir.clone()) };
        let root = w.root.clone();
        let res = { let rng = &mut w.rng; guard(move || if gen_if_none { sc.load_config(rng, &root) } else { sc.maybe_load_config(rng, &root) }) };
        w.note_generated();
        let tok = match &res {
            Err(p) => { failures.push(("secure-config:panic", format!("{op:?}: {p}"))); "panic".to_string() }
            Ok(Err(SecureConfigError::BadConfigIdError)) => "err:badid".to_string(),
            Ok(Err(SecureConfigError::PathError(_))) => "err:path".to_string(),
            Ok(Err(SecureConfigError::DecodeError(_))) => "err:decode".to_string(),
            Ok(Err(SecureConfigError::BadPathEncoding(_))) => "err:encoding".to_string(),
            Ok(Ok(l)) => {
                let f = l.config_file.as_deref().map(|p| w.show_file(p)).unwrap_or("-".into());
                let md = match metadata_path(&l.metadata) { Ok(Some(p)) => w.repo_index(p).map(|i| format!("r{i}")).unwrap_or("?".into()), Ok(None) => "-".into(), Err(_) => "?".into() };
                let warn = match l.warnings.as_slice() {
                    [] => "-",
                    [x] if x.contains("appears to have been copied") => "copied",
                    [x] if x.contains("has been migrated") => "migrated",
                    [x] if x.contains("Per-repo config not found") => "notfound",
                    _ => "other",
                };
                format!("ok({f},{md},{warn})")
            }
        };
        toks.push(tok);
        // ---------------- oracle ----------------
        if let Ok(Ok(l)) = &res {
            oracle_checks += 1;
            if let Some(p) = &l.config_file {
                // (a) confined, lexically and physically
                let lexical_ok = match p.strip_prefix(&w.root) {
                    Ok(rel) => { let c: Vec<Component> = rel.components().collect();
                        matches!(c.as_slice(), [Component::Normal(id), Component::Normal(f)] if well_formed(id.as_encoded_bytes()) && f.to_str() == Some("config.toml")) }
                    Err(_) => false,
                };
                let physical_ok = match p.parent().and_then(|d| fs::canonicalize(d).ok()) {
                    Some(d) => d.parent() == fs::canonicalize(&w.root).ok().as_deref(),
                    None => true, // directory does not exist (nothing can be read from it)
                };
                if !lexical_ok || !physical_ok {
                    failures.push(("secure-config:path-outside-config-dir", format!("{op:?} with config-id file {:?} returned {}", id_bytes.as_deref().map(String::from_utf8_lossy), p.display())));
                }
                // (b) chosen only by a well-formed id
                if let Some(b) = &id_bytes { if !well_formed(b) {
                    failures.push(("secure-config:malformed-id-accepted", format!("{op:?}: config-id file {:?} is not 20 hex digits but a config was loaded: {}", String::from_utf8_lossy(b), p.display())));
                } }
                // (c) a writable copy whose original still exists gets its own copy
                if let Some((a, av, afile, _)) = w.origin[r].clone() {
                    let writable = fs::metadata(&repo_dir).map(|m| m.permissions().mode() & 0o200 != 0).unwrap_or(false) || is_root();
                    if copy_precondition && w.version[a] == av && w.is_real_dir(a) && w.is_real_dir(r) && writable {
                        oracle_checks += 1;
                        copy_checked += 1;
                        let a_now = w.known[a].as_ref().map(|k| k.1.clone());
                        if *p == afile || Some(p.clone()) == a_now {
                            failures.push(("secure-config:copy-shares-original-config", format!("r{r} is a writable copy of r{a} (which still exists, config {}), but loading it returned the same file {}", afile.display(), p.display())));
                        } else {
                            let orig_now = origin_snapshot.as_ref().and_then(|(_, _, snap)| snap.iter().find(|(n, _)| n == "config.toml").map(|(_, c)| c.clone()));
                            if fs::read(p).ok() != orig_now {
                                failures.push(("secure-config:copy-content-not-copied", format!("copy r{r} of r{a}: new config {} has content {:?}, original has {:?}", p.display(), fs::read(p).ok(), orig_now)));
                            }
                        }
                        if let Some((_, f, snap)) = &origin_snapshot { if dir_snapshot(f.parent().unwrap()) != *snap {
                            failures.push(("secure-config:copy-load-modified-original", format!("loading the copy r{r} changed the original's config dir {}", f.parent().unwrap().display())));
                        } }
                    }
                    w.origin[r] = None;
                }
                w.known[r] = Some((w.version[r], p.clone()));
            }
        } else if let Ok(Err(_)) = &res {
            oracle_checks += 1;
        }
    }
    let resp = format!("{} | {}", toks.join(" "), w.dump());
    out.case(&format!("run {}", ops.iter().map(|o| o.token()).collect::<Vec<_>>().join(" ")), &resp);
    for t in &toks {
        if t == "." { continue; }
        let k = match t.find('(') {
            Some(_) => format!("ok:{}{}", t.rsplit(',').next().unwrap_or("").trim_end_matches(')'), if t.starts_with("ok(-") { " (no config)" } else { "" }),
            None => t.clone(),
        };
        out.tally("load result", &k);
    }
    out.tally("ops", &ops.len().to_string());
    for _ in 0..copy_checked { out.tally("oracle", "copy clause applied (writable copy, original still there)"); }
    let loads = toks.iter().filter(|t| *t != ".").count();
    if loads >= 2 && ops.iter().any(|o| matches!(o, Op::Cp(..) | Op::Mv(..) | Op::SetId(..) | Op::Ln(..))) { out.nontrivial(ops.to_vec()); }
    if failures.is_empty() { for _ in 0..oracle_checks.max(1) { out.oracle_ok(); } }
    for (sig, d) in failures { out.oracle_fail(sig, format!("{d}; sequence: {}", ops.iter().map(|o| o.token()).collect::<Vec<_>>().join(" "))); }
    // leave no read-only directories behind for TempDir's cleanup
    for r in 0..NREPO { if w.is_real_dir(r) { let _ = fs::set_permissions(w.repo(r), fs::Permissions::from_mode(0o755)); } }
}

fn dir_snapshot(d: &Path) -> Vec<(String, Vec<u8>)> {
    let mut v: Vec<(String, Vec<u8>)> = match fs::read_dir(d) {
        Ok(rd) => rd.filter_map(|e| e.ok()).map(|e| (e.file_name().to_string_lossy().into_owned(), fs::read(e.path()).unwrap_or_default())).collect(),
        Err(_) => vec![],
    };
    v.sort();
    v
}

/// can this process create files in a 0o555 directory? (root can: then `ro` ops are not generated)
fn is_root() -> bool {
    static R: std::sync::OnceLock<bool> = std::sync::OnceLock::new();
    *R.get_or_init(|| {
        let td = tempfile::tempdir().unwrap();
        fs::set_permissions(td.path(), fs::Permissions::from_mode(0o555)).unwrap();
        let ok = fs::write(td.path().join("probe"), "x").is_ok();
        let _ = fs::set_permissions(td.path(), fs::Permissions::from_mode(0o755));
        ok
    })
}

/// minimal protobuf encoding of `ConfigMetadata` (field 1, bytes) — avoids a direct prost dependency
mod prost_shim {
    use jj_lib::protos::secure_config::ConfigMetadata;
    pub fn encode(m: &ConfigMetadata) -> Vec<u8> {
        let mut v = vec![];
        if let Some(p) = &m.path {
            v.push(0x0a);
            let mut n = p.len();
            loop { let b = (n & 0x7f) as u8; n >>= 7; if n == 0 { v.push(b); break; } else { v.push(b | 0x80); } }
            v.extend_from_slice(p);
        }
        v
    }
}

fn id_pool() -> Vec<(IdContent, &'static str)> {
    let b = |s: &str| IdContent::Bytes(s.as_bytes().to_vec());
    vec![
        (b("aaaaaaaaaaaaaaaaaaaa"), "valid"), (b("0123456789abcdef0123"), "valid"), (b("ABCDEF0123456789abcd"), "valid-uppercase"),
        (b("bbbbbbbbbbbbbbbbbbbb"), "valid"),
        (b(""), "empty"), (b("abc"), "short"), (b("aaaaaaaaaaaaaaaaaaa"), "19"), (b("aaaaaaaaaaaaaaaaaaaaa"), "21"),
        (b("aaaaaaaaaaaaaaaaaaaa\n"), "valid+newline"), (b("aaaaaaaaaaaaaaaaaaa\n"), "19+newline"),
        (b("gggggggggggggggggggg"), "20-nonhex"), (b("../evil"), "dotdot"), (b("../evil/../evil/../e"), "dotdot-20"),
        (b("../../../../../../.."), "dotdot-20b"), (b("aaaaaaaaa/aaaaaaaaaa"), "slash-20"), (b("aaaaaaaaaaaaaaaaaa/."), "slash-dot-20"),
        (b("aaaaaaaaaaaaaaaaaa\u{e9}"), "20-bytes-19-chars"), (b("aaaaaaaaaaaaaaaaaaa\u{e9}"), "21-bytes-20-chars"),
        (b("aaaaaaaaaaaaaaaaaaa\u{0}"), "nul"), (b(" aaaaaaaaaaaaaaaaaaa"), "space"), (b("0x0123456789abcdef01"), "0x"),
        (b("\u{ff10}123456789abcdef012"), "fullwidth-digit"),
        (IdContent::Bytes(vec![0xff, 0xfe]), "not-utf8"), (IdContent::Bytes([b"aaaaaaaaaaaaaaaaaaa".as_slice(), &[0xe9]].concat()), "not-utf8-20"),
        (IdContent::Abs, "absolute"), (IdContent::Del, "deleted"),
    ]
}

pub fn run(cfg: &Cfg, out: &mut Out) {
    let pool = id_pool();
    let root_user = is_root();
    out.note(format!("running as a user that {} create files in read-only directories: ro/rw ops {}", if root_user { "can" } else { "cannot" }, if root_user { "not generated (the read-only branch of handle_metadata_path is not exercised)" } else { "generated" }));
    // Part 1 — every id content, on a fresh repo and on a repo that already has a config, both entry points
    for (c, _) in &pool {
        for entry in 0..2 {
            let ld = |r| if entry == 0 { Op::Load(r) } else { Op::LoadC(r) };
            run_seq(out, &[Op::Mk(0), Op::SetId(0, c.clone()), ld(0), ld(0)], false, 1);
            run_seq(out, &[Op::Mk(0), Op::LoadC(0), Op::Edit(0, 5), Op::SetId(0, c.clone()), ld(0), Op::Load(0)], entry == 1, 2);
            run_seq(out, &[Op::Mk(0), Op::LoadC(0), Op::Cp(0, 1), Op::SetId(1, c.clone()), ld(1), Op::Load(0)], false, 3);
        }
    }
    // Part 2 — the named scenarios: copy, move, alias, missing config dir, legacy migration, re-created original
    for seq in [
        vec![Op::Mk(0), Op::LoadC(0), Op::Edit(0, 5), Op::Cp(0, 1), Op::Load(1), Op::Load(0), Op::Load(1)],
        vec![Op::Mk(0), Op::LoadC(0), Op::Cp(0, 1), Op::LoadC(1), Op::Load(0)],
        vec![Op::Mk(0), Op::LoadC(0), Op::Edit(0, 7), Op::Mv(0, 1), Op::Load(1), Op::Load(1)],
        vec![Op::Mk(0), Op::LoadC(0), Op::Mv(0, 1), Op::Mk(0), Op::Load(1), Op::Load(0)],
        vec![Op::Mk(0), Op::LoadC(0), Op::Ln(0, 1), Op::Load(1), Op::Load(0)],
        vec![Op::Mk(0), Op::LoadC(0), Op::RmConf(0), Op::Load(0), Op::Load(0)],
        vec![Op::Mk(0), Op::Legacy(0, 9), Op::Load(0), Op::Load(0), Op::Cp(0, 1), Op::Load(1), Op::SetId(1, IdContent::Del), Op::Load(1)],
        vec![Op::Mk(0), Op::LoadC(0), Op::Cp(0, 1), Op::Rm(0), Op::Load(1)],
        vec![Op::Load(0), Op::LoadC(0), Op::Mk(0), Op::Load(0), Op::LoadC(0)],
        vec![Op::Mk(0), Op::LoadC(0), Op::Cp(0, 1), Op::Cp(0, 2), Op::Load(1), Op::Load(2), Op::Cp(1, 3), Op::Load(3)],
    ] {
        run_seq(out, &seq, false, 4);
        run_seq(out, &seq, true, 5);
    }
    // Part 3 — random sequences, sizes small → large
    let mut r = cfg.rng(43);
    let n = cfg.n(20_000, 300_000);
    for i in 0..n {
        let len = 2 + (i * 11 / n.max(1)) as usize + r.below(3);
        let nrepo = r.range(2, NREPO);
        let mut ops = vec![Op::Mk(0)];
        // rough existence tracking, only to bias the choice of operands towards meaningful ones
        let mut exists = [false; NREPO];
        exists[0] = true;
        if r.chance(3, 4) { ops.push(Op::LoadC(0)); }
        for _ in 0..len {
            let pick = |r: &mut Rng, want: bool, exists: &[bool; NREPO]| {
                let c: Vec<usize> = (0..nrepo).filter(|i| exists[*i] == want).collect();
                if c.is_empty() || r.chance(1, 6) { r.below(nrepo) } else { *r.pick(&c) }
            };
            let a = pick(&mut r, true, &exists);
            let b = pick(&mut r, false, &exists);
            let op = match r.below(24) {
                0 => Op::Mk(b), 1 => Op::Rm(a), 2 | 3 => Op::Mv(a, b), 4..=7 => Op::Cp(a, b), 8 => Op::Ln(a, b),
                9 | 10 => { let (c, _) = r.pick(&pool).clone(); Op::SetId(a, c) }
                11 => Op::SetId(a, pool[r.below(4)].0.clone()),
                12 => Op::Legacy(a, r.below(4) as u32), 13 => Op::Edit(a, 10 + r.below(4) as u32), 14 => Op::RmConf(a),
                15 if !root_user => Op::Chmod(a, r.chance(1, 3)),
                15..=20 => Op::Load(a), _ => Op::LoadC(a),
            };
            match &op {
                Op::Mk(x) | Op::Cp(_, x) | Op::Ln(_, x) => exists[*x] = true,
                Op::Rm(x) => exists[*x] = false,
                Op::Mv(x, y) if exists[*x] && !exists[*y] => { exists[*x] = false; exists[*y] = true; }
                _ => {}
            }
            ops.push(op);
        }
        for q in 0..nrepo { if exists[q] && r.chance(1, 2) { ops.push(Op::Load(q)); } }
        run_seq(out, &ops, r.chance(1, 4), 100 + i);
    }
}
