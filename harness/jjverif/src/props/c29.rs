//! C29 — line-ending conversion round-trips normalized content.
//!
//! The conversion functions (`TargetEolStrategy::convert_eol_for_update/_snapshot`) are
//! `pub(crate)`; they are driven through a real local working copy configured with
//! `working-copy.eol-conversion`:
//!   * `update m x`   = bytes found on disk after checking out a commit whose file has content `x`;
//!   * `snapshot m d` = stored content after writing a *new* file with bytes `d` and snapshotting
//!     (a new file is always read, independent of the mtime heuristics of C26).
//! Cases are processed in batches (one tree / one checkout / one snapshot per batch of files).
//!
//! Oracle (from the property text; independent of the Lean model):
//!   * input-output, stored `x` without CRLF: the snapshot of what checkout wrote is `x` again;
//!     the disk form is either `x` verbatim (binary) or its CRLF form (every LF preceded by a CR,
//!     dropping those CRs gives `x`); which one is demanded only where the classification is
//!     unambiguous (no NUL / no CR anywhere ⇒ text; NUL or lone CR strictly inside the probe
//!     window ⇒ binary) — at the window edge the source documents misclassification as possible;
//!   * input: checkout verbatim; none: both directions verbatim;
//!   * snapshot of arbitrary disk bytes (input / input-output): unambiguous binary ⇒ unchanged,
//!     unambiguous text ⇒ exactly the CRLFs become LFs.
use crate::rt::*;
use jj_lib::backend::TreeValue;
use jj_lib::config::{ConfigLayer, ConfigSource};
use jj_lib::repo::Repo as _;
use jj_lib::repo_path::RepoPathBuf;
use jj_lib::settings::UserSettings;
use pollster::FutureExt as _;
use std::path::PathBuf;
use testutils::{TestRepoBackend, TestTreeBuilder, TestWorkspace, commit_with_tree};

/// the value documented in lib/src/eol.rs (`PROBE_LIMIT = 8 << 10`); only used to aim the
/// generators at the window edge and to delimit the oracle's "unambiguous" region.
const LIMIT: usize = 8192;
const MODES: [&str; 3] = ["none", "input", "input-output"];

fn settings(mode: &str) -> UserSettings {
    let mut c = testutils::base_user_config();
    c.add_layer(ConfigLayer::parse(ConfigSource::User, &format!("working-copy.eol-conversion = \"{mode}\"\n")).unwrap());
    UserSettings::from_config(c).unwrap()
}

/// canonical run-length form: maximal runs, `hh` or `hh*n`, joined by `.`; empty = `-`
fn rle(b: &[u8]) -> String {
    if b.is_empty() { return "-".into(); }
    let mut parts = vec![];
    let mut i = 0;
    while i < b.len() {
        let mut j = i;
        while j < b.len() && b[j] == b[i] { j += 1; }
        parts.push(if j - i == 1 { format!("{:02x}", b[i]) } else { format!("{:02x}*{}", b[i], j - i) });
        i = j;
    }
    parts.join(".")
}

fn has_crlf(x: &[u8]) -> bool { x.windows(2).any(|w| w == b"\r\n") }
/// `Some(y)` iff every LF of `d` is preceded by a CR; `y` = `d` without those CRs
fn strip_crlf_form(d: &[u8]) -> Option<Vec<u8>> {
    let mut y = vec![];
    for (i, b) in d.iter().enumerate() {
        if *b == b'\n' { if i == 0 || d[i - 1] != b'\r' { return None; } y.pop(); }
        y.push(*b);
    }
    Some(y)
}
fn crlf_to_lf(d: &[u8]) -> Vec<u8> {
    let mut y = vec![];
    let mut i = 0;
    while i < d.len() {
        if d[i] == b'\r' && d.get(i + 1) == Some(&b'\n') { i += 1; }
        y.push(d[i]);
        i += 1;
    }
    y
}
/// text beyond doubt: no NUL and no lone CR anywhere in the file
fn surely_text(x: &[u8]) -> bool {
    !x.contains(&0) && (0..x.len()).all(|i| x[i] != b'\r' || x.get(i + 1) == Some(&b'\n'))
}
/// binary beyond doubt: NUL, or a CR followed by a non-LF byte / end of file, strictly inside the window
fn surely_binary(x: &[u8]) -> bool {
    (0..x.len().min(LIMIT - 1)).any(|i| x[i] == 0 || (x[i] == b'\r' && x.get(i + 1) != Some(&b'\n') && (i + 1 < LIMIT - 1 || i + 1 >= x.len())))
}

struct Ws { mode: &'static str, tw: TestWorkspace, root: PathBuf, batch: usize }

impl Ws {
    fn new(mode: &'static str) -> Self {
        let tw = TestWorkspace::init_with_backend_and_settings(TestRepoBackend::Test, &settings(mode));
        let root = tw.workspace.workspace_root().to_owned();
        Ws { mode, tw, root, batch: 0 }
    }
    /// checkout a fresh directory holding `xs`; returns the bytes on disk
    fn update(&mut self, xs: &[Vec<u8>]) -> Vec<Vec<u8>> {
        self.batch += 1;
        let store = self.tw.repo.store().clone();
        let mut b = TestTreeBuilder::new(store.clone());
        let paths: Vec<RepoPathBuf> = (0..xs.len()).map(|i| RepoPathBuf::from_internal_string(format!("u{}/f{i}", self.batch)).unwrap()).collect();
        for (p, x) in paths.iter().zip(xs) { let _ = b.file(p, x); }
        let commit = commit_with_tree(&store, b.write_merged_tree());
        self.tw.workspace.check_out(self.tw.repo.op_id().clone(), None, &commit).block_on().unwrap();
        (0..xs.len()).map(|i| std::fs::read(self.root.join(format!("u{}/f{i}", self.batch))).unwrap()).collect()
    }
    /// write new files with bytes `ds`, snapshot; returns the stored contents
    fn snapshot(&mut self, ds: &[Vec<u8>]) -> Vec<Vec<u8>> {
        self.batch += 1;
        let dir = self.root.join(format!("s{}", self.batch));
        std::fs::create_dir(&dir).unwrap();
        for (i, d) in ds.iter().enumerate() { std::fs::write(dir.join(format!("f{i}")), d).unwrap(); }
        let tree = self.tw.snapshot().unwrap();
        let store = self.tw.repo.store().clone();
        let res = (0..ds.len()).map(|i| {
            let p = RepoPathBuf::from_internal_string(format!("s{}/f{i}", self.batch)).unwrap();
            let v = tree.path_value(&p).block_on().unwrap();
            match v.as_resolved() {
                Some(Some(TreeValue::File { id, .. })) => testutils::read_file(&store, &p, id),
                other => panic!("snapshot did not record a file at {p:?}: {other:?}"),
            }
        }).collect();
        std::fs::remove_dir_all(&dir).unwrap();
        res
    }
}

fn describe(out: &mut Out, x: &[u8]) {
    out.tally("size", if x.len() < 64 { "small" } else if x.len() + 8 < LIMIT { "below-limit" } else if x.len() <= LIMIT + 8 { "limit±8" } else { "above-limit" });
}

/// stored contents `xs`: checkout, then snapshot what checkout wrote
fn roundtrip_batch(out: &mut Out, ws: &mut Ws, xs: &[Vec<u8>]) {
    let mode = ws.mode;
    let disks = match guard(|| ws.update(xs)) { Ok(d) => d, Err(e) => { out.case(&format!("update {mode} {}", rle(&xs[0])), "panic"); out.oracle_fail("eol:panic", format!("checkout panicked: {e}")); return; } };
    let backs = match guard(|| ws.snapshot(&disks)) { Ok(d) => d, Err(e) => { out.case(&format!("snapshot {mode} {}", rle(&disks[0])), "panic"); out.oracle_fail("eol:panic", format!("snapshot panicked: {e}")); return; } };
    for ((x, disk), back) in xs.iter().zip(&disks).zip(&backs) {
        out.case(&format!("update {mode} {}", rle(x)), &rle(disk));
        out.case(&format!("snapshot {mode} {}", rle(disk)), &rle(back));
        describe(out, x);
        let converted = disk != x;
        out.tally("update", if converted { "converted" } else if x.contains(&b'\n') { "verbatim-with-lf" } else { "verbatim-no-lf" });
        if x.contains(&b'\n') || x.contains(&b'\r') || x.contains(&0) { out.nontrivial((mode, x.clone())); }
        match mode {
            "none" => {
                if disk != x { out.oracle_fail("eol:none-mode-converted-on-checkout", format!("x={}", rle(x))); }
                else if back != disk { out.oracle_fail("eol:none-mode-converted-on-snapshot", format!("x={}", rle(x))); }
                else { out.oracle_ok(); }
            }
            "input" => {
                if disk != x { out.oracle_fail("eol:input-only-checkout-not-verbatim", format!("x={} disk={}", rle(x), rle(disk))); }
                else { out.oracle_ok(); }
            }
            _ => {
                if has_crlf(x) { out.tally("premise", "stored-has-crlf(out of scope)"); continue; }
                out.tally("premise", "stored-lf-only");
                let crlf_form = strip_crlf_form(disk).is_some_and(|y| y == *x);
                if back != x {
                    out.oracle_fail("eol:roundtrip-changed-content", format!("x={} disk={} back={}", rle(x), rle(disk), rle(back)));
                } else if !(disk == x || crlf_form) {
                    out.oracle_fail("eol:disk-form-neither-verbatim-nor-crlf", format!("x={} disk={}", rle(x), rle(disk)));
                } else if surely_text(x) && !crlf_form {
                    out.oracle_fail("eol:text-not-written-with-crlf", format!("x={} disk={}", rle(x), rle(disk)));
                } else if surely_binary(x) && disk != x {
                    out.oracle_fail("eol:binary-converted-on-checkout", format!("x={} disk={}", rle(x), rle(disk)));
                } else { out.oracle_ok(); }
            }
        }
    }
}

/// arbitrary disk contents `ds` snapshotted
fn snapshot_batch(out: &mut Out, ws: &mut Ws, ds: &[Vec<u8>]) {
    let mode = ws.mode;
    let backs = match guard(|| ws.snapshot(ds)) { Ok(d) => d, Err(e) => { out.case(&format!("snapshot {mode} {}", rle(&ds[0])), "panic"); out.oracle_fail("eol:panic", format!("snapshot panicked: {e}")); return; } };
    for (d, back) in ds.iter().zip(&backs) {
        out.case(&format!("snapshot {mode} {}", rle(d)), &rle(back));
        describe(out, d);
        out.tally("snapshot", if back != d { "converted" } else if has_crlf(d) { "verbatim-with-crlf" } else { "verbatim-no-crlf" });
        if d.contains(&b'\r') || d.contains(&0) { out.nontrivial((mode, "s", d.clone())); }
        if mode == "none" {
            if back != d { out.oracle_fail("eol:none-mode-converted-on-snapshot", format!("d={}", rle(d))); } else { out.oracle_ok(); }
        } else if surely_binary(d) && back != d {
            out.oracle_fail("eol:binary-converted-on-snapshot", format!("d={} stored={}", rle(d), rle(back)));
        } else if surely_text(d) && *back != crlf_to_lf(d) {
            out.oracle_fail("eol:text-snapshot-not-lf-normalised", format!("d={} stored={}", rle(d), rle(back)));
        } else if *back != *d && *back != crlf_to_lf(d) {
            out.oracle_fail("eol:snapshot-neither-verbatim-nor-lf-normalised", format!("d={} stored={}", rle(d), rle(back)));
        } else { out.oracle_ok(); }
    }
}

/// all byte strings of length `len` over `alpha`
fn all_strings(len: usize, alpha: &[u8], f: &mut impl FnMut(Vec<u8>)) {
    let mut idx = vec![0usize; len];
    loop {
        f(idx.iter().map(|i| alpha[*i]).collect());
        let mut i = 0;
        loop {
            if i == len { return; }
            idx[i] += 1;
            if idx[i] < alpha.len() { break; }
            idx[i] = 0;
            i += 1;
        }
    }
}

fn small_random(r: &mut Rng, crlf_ok: bool) -> Vec<u8> {
    let n = r.below(40);
    let mut x: Vec<u8> = (0..n).map(|_| match r.below(14) { 0 | 1 | 2 => b'\n', 3 => b'\r', 4 => if r.chance(1, 4) { 0 } else { b'\r' }, k => b'a' + (k % 3) as u8 }).collect();
    if r.chance(1, 3) && n > 0 && *x.last().unwrap() != b'\n' { x.push(b'\n'); }
    if r.chance(1, 2) { for b in x.iter_mut() { if *b == b'\r' || *b == 0 { *b = b'b'; } } }
    if crlf_ok { for i in 1..x.len() { if x[i - 1] == b'\r' && r.chance(2, 3) { x[i] = b'\n'; } } }
    if !crlf_ok { for i in 1..x.len() { if x[i] == b'\n' && x[i - 1] == b'\r' { x[i - 1] = b'c'; } } }
    x
}

/// content of size about `LIMIT`, aimed at the probe-window edge: `pre_lf` LFs early in the file
/// (each shifts the edge by one byte in the CRLF form), then special bytes at offsets
/// `LIMIT-3 ..= LIMIT+2` (shifted back by 0..=pre_lf so they land on the edge of either form).
fn edge_case(r: &mut Rng, crlf_ok: bool) -> Vec<u8> {
    let size = match r.below(4) { 0 => LIMIT - 3 + r.below(7), 1 => LIMIT + r.below(40), 2 => LIMIT - r.below(40), _ => LIMIT + 100 + r.below(300) };
    let mut x = vec![b'a'; size];
    let pre_lf = r.below(5);
    for k in 0..pre_lf { x[10 + 7 * k + r.below(5)] = b'\n'; }
    if r.chance(1, 3) { for _ in 0..r.below(30) { let p = r.below(size); x[p] = b'\n'; } }
    for _ in 0..r.range(1, 3) {
        let shift = r.below(pre_lf + 1);
        let p = (LIMIT - 3 + r.below(6)).saturating_sub(shift);
        if p >= size { continue; }
        match r.below(8) {
            0 | 1 | 2 => x[p] = b'\r',
            3 | 4 => x[p] = b'\n',
            5 => { x[p] = b'\r'; if p + 1 < size && crlf_ok { x[p + 1] = b'\n'; } }
            6 => x[p] = 0,
            _ => { x[p] = b'\r'; if p + 1 < size { x[p + 1] = b'\r'; } }
        }
    }
    if r.chance(1, 6) { let p = r.below(size); x[p] = if r.chance(1, 2) { 0 } else { b'\r' }; }
    if r.chance(1, 4) { *x.last_mut().unwrap() = *r.pick(&[b'\n', b'\r', b'a']); }
    if !crlf_ok { for i in 1..x.len() { if x[i] == b'\n' && x[i - 1] == b'\r' { x[i - 1] = b'c'; } } }
    x
}

pub fn run(cfg: &Cfg, out: &mut Out) {
    let mut wss: Vec<Ws> = MODES.iter().map(|m| Ws::new(m)).collect();
    const BATCH: usize = 64;
    // 1. exhaustive small contents over {a, LF, CR, NUL}: conversion logic of `convert_eol`/`is_binary`
    let max_len = if cfg.tier == Tier::Quick { 4 } else { 6 };
    let mut all = vec![];
    for len in 0..=max_len { all_strings(len, &[b'a', b'\n', b'\r', 0], &mut |s| all.push(s)); }
    for ws in wss.iter_mut() {
        if ws.mode == "none" { continue; }
        for chunk in all.chunks(BATCH) {
            roundtrip_batch(out, ws, chunk);
            snapshot_batch(out, ws, chunk);
        }
    }
    out.note(format!("exhaustive: every content of length ≤ {max_len} over {{a, LF, CR, NUL}} through checkout+snapshot (modes input, input-output) and through snapshot alone; then random small contents and contents aimed at the probe-window edge ({LIMIT}±k, CR/LF/NUL/CRLF at offsets LIMIT-3..LIMIT+2 in either the LF or the CRLF form)"));
    // 2. random small and edge-of-window contents
    let mut r = cfg.rng(29);
    let rounds = cfg.n(16, 400);
    for _ in 0..rounds {
        for ws in wss.iter_mut() {
            let weight = match ws.mode { "none" => 4, "input" => 12, _ => BATCH };
            let xs: Vec<Vec<u8>> = (0..weight).map(|i| { let crlf_ok = r.chance(1, 8); if i % 2 == 0 { small_random(&mut r, crlf_ok) } else { edge_case(&mut r, crlf_ok) } }).collect();
            roundtrip_batch(out, ws, &xs);
            let ds: Vec<Vec<u8>> = (0..weight / 2).map(|i| if i % 2 == 0 { small_random(&mut r, true) } else { edge_case(&mut r, true) }).collect();
            snapshot_batch(out, ws, &ds);
        }
    }
}
