//! C32 — workspace path conversion is lossless and confined (Unix).
//!
//! All functions are public and called directly: `RepoPathBuf::from_relative_path`,
//! `RepoPathBuf::parse_fs_path`, `RepoPath::to_fs_path`, `file_util::normalize_path`,
//! `file_util::relative_path`, and `std::path::Path::components` (the model's foundation).
//! Strings travel as comma-separated code points; only UTF-8 paths are generated.
//!
//! Oracle (from the property text; uses its own 10-line lexical normaliser, not the model):
//!   * a repository path produced by `from_relative_path` / `parse_fs_path` has no empty, `.` or
//!     `..` component;
//!   * repo → fs → repo: if `to_fs_path(p, base)` succeeds, the result is `base` followed only by
//!     plain names (never escapes), and converting it back (`from_relative_path` for base `""`,
//!     `parse_fs_path(base, base, ·)` for an absolute normalized base) gives `p`;
//!   * fs → repo → fs: if `parse_fs_path(cwd, base, input)` succeeds (absolute normalized cwd and
//!     base), `to_fs_path(p, base)` succeeds and equals the lexical normal form of `cwd/input`;
//!   * a repo path with a `.`/`..` component is refused by `to_fs_path`.
use crate::rt::*;
use jj_lib::file_util;
use jj_lib::repo_path::{RelativePathParseError, RepoPath, RepoPathBuf};
use std::path::{Component, Path};

fn cps(s: &str) -> String {
    if s.is_empty() { "-".into() } else { s.chars().map(|c| (c as u32).to_string()).collect::<Vec<_>>().join(",") }
}
fn show_comps(p: &Path) -> String {
    let v: Vec<String> = p.components().map(|c| match c {
        Component::RootDir => "R".to_string(),
        Component::CurDir => "C".to_string(),
        Component::ParentDir => "P".to_string(),
        Component::Normal(s) => format!("N:{}", cps(s.to_str().unwrap())),
        Component::Prefix(_) => "X".to_string(),
    }).collect();
    if v.is_empty() { "-".into() } else { v.join(";") }
}
fn show_rel(r: &Result<RepoPathBuf, RelativePathParseError>) -> String {
    match r {
        Ok(p) => format!("ok:{}", cps(p.as_internal_file_string())),
        Err(RelativePathParseError::InvalidComponent { component, .. }) => format!("err:{}", cps(component)),
        Err(RelativePathParseError::InvalidUtf8 { .. }) => "err-utf8".into(),
    }
}
fn s(p: &Path) -> &str { p.to_str().unwrap() }

/// independent lexical normal form of an absolute path: names only, `..` pops (stays at root)
fn lexical_abs(path: &str) -> Option<Vec<String>> {
    if !path.starts_with('/') { return None; }
    let mut st: Vec<String> = vec![];
    for piece in path.split('/') {
        match piece { "" | "." => {} ".." => { st.pop()?; } name => st.push(name.to_string()) }
    }
    Some(st)
}
fn plain_name(c: &str) -> bool { !c.is_empty() && c != "." && c != ".." && !c.contains('/') }
fn repo_components_ok(p: &str) -> bool { p.is_empty() || p.split('/').all(plain_name) }

const PIECES: [&str; 16] = ["a", "b", "c", ".", "..", "", "é", "日本", "a.b", ".a", "..a", "...", "a b", ".jj", ".git", "x"];

fn gen_path(r: &mut Rng) -> String {
    match r.below(8) {
        0 => (0..r.below(7)).map(|_| *r.pick(&['a', '.', '/', 'b'])).collect(),
        _ => {
            let n = r.below(5);
            let mut out = String::new();
            if r.chance(1, 3) { out.push('/'); }
            for i in 0..n {
                if i > 0 { out.push('/'); }
                // mostly plain names; `.`/`..`/empty less often
                let p = if r.chance(2, 3) { *r.pick(&["a", "b", "c", "é", "日本", "a.b", ".a", "x"]) } else { *r.pick(&PIECES[..]) };
                out.push_str(p);
            }
            if r.chance(1, 6) { out.push('/'); }
            out
        }
    }
}
/// absolute path in normal form (what callers pass as cwd / workspace root)
fn gen_abs_normal(r: &mut Rng) -> String {
    let n = r.below(4);
    if n == 0 { return "/".into(); }
    (0..n).map(|_| format!("/{}", r.pick(&["w", "a", "b", "é", ".jj", "x"]))).collect()
}
fn gen_repo_path(r: &mut Rng) -> String {
    match r.below(10) {
        0 => gen_path(r),
        _ => (0..r.below(4)).map(|_| if r.chance(1, 10) { *r.pick(&[".", "..", "...", ".jj"]) } else { *r.pick(&["a", "b", "c", "é", "日本", "a.b", ".a", "x", "a b"]) }).collect::<Vec<_>>().join("/"),
    }
}

fn components_case(out: &mut Out, p: &str) {
    out.case(&format!("components {}", cps(p)), &show_comps(Path::new(p)));
}
fn normalize_case(out: &mut Out, p: &str) {
    match guard(|| file_util::normalize_path(Path::new(p))) {
        Ok(n) => { out.case(&format!("normalize {}", cps(p)), &cps(s(&n))); }
        Err(e) => { out.case(&format!("normalize {}", cps(p)), "panic"); out.oracle_fail("path:panic", format!("normalize_path({p:?}) panicked: {e}")); }
    }
}
fn relative_case(out: &mut Out, a: &str, b: &str) {
    let rel = file_util::relative_path(Path::new(a), Path::new(b));
    out.case(&format!("relative {} {}", cps(a), cps(b)), &show_comps(&rel));
}
fn from_relative_case(out: &mut Out, p: &str) {
    let r = RepoPathBuf::from_relative_path(Path::new(p));
    out.case(&format!("from_relative {}", cps(p)), &show_rel(&r));
    out.tally("from_relative", if r.is_ok() { "ok" } else { "err" });
    if p.contains("..") || p.contains('.') { out.nontrivial(("fr", p.to_string())); }
    match &r {
        Ok(rp) if !repo_components_ok(rp.as_internal_file_string()) => out.oracle_fail("path:repo-path-with-bad-component", format!("from_relative_path({p:?}) = {rp:?}")),
        _ => out.oracle_ok(),
    }
}

/// repo → fs → repo
fn to_fs_case(out: &mut Out, p: &str, base: &str) {
    let Ok(rp) = RepoPath::from_internal_string(p) else {
        out.case(&format!("to_fs_path {} {}", cps(p), cps(base)), "invalid-repo-path");
        out.tally("to_fs_path", "invalid-repo-path");
        return;
    };
    let f = rp.to_fs_path(Path::new(base));
    let resp = match &f { Ok(f) => format!("ok:{}", cps(s(f))), Err(e) => format!("err:{}", cps(&e.source.component)) };
    out.case(&format!("to_fs_path {} {}", cps(p), cps(base)), &resp);
    out.tally("to_fs_path", if f.is_ok() { "ok" } else { "err" });
    out.nontrivial(("tf", p.to_string(), base.to_string()));
    let has_bad = p.split('/').any(|c| c == "." || c == "..");
    match f {
        Err(_) if has_bad => out.oracle_ok(),
        Err(e) => out.oracle_fail("path:valid-repo-path-refused", format!("to_fs_path({p:?}, {base:?}) = {e:?}")),
        Ok(f) if has_bad => out.oracle_fail("path:dot-component-accepted", format!("to_fs_path({p:?}, {base:?}) = {f:?}")),
        Ok(f) => {
            let f = s(&f).to_string();
            // confined: base followed by plain names only
            let tail = if base.is_empty() { if f == "." { Some("") } else { Some(f.as_str()) } } else { f.strip_prefix(base).map(|t| if base.ends_with('/') { t } else { t.strip_prefix('/').unwrap_or(t) }) };
            let confined = match tail { Some(t) => t.is_empty() && p.is_empty() || (!p.is_empty() && t == p), None => false };
            if !confined { out.oracle_fail("path:fs-path-not-base-plus-names", format!("to_fs_path({p:?}, {base:?}) = {f:?}")); return; }
            // back
            let back = if base.is_empty() { RepoPathBuf::from_relative_path(Path::new(&f)).ok() }
                       else if lexical_abs(base).is_some_and(|b| format!("/{}", b.join("/")) == *base) { RepoPathBuf::parse_fs_path(Path::new(base), Path::new(base), Path::new(&f)).ok() }
                       else { out.oracle_ok(); return; };
            out.case(&if base.is_empty() { format!("from_relative {}", cps(&f)) } else { format!("parse_fs {} {} {}", cps(base), cps(base), cps(&f)) },
                     &match &back { Some(b) => format!("ok:{}", cps(b.as_internal_file_string())), None => "err:?".into() });
            if back.as_ref().map(|b| b.as_internal_file_string()) == Some(p) { out.oracle_ok(); }
            else { out.oracle_fail("path:repo-fs-repo-roundtrip", format!("{p:?} -> {f:?} -> {back:?} (base {base:?})")); }
        }
    }
}

/// fs → repo → fs
fn parse_fs_case(out: &mut Out, cwd: &str, base: &str, input: &str) {
    let r = match guard(|| RepoPathBuf::parse_fs_path(Path::new(cwd), Path::new(base), Path::new(input))) {
        Ok(r) => r,
        Err(e) => { out.case(&format!("parse_fs {} {} {}", cps(cwd), cps(base), cps(input)), "panic"); out.oracle_fail("path:panic", format!("parse_fs_path({cwd:?},{base:?},{input:?}) panicked: {e}")); return; }
    };
    let resp = show_rel(&r.as_ref().map(|p| p.clone()).map_err(|e| e.source.clone()));
    out.case(&format!("parse_fs {} {} {}", cps(cwd), cps(base), cps(input)), &resp);
    out.tally("parse_fs", if r.is_ok() { "ok" } else { "err" });
    out.nontrivial(("pf", cwd.to_string(), base.to_string(), input.to_string()));
    let joined = if input.starts_with('/') { input.to_string() } else { format!("{cwd}/{input}") };
    let (Some(want), Some(basec)) = (lexical_abs(&joined), lexical_abs(base)) else { out.oracle_ok(); return; };
    let inside = want.len() >= basec.len() && want[..basec.len()] == basec[..];
    match r {
        Ok(p) => {
            let ps = p.as_internal_file_string();
            if !repo_components_ok(ps) { out.oracle_fail("path:repo-path-with-bad-component", format!("parse_fs_path({cwd:?},{base:?},{input:?}) = {ps:?}")); return; }
            if !inside { out.oracle_fail("path:outside-path-accepted", format!("parse_fs_path({cwd:?},{base:?},{input:?}) = {ps:?}")); return; }
            match p.to_fs_path(Path::new(base)) {
                Ok(f) if lexical_abs(s(&f)) == Some(want.clone()) => out.oracle_ok(),
                other => out.oracle_fail("path:fs-repo-fs-roundtrip", format!("parse_fs_path({cwd:?},{base:?},{input:?}) = {ps:?}, back to {other:?}, wanted /{}", want.join("/"))),
            }
        }
        Err(e) => {
            // a path lexically inside the workspace whose names are all plain must be accepted
            // (`..` that would climb above `/` is ambiguous and excluded by lexical_abs)
            if inside { out.oracle_fail("path:inside-path-refused", format!("parse_fs_path({cwd:?},{base:?},{input:?}) = {e:?}")); } else { out.oracle_ok(); }
        }
    }
}

fn all_strings(len: usize, alpha: &[char], f: &mut impl FnMut(&str)) {
    let mut idx = vec![0usize; len];
    loop {
        let st: String = idx.iter().map(|i| alpha[*i]).collect();
        f(&st);
        let mut i = 0;
        loop {
            if i == len { return; }
            idx[i] += 1;
            if idx[i] < alpha.len() { break; }
            idx[i] = 0;
            i += 1;
        }
    }
}

pub fn run(cfg: &Cfg, out: &mut Out) {
    // 1. exhaustive short strings over {a . /}
    let max_len = if cfg.tier == Tier::Quick { 6 } else { 8 };
    for len in 0..=max_len {
        all_strings(len, &['a', '.', '/'], &mut |p| {
            components_case(out, p);
            normalize_case(out, p);
            from_relative_case(out, p);
            to_fs_case(out, p, "");
            to_fs_case(out, p, "/w");
            parse_fs_case(out, "/w/a", "/w", p);
        });
    }
    out.note(format!("exhaustive: every string of length ≤ {max_len} over {{a . /}} as fs path (components, normalize, from_relative, parse_fs under /w) and as repo path (to_fs_path with base \"\" and /w); then random paths with unicode, dot names, repeated separators"));
    // 2. random
    let mut r = cfg.rng(32);
    for _ in 0..cfg.n(8000, 300_000) {
        let p = gen_path(&mut r);
        components_case(out, &p);
        normalize_case(out, &p);
        from_relative_case(out, &p);
        let (a, b) = if r.chance(1, 2) { (gen_abs_normal(&mut r), gen_abs_normal(&mut r)) } else { (gen_path(&mut r), gen_path(&mut r)) };
        relative_case(out, &a, &b);
        let (cwd, base) = (gen_abs_normal(&mut r), gen_abs_normal(&mut r));
        let cwd = if r.chance(1, 2) { format!("{}{}", if base == "/" { "" } else { &base }, gen_abs_normal(&mut r)) } else { cwd };
        parse_fs_case(out, &cwd, &base, &gen_path(&mut r));
        let rp = gen_repo_path(&mut r);
        let tb = match r.below(4) { 0 => String::new(), 1 => gen_path(&mut r), _ => gen_abs_normal(&mut r) };
        to_fs_case(out, &rp, &tb);
    }
}
