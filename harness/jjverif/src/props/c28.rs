//! C28 — ignore rules behave like Git's.
//!
//! One *case* = a working copy with `.gitignore` files at some directories (optionally a global
//! excludes file and `.git/info/exclude`) and ~15 untracked files, all materialised on disk in a
//! directory that is at the same time a jj workspace (test backend) and a git repository.
//! Three answers per file "is it ignored?":
//!   * jj   — a real `snapshot()` of the working copy with `base_ignores` composed like
//!            `cli_util::base_ignores` (excludes file, then `info/exclude`, both at the root):
//!            ignored ⇔ the file is absent from the snapshotted tree;
//!   * Lean — `snapshotIgnored` of the model (request `snap`);
//!   * Git  — one batched `git check-ignore --no-index -v -n -z --stdin` (the oracle the property names).
//! jj ≠ Git is an oracle failure (property violation); Lean ≠ jj is a tie failure (found by `check`).
//! Additionally `raw` requests tie `GitIgnoreFile::matches_file/matches_dir` on explicit chains
//! (including chains whose prefixes are not ancestors of the path, and paths below ignored
//! directories) to the model's `matchesPath`.
//!
//! Path names never start with `:` (`git check-ignore` reads its arguments as pathspecs, where a
//! leading `:` is magic, and it rejects `GIT_LITERAL_PATHSPECS`).
//! Only *file* paths are put to Git (a directory query is not comparable with `matches_dir`, see
//! notes/C28.md); Git looks at the file type on disk even with `--no-index`, hence the real files.
use crate::rt::*;
use jj_lib::gitignore::GitIgnoreFile;
use jj_lib::repo_path::{RepoPath, RepoPathBuf};
use std::collections::BTreeSet;
use std::io::Write as _;
use std::path::{Path, PathBuf};
use std::process::{Command, Stdio};
use std::sync::Arc;
use testutils::TestWorkspace;

/// path components (file and directory names)
const NAMES: &[&str] = &["a", "b", "ab", "ba", "x.c", "c", "a*", "bb", "c d", "#a", "!a", "A", "a1", "-", "[a]", "a?", "b ", "$a", "a\\b"];
/// pattern components
const PCOMP: &[&str] = &[
    "a", "b", "ab", "ba", "x.c", "c", "bb", "A", "a1", "-",
    "*", "?", "a*", "*b", "*.c", "*a*", "a?", "??", "?*",
    "[ab]", "[!a]", "[^a]", "[a-b]b", "[a-]", "[]a]", "[!a-b]", "[a-c]*", "[[:alpha:]]", "[[:digit:]]", "a[[:digit:]]", "[[:upper:]]", "[![:alpha:]]", "[[:punct:]]a", "[[:space:]]", "[\\a]", "[a\\-b]", "[\\[]a]", "[--a]",
    "**", "***", "a**", "**b", "a**b",
    "\\a", "a\\*", "\\*", "\\?", "a\\?", "\\[a\\]", "\\#a", "#a", "\\!a", "c\\ d", "c d", "b\\ ", "$a", "\\$a", "a\\\\b",
];
/// malformed or odd components (low rate)
const PODD: &[&str] = &["[a", "a[", "[", "[!", "a\\", "[a-", "[[:alpha:]", "[]", "[!]", "[]-a]", "[a-\\c]", " ", "  a", "\t", "a\r"];

fn hx(s: &str) -> String { hex(s.as_bytes()) }

struct Case {
    global: Option<String>,
    info: Option<String>,
    /// (directory internal string, content) — root first, then deeper
    files: Vec<(String, String)>,
    /// queried file paths (prefix-free, none is a directory)
    paths: Vec<String>,
}

/// Git quirk (known finding `double-star-after-literal-prefix`): `match_pathname` compares the
/// literal prefix of a pattern itself and hands only the rest to wildmatch, so a `**` that directly
/// follows a literal byte other than `/` looks as if it were at the start of the pattern and gets
/// the "`**/` / trailing `**`" treatment.  True when the line has this shape.
fn git_prefix_quirk(line: &str) -> bool {
    let mut s = line.trim_end_matches('\r');
    s = s.strip_prefix('!').unwrap_or(s);
    let mut t = s.trim_end_matches(' ').to_string();
    if t.ends_with('\\') && t.len() < s.len() { t.push(' '); }
    let anchored = t.starts_with('/');
    let body = t.strip_prefix('/').unwrap_or(&t);
    let body = body.strip_suffix('/').unwrap_or(body);
    if !anchored && !body.contains('/') { return false; }
    let b = body.as_bytes();
    let Some(i) = b.iter().position(|c| b"*?[\\".contains(c)) else { return false };
    if i == 0 || b[i - 1] == b'/' || !(b[i] == b'*' && b.get(i + 1) == Some(&b'*')) { return false; }
    let mut j = i;
    while j < b.len() && b[j] == b'*' { j += 1; }
    // the pattern text git sees keeps a trailing `/` only as a flag, so `j == len` covers `a**/` too
    j == b.len() || b[j] == b'/' || (b[j] == b'\\' && b.get(j + 1) == Some(&b'/'))
}

fn gen_pattern(r: &mut Rng, hot: &[&str]) -> String {
    loop {
        let s = gen_pattern_raw(r, hot);
        if !git_prefix_quirk(&s) { return s; }
    }
}

fn gen_pattern_raw(r: &mut Rng, hot: &[&str]) -> String {
    match r.below(24) { 0 => return "# comment".into(), 1 => return "".into(), 2 => return "!".into(), 3 => return "/".into(), _ => {} }
    let k = if r.chance(1, 2) { 1 } else { 1 + r.below(3) };
    let comps: Vec<String> = (0..k).map(|_| {
        if r.chance(1, 3) && !hot.is_empty() { hot[r.below(hot.len())].to_string() }
        else if r.chance(1, 25) { r.pick(PODD).to_string() }
        else { r.pick(PCOMP).to_string() }
    }).collect();
    let mut s = comps.join("/");
    if r.chance(1, 4) { s.insert(0, '/'); }
    if r.chance(1, 4) { s.push('/'); }
    if r.chance(1, 12) { s.push_str("/**"); }
    if r.chance(1, 12) { s.insert_str(0, "**/"); }
    if r.chance(1, 4) { s.insert(0, '!'); }
    if r.chance(1, 12) { s.push(' '); }
    if r.chance(1, 24) { s.push_str("  "); }
    if r.chance(1, 30) { s.push_str("\\ "); }
    if r.chance(1, 40) { s.push('\r'); }
    // known finding (fixed case `negated-dollar-line-dropped`): gix-ignore drops lines starting `!$`
    if s.starts_with("!$") { s.remove(0); }
    s
}

fn gen_file(r: &mut Rng, hot: &[&str], max_lines: usize) -> String {
    let n = 1 + r.below(max_lines);
    let mut s: String = (0..n).map(|_| gen_pattern(r, hot) + "\n").collect();
    if r.chance(1, 10) { s.pop(); } // no final newline
    // known finding (fixed case `lone-cr-at-eof-kept`): a CR that ends the file without LF
    while s.ends_with('\r') { s.pop(); }
    s
}

fn gen_case(r: &mut Rng, n_paths: usize) -> Case {
    // a small per-case vocabulary so that paths share prefixes and patterns hit them
    let nv = 3 + r.below(4);
    let vocab: Vec<&str> = (0..nv).map(|_| if r.chance(3, 4) { NAMES[r.below(8)] } else { *r.pick(NAMES) }).collect();
    let mut paths: Vec<String> = vec![];
    let mut tries = 0;
    while paths.len() < n_paths && tries < 200 {
        tries += 1;
        let k = 1 + r.below(4);
        let q = (0..k).map(|_| *r.pick(&vocab)).collect::<Vec<_>>().join("/");
        let clash = paths.iter().any(|o| o.starts_with(&format!("{q}/")) || q.starts_with(&format!("{o}/")) || *o == q);
        if !clash { paths.push(q); }
    }
    // directories that exist
    let mut dirs: BTreeSet<String> = BTreeSet::new();
    for p in &paths {
        let cs: Vec<&str> = p.split('/').collect();
        for k in 1..cs.len() { dirs.insert(cs[..k].join("/")); }
    }
    let dirs: Vec<String> = dirs.into_iter().collect();
    let mut files = vec![];
    if !r.chance(1, 10) { files.push((String::new(), if r.chance(1, 12) { gen_hollow(r) } else { gen_file(r, &vocab, 5) })); }
    if !dirs.is_empty() {
        let n_sub = [0, 1, 1, 2, 3][r.below(5)];
        for _ in 0..n_sub {
            let d = r.pick(&dirs).clone();
            if !files.iter().any(|(x, _)| *x == d) { files.push((d, if r.chance(1, 8) { gen_hollow(r) } else { gen_file(r, &vocab, 3) })); }
        }
    }
    files.sort_by_key(|(d, _)| (d.matches('/').count() + usize::from(!d.is_empty()), d.clone()));
    // the ignore files themselves are ordinary untracked files too: ask about some of them
    for (d, _) in &files {
        if r.chance(1, 3) { paths.push(if d.is_empty() { ".gitignore".into() } else { format!("{d}/.gitignore") }); }
    }
    let global = r.chance(1, 5).then(|| gen_file(r, &vocab, 3));
    let info = r.chance(1, 5).then(|| gen_file(r, &vocab, 3));
    Case { global, info, files, paths }
}

/// A `.gitignore` content without any effective pattern: empty, comments, blank lines, lines of
/// spaces (Git strips unescaped trailing spaces), a lone `!` or `/`, LF or CRLF terminated, with
/// or without a final newline, optionally behind a UTF-8 BOM.  (No tab / form-feed lines: known
/// finding `whitespace-only-pattern-dropped`.)
fn gen_hollow(r: &mut Rng) -> String {
    const LINES: &[&str] = &["# comment", "", "#", "   ", " ", "#!a", "# a*", "#a", "", "# comment"];
    let n = r.below(4);
    let mut s = String::new();
    if r.chance(1, 12) { s.push('\u{feff}'); }
    for _ in 0..n {
        s.push_str(if r.chance(1, 10) { if r.chance(1, 2) { "!" } else { "/" } } else { *r.pick(LINES) });
        s.push_str(if r.chance(1, 8) { "\r\n" } else { "\n" });
    }
    if n > 0 && r.chance(1, 8) { s.pop(); while s.ends_with('\r') { s.pop(); } }
    s
}

#[derive(Clone, Copy, PartialEq, Eq, Debug)]
enum Kind { Absent, Patterns, Hollow }

/// what `gen_stack_case` built: the kind of every level (0 = global excludes, 1 = info/exclude,
/// 2 = root `.gitignore`, 3.. = the `.gitignore` of the spine directories) and the spine
struct Stack { kinds: Vec<Kind>, dirs: Vec<String>, triple: (usize, usize, usize) }

fn level_name(i: usize) -> String { match i { 0 => "global".into(), 1 => "info".into(), 2 => "root".into(), n => format!("d{}", n - 2) } }

/// Patterns of an upper ignore source that reach deep into the spine: name globs, paths anchored at
/// the source's own directory, `**/`, directory-only patterns, and "exclude broadly, re-include one".
/// `rel` = the spine components below the source's directory.
fn gen_upper(r: &mut Rng, vocab: &[&str], rel: &[&str]) -> String {
    let n = 1 + r.below(3);
    let mut lines: Vec<String> = vec![];
    let name = |r: &mut Rng| -> String { r.pick(vocab).to_string() };
    let glob = |r: &mut Rng| -> String {
        let v = r.pick(vocab).to_string();
        match r.below(7) { 0 => format!("{v}*"), 1 => format!("*{v}"), 2 => "*".into(), 3 => "?".into(), 4 => "[ab]*".into(), 5 => "*.c".into(), _ => v }
    };
    let deep = |m: usize, leaf: String| -> String {
        let mut cs: Vec<String> = rel[..m].iter().map(|c| c.to_string()).collect();
        cs.push(leaf);
        cs.join("/")
    };
    for _ in 0..n {
        match r.below(8) {
            0 | 1 => { let g = glob(r); lines.push(g); }
            2 => { let m = r.below(rel.len() + 1); let l = name(r); let p = deep(m, l); lines.push(if m == 0 || r.chance(2, 3) { format!("/{p}") } else { p }); }
            3 => { let l = glob(r); lines.push(if !rel.is_empty() && r.chance(1, 2) { format!("{}/**/{l}", rel[0]) } else { format!("**/{l}") }); }
            4 => { let d = if !rel.is_empty() && r.chance(2, 3) { rel[r.below(rel.len())].to_string() } else { name(r) }; lines.push(format!("{d}/")); }
            5 | 6 => {
                // exclude broadly, then re-include something more specific (from above)
                let m = r.below(rel.len() + 1);
                match r.below(3) {
                    0 => { let g = glob(r); lines.push(g); lines.push(format!("!{}", name(r))); }
                    1 => { let p = deep(m, "*".into()); lines.push(format!("/{p}")); let l = name(r); lines.push(format!("!/{}", deep(m, l))); }
                    _ => { lines.push("*".into()); lines.push("!*/".into()); lines.push(format!("!{}", glob(r))); }
                }
            }
            _ => lines.push(gen_pattern(r, vocab)),
        }
    }
    if r.chance(1, 5) { lines.push(format!("!{}", name(r))); }
    let mut s = String::new();
    for mut l in lines {
        if git_prefix_quirk(&l) { continue; }
        if l.starts_with("!$") { l.remove(0); }
        s.push_str(&l);
        s.push('\n');
    }
    if r.chance(1, 10) { s.pop(); }
    while s.ends_with('\r') { s.pop(); }
    s
}

/// Stacks of 3 and 4 ignore levels with a pattern-less file in the middle: some level `i` has
/// patterns (global excludes, info/exclude, the root `.gitignore` or a spine directory's), a level
/// `j > i` has a `.gitignore` (or base file) without any effective pattern, a level `k > j` has
/// its own ignore file (any content), and most queried files live in or below the directory of
/// level `k`, named so that the patterns of level `i` (including its negations) decide them.
/// The remaining levels are absent, pattern-less or ordinary at random.
fn gen_stack_case(r: &mut Rng, depth: usize, n_paths: usize) -> (Case, Stack) {
    let nv = 3 + r.below(3);
    let vocab: Vec<&str> = (0..nv).map(|_| if r.chance(4, 5) { NAMES[r.below(8)] } else { *r.pick(NAMES) }).collect();
    let spine: Vec<&str> = (0..depth).map(|_| *r.pick(&vocab)).collect();
    let mut dirs: Vec<String> = vec![String::new()];
    for t in 1..=depth { dirs.push(spine[..t].join("/")); }
    let n_levels = 3 + depth;
    // the triple i < j < k
    let lo = if r.chance(1, 2) { 2 } else { 0 };
    let mut pool: Vec<usize> = (lo..n_levels).collect();
    let mut tri = vec![];
    for _ in 0..3 { let x = pool.remove(r.below(pool.len())); tri.push(x); }
    tri.sort();
    let (i, j, k) = (tri[0], tri[1], tri[2]);
    let mut kinds: Vec<Kind> = (0..n_levels).map(|l| {
        let absent_w = if l < 2 { 4 } else { 3 };
        match r.below(6) { x if x < absent_w => Kind::Absent, 4 => Kind::Hollow, _ => Kind::Patterns }
    }).collect();
    kinds[i] = Kind::Patterns;
    kinds[j] = Kind::Hollow;
    let rel_of = |l: usize| -> &[&str] { if l <= 2 { &spine[..] } else { &spine[l - 2..] } };
    let mut content: Vec<Option<String>> = vec![None; n_levels];
    for l in 0..n_levels {
        content[l] = match kinds[l] {
            Kind::Absent => None,
            Kind::Hollow => Some(gen_hollow(r)),
            Kind::Patterns => Some(if l == i || r.chance(1, 2) { gen_upper(r, &vocab, rel_of(l)) } else { gen_file(r, &vocab, 3) }),
        };
    }
    // level k: any content — mostly something that does not decide the queried names itself
    if kinds[k] == Kind::Absent || r.chance(1, 2) {
        let (kind, txt) = match r.below(6) {
            0 => (Kind::Hollow, gen_hollow(r)),
            1 => (Kind::Patterns, gen_file(r, &vocab, 3)),
            2 => (Kind::Patterns, format!("!{}\n", r.pick(&vocab))),
            3 => (Kind::Patterns, "*.tmp\n# local\n".to_string()),
            4 => (Kind::Patterns, "/zz\nzz/\n".to_string()),
            _ => (Kind::Patterns, "zz\n".to_string()),
        };
        kinds[k] = kind;
        content[k] = Some(txt);
    }
    // queried files: mostly in or below the directory of level k
    let kdir = k.max(2) - 2;
    let mut paths: Vec<String> = vec![];
    let mut tries = 0;
    while paths.len() < n_paths && tries < 200 {
        tries += 1;
        let t = if r.chance(2, 3) { kdir + r.below(depth + 1 - kdir) } else { r.below(depth + 1) };
        let mut cs: Vec<&str> = spine[..t].to_vec();
        if r.chance(1, 4) { cs.push(*r.pick(&vocab)); }
        cs.push(*r.pick(&vocab));
        let q = cs.join("/");
        let clash = paths.iter().any(|o| o.starts_with(&format!("{q}/")) || q.starts_with(&format!("{o}/")) || *o == q)
            || dirs.iter().any(|d| *d == q || d.starts_with(&format!("{q}/")));
        if !clash { paths.push(q); }
    }
    let mut files = vec![];
    for l in 2..n_levels {
        if let Some(t) = &content[l] {
            files.push((dirs[l - 2].clone(), t.clone()));
            if r.chance(1, 4) { paths.push(if l == 2 { ".gitignore".into() } else { format!("{}/.gitignore", dirs[l - 2]) }); }
        }
    }
    (Case { global: content[0].clone(), info: content[1].clone(), files, paths }, Stack { kinds, dirs, triple: (i, j, k) })
}

/// one stack case: snapshot vs Git vs model, raw chains (the whole stack, and only the triple), tallies
fn stack_case(out: &mut Out, env: &mut Env, r2: &mut Rng, c: &Case, st: &Stack) {
    let git = snap_case(out, env, c);
    let (i, j, k) = st.triple;
    out.tally("stack", &format!("upper={} pattern-less={} below={}", level_name(i), level_name(j), level_name(k)));
    out.tally("stack-levels", &st.kinds.iter().filter(|x| **x != Kind::Absent).count().to_string());
    // which level decided, and is there a pattern-less level between it and a deeper ignore file
    // whose directory contains the path?  (the situation the chain must get right)
    let excl = env.excludes_path().display().to_string();
    for (p, g) in c.paths.iter().zip(&git) {
        let Some((src, pat)) = g else { continue };
        let lvl = if *src == excl { 0 } else if src == ".git/info/exclude" { 1 } else {
            let d = src.strip_suffix(".gitignore").unwrap_or(src).trim_end_matches('/');
            match st.dirs.iter().position(|x| x == d) { Some(t) => t + 2, None => continue }
        };
        let under = |l: usize| l <= 2 || p.starts_with(&format!("{}/", st.dirs[l - 2]));
        let n = st.kinds.len();
        let cut = (lvl + 1..n).any(|h| st.kinds[h] == Kind::Hollow && under(h) && (h + 1..n).any(|b| st.kinds[b] != Kind::Absent && under(b)));
        if cut {
            out.tally("decided-above-pattern-less-level", if pat.starts_with('!') { "re-included" } else { "ignored" });
            out.nontrivial(("above-hollow", &c.files, &c.global, &c.info, p));
        }
    }
    let mut qs: BTreeSet<String> = BTreeSet::new();
    for p in &c.paths {
        let cs: Vec<&str> = p.split('/').collect();
        for t in 1..=cs.len() { qs.insert(cs[..t].join("/")); }
    }
    let qs: Vec<String> = qs.into_iter().collect();
    let level = |l: usize| -> Option<(String, String)> {
        match l { 0 => c.global.clone().map(|t| (String::new(), t)), 1 => c.info.clone().map(|t| (String::new(), t)),
                  _ => c.files.iter().find(|(d, _)| *d == st.dirs[l - 2]).cloned() }
    };
    let spec: Vec<(String, String)> = (0..st.kinds.len()).filter_map(level).collect();
    raw_case(out, r2, &spec, &qs);
    let tri: Vec<(String, String)> = [i, j, k].into_iter().filter_map(level).collect();
    if tri.len() < spec.len() { raw_case(out, r2, &tri, &qs); }
}

struct Env {
    tw: TestWorkspace,
    root: PathBuf,
    home: tempfile::TempDir,
}

impl Env {
    fn new() -> Self {
        let tw = TestWorkspace::init();
        let root = tw.workspace.workspace_root().to_owned();
        let home = tempfile::tempdir().unwrap();
        let st = Command::new("git").arg("init").arg("-q").arg(&root)
            .env("HOME", home.path()).env("XDG_CONFIG_HOME", home.path().join("xdg")).env("GIT_CONFIG_NOSYSTEM", "1")
            .status().expect("git must be installed (the oracle of C28)");
        assert!(st.success());
        Env { tw, root, home }
    }
    fn clean(&self) {
        for e in std::fs::read_dir(&self.root).unwrap() {
            let e = e.unwrap();
            let n = e.file_name();
            if n == ".git" || n == ".jj" { continue; }
            if e.file_type().unwrap().is_dir() { std::fs::remove_dir_all(e.path()).unwrap(); } else { std::fs::remove_file(e.path()).unwrap(); }
        }
    }
    fn excludes_path(&self) -> PathBuf { self.home.path().join("excludes") }
    fn materialise(&self, c: &Case) {
        self.clean();
        for p in &c.paths {
            let fp = self.root.join(p);
            std::fs::create_dir_all(fp.parent().unwrap()).unwrap();
            if !p.ends_with(".gitignore") { std::fs::write(&fp, b"").unwrap(); }
        }
        for (d, txt) in &c.files {
            let dp = if d.is_empty() { self.root.clone() } else { self.root.join(d) };
            std::fs::create_dir_all(&dp).unwrap();
            std::fs::write(dp.join(".gitignore"), txt).unwrap();
        }
        let _ = std::fs::remove_file(self.excludes_path());
        if let Some(g) = &c.global { std::fs::write(self.excludes_path(), g).unwrap(); }
        std::fs::write(self.root.join(".git/info/exclude"), c.info.as_deref().unwrap_or("")).unwrap();
        if c.info.is_none() { std::fs::remove_file(self.root.join(".git/info/exclude")).unwrap(); }
    }
    /// mirrors `cli_util::base_ignores`
    fn base_ignores(&self) -> Arc<GitIgnoreFile> {
        let mut g = GitIgnoreFile::empty();
        g = g.chain_with_file(RepoPath::root(), self.excludes_path()).unwrap();
        g = g.chain_with_file(RepoPath::root(), self.root.join(".git/info/exclude")).unwrap();
        g
    }
    /// the set of paths the snapshot tracked
    fn jj_snapshot(&mut self) -> BTreeSet<String> {
        let mut opts = testutils::empty_snapshot_options();
        opts.base_ignores = self.base_ignores();
        let (tree, _stats) = self.tw.snapshot_with_options(&opts).unwrap();
        tree.entries().map(|(p, _)| p.as_internal_file_string().to_string()).collect()
    }
    /// forget everything tracked: empty the directory and snapshot again
    fn reset(&mut self) {
        self.clean();
        let left = self.jj_snapshot();
        assert!(left.is_empty(), "working copy not empty after reset: {left:?}");
    }
    /// Git's answer for each path: Some(pattern text) of the deciding pattern, None = no pattern matched
    fn git_check(&self, paths: &[String]) -> Vec<Option<String>> {
        self.git_check_src(paths).into_iter().map(|o| o.map(|(_, pat)| pat)).collect()
    }
    /// same, with the source file Git names for the deciding pattern: Some((source, pattern text))
    fn git_check_src(&self, paths: &[String]) -> Vec<Option<(String, String)>> {
        let mut child = Command::new("git").current_dir(&self.root)
            .env("HOME", self.home.path()).env("XDG_CONFIG_HOME", self.home.path().join("xdg")).env("GIT_CONFIG_NOSYSTEM", "1")
            .arg("-c").arg(format!("core.excludesFile={}", self.excludes_path().display()))
            .args(["check-ignore", "--no-index", "-v", "-n", "-z", "--stdin"])
            .stdin(Stdio::piped()).stdout(Stdio::piped()).stderr(Stdio::piped()).spawn().unwrap();
        {
            let mut si = child.stdin.take().unwrap();
            for p in paths { si.write_all(p.as_bytes()).unwrap(); si.write_all(b"\0").unwrap(); }
        }
        let o = child.wait_with_output().unwrap();
        let fields: Vec<&[u8]> = o.stdout.split(|b| *b == 0).collect();
        // records of 4 fields: source, line, pattern, path (+ one empty piece after the last NUL)
        assert!(fields.len() == paths.len() * 4 + 1, "git check-ignore answered {} fields for {} paths; stderr={}",
                fields.len(), paths.len(), String::from_utf8_lossy(&o.stderr));
        (0..paths.len()).map(|i| {
            assert_eq!(fields[4 * i + 3], paths[i].as_bytes(), "git answered out of order");
            let src = fields[4 * i];
            if src.is_empty() { None } else { Some((String::from_utf8_lossy(src).to_string(), String::from_utf8_lossy(fields[4 * i + 2]).to_string())) }
        }).collect()
    }
}

fn enc_files(l: &[(String, String)]) -> String {
    if l.is_empty() { "_".into() } else { l.iter().map(|(d, c)| format!("{}={}", hx(d), hx(c))).collect::<Vec<_>>().join(";") }
}
fn enc_paths(l: &[String]) -> String { l.iter().map(|p| hx(p)).collect::<Vec<_>>().join(",") }
fn bits(l: impl Iterator<Item = bool>) -> String { l.map(|b| if b { '1' } else { '0' }).collect() }

fn features(out: &mut Out, txt: &str) {
    for line in txt.lines() {
        if line.starts_with('#') || line.is_empty() { out.tally("pattern", "comment/blank"); continue; }
        if line.starts_with('!') { out.tally("pattern", "negated"); }
        let body = line.trim_start_matches('!');
        if body.starts_with('/') { out.tally("pattern", "anchored-leading-slash"); }
        if body.trim_end().ends_with('/') { out.tally("pattern", "dir-only"); }
        if body.trim_end().trim_end_matches('/').trim_start_matches('/').contains('/') { out.tally("pattern", "inner-slash"); }
        if body.contains("**") { out.tally("pattern", "double-star"); }
        if body.contains('[') { out.tally("pattern", "bracket"); }
        if body.contains('\\') { out.tally("pattern", "backslash"); }
        if body.ends_with(' ') { out.tally("pattern", "trailing-space"); }
        if body.contains('*') || body.contains('?') { out.tally("pattern", "star/question"); }
    }
}

/// returns Git's answers (deciding source, pattern text) per queried path
fn snap_case(out: &mut Out, env: &mut Env, c: &Case) -> Vec<Option<(String, String)>> {
    env.materialise(c);
    let git_src = env.git_check_src(&c.paths);
    let git: Vec<Option<String>> = git_src.iter().map(|o| o.as_ref().map(|(_, pat)| pat.clone())).collect();
    let tracked = match guard(|| env.jj_snapshot()) {
        Ok(t) => t,
        Err(e) => { out.impl_only(); out.oracle_fail("gitignore:panic", format!("snapshot panicked: {e}")); return git_src; }
    };
    let jj: Vec<bool> = c.paths.iter().map(|p| !tracked.contains(p)).collect();
    let mut base = vec![];
    if let Some(g) = &c.global { base.push((String::new(), g.clone())); }
    if let Some(i) = &c.info { base.push((String::new(), i.clone())); }
    let req = format!("snap {} {} {}", enc_files(&base), enc_files(&c.files), enc_paths(&c.paths));
    out.case(&req, &bits(jj.iter().copied()));
    for (_, t) in c.files.iter().chain(base.iter()) { features(out, t); }
    out.tally("ignore-files", &format!("{}{}{}", c.files.len(), if c.global.is_some() { "+global" } else { "" }, if c.info.is_some() { "+info" } else { "" }));
    let n_ign = jj.iter().filter(|b| **b).count();
    if n_ign > 0 && n_ign < jj.len() { out.nontrivial((&c.files, &c.paths, &c.global, &c.info)); }
    for (i, p) in c.paths.iter().enumerate() {
        let git_ignored = matches!(&git[i], Some(pat) if !pat.starts_with('!'));
        out.tally("git-verdict", match &git[i] { None => "no-pattern", Some(pat) if pat.starts_with('!') => "re-included", _ => "ignored" });
        out.tally("depth", &p.split('/').count().to_string());
        if git_ignored == jj[i] { out.oracle_ok(); continue; }
        let sig = if jj[i] { "gitignore:jj-ignores-git-does-not" } else { "gitignore:git-ignores-jj-does-not" };
        out.oracle_fail(sig, format!("path {p:?}: git={git_ignored} (deciding pattern {:?}) jj={}; global={:?} info={:?} files={:?} all paths={:?}",
                                     git[i], jj[i], c.global, c.info, c.files, c.paths));
    }
    env.reset();
    git_src
}

/// `raw`: explicit chains through the public API, files and directories, no disk
fn raw_case(out: &mut Out, r: &mut Rng, chain_spec: &[(String, String)], paths: &[String]) {
    let mut chain = GitIgnoreFile::empty();
    for (d, txt) in chain_spec {
        let rp = RepoPathBuf::from_internal_string(d.clone()).unwrap();
        chain = chain.chain(&rp, Path::new(".gitignore"), txt.as_bytes()).unwrap();
    }
    let _ = r;
    for (kind, is_dir) in [("f", false), ("d", true)] {
        let ans = guard(|| bits(paths.iter().map(|p| {
            let rp = RepoPath::from_internal_string(p).unwrap();
            if is_dir { chain.matches_dir(rp) } else { chain.matches_file(rp) }
        })));
        let req = format!("raw {} {kind} {}", enc_files(chain_spec), enc_paths(paths));
        match ans {
            Ok(a) => {
                if a.contains('1') && a.contains('0') { out.nontrivial((chain_spec, paths, is_dir)); }
                out.tally("raw", kind);
                out.case(&req, &a);
            }
            Err(e) => { out.case(&req, "panic"); out.oracle_fail("gitignore:panic", format!("matches panicked: {e}; chain={chain_spec:?}")); }
        }
    }
}

/// development aid: `jjverif C28 --probe FILE` runs only the cases of FILE, one per line:
/// `dir=content;dir=content|path,path` with `\n \r \t \f \\` escapes in the contents; the
/// pseudo-directories `@global` / `@info` are the excludes file / `info/exclude`.
fn unescape(s: &str) -> String {
    let mut o = String::new();
    let mut it = s.chars();
    while let Some(c) = it.next() {
        if c != '\\' { o.push(c); continue; }
        match it.next() { Some('n') => o.push('\n'), Some('r') => o.push('\r'), Some('t') => o.push('\t'), Some('f') => o.push('\x0c'), Some('B') => o.push('\u{feff}'),
                          Some('\\') => o.push('\\'), Some(x) => { o.push('\\'); o.push(x); } None => o.push('\\') }
    }
    o
}
fn parse_probe(line: &str) -> Case {
    let (fs, ps) = line.rsplit_once('|').expect("probe line: files|paths");
    let mut c = Case { global: None, info: None, files: vec![], paths: ps.split(',').map(unescape).collect() };
    for e in fs.split(';').filter(|e| !e.is_empty()) {
        let (d, t) = e.split_once('=').expect("dir=content");
        let t = unescape(t);
        match d { "@global" => c.global = Some(t), "@info" => c.info = Some(t), _ => c.files.push((d.to_string(), t)) }
    }
    c
}

/// The confirmed divergences from Git (known findings, see notes/C28.md) as fixed cases, so that
/// every run exercises them and reports them by their own signature; the random generator avoids
/// these shapes.  `modelled` = the Lean model mirrors jj's (gix's) behaviour here, so the case also
/// goes through the tie; otherwise it is an oracle-only case.
fn finding_cases(out: &mut Out, env: &mut Env) {
    let many_stars = format!("={}\\n|{},b", "a*".repeat(70), "a".repeat(70));
    let cases: [(&str, &str, bool); 8] = [
        // Git itself departs from gitignore(5) here (see `git_prefix_quirk`); jj follows the documentation
        ("gitignore:double-star-after-literal-prefix", "=a**/b\\n|ax/y/b,a/b,ab/c", true),
        // gix-glob gives up (no match) at recursion depth 64 = 64 nested `*` frames; Git has no limit
        ("gitignore:wildmatch-recursion-limit", &many_stars, false),
        // gix-ignore drops every line that starts with `!$` (reserved for "precious" syntax): no re-inclusion
        ("gitignore:negated-dollar-line-dropped", "=*a\\n!$a\\n|$a,xa,d/$a", true),
        // bstr::lines keeps a CR that ends the file without LF; Git strips it
        ("gitignore:lone-cr-at-eof-kept", "=b\\na*\\r|a1,b,d/a", true),
        // `[:` inside a bracket expression that is not a `[:class:]`: gix-glob re-scans from the wrong place
        ("gitignore:bracket-colon-not-class", "=x[a[:b]\\ny[[:a]\\n|xa,xb,x:,y:,ya,yb", false),
        // unicode-bom recognises the ASCII UTF-7 marks `+/v8 +/v9 +/v+ +/v/` (and other non-UTF-8 BOMs): 4 bytes vanish
        ("gitignore:non-utf8-bom-stripped", "=+/v8b\\nc\\n|+/v8b,b,c", true),
        // `[:space:]` is only ' ' (Git: isspace), `[:blank:]` is ASCII whitespace (Git: space, tab)
        ("gitignore:posix-class-control-chars", "=x[[:space:]]\\ny[[:blank:]]\\n|x\\t,x ,y\\f,y\\t", true),
        // a line of only tab / form feed is dropped (Git keeps it as a pattern)
        ("gitignore:whitespace-only-pattern-dropped", "=\\t\\n|\\t,a", true),
    ];
    for (sig, line, modelled) in cases {
        let c = parse_probe(line);
        env.materialise(&c);
        let git = env.git_check(&c.paths);
        let tracked = env.jj_snapshot();
        let jj: Vec<bool> = c.paths.iter().map(|p| !tracked.contains(p)).collect();
        if modelled { out.case(&format!("snap _ {} {}", enc_files(&c.files), enc_paths(&c.paths)), &bits(jj.iter().copied())); }
        else { out.impl_only(); }
        out.tally("fixed-finding-case", sig);
        let mut differs = false;
        for (i, p) in c.paths.iter().enumerate() {
            let git_ignored = matches!(&git[i], Some(pat) if !pat.starts_with('!'));
            if git_ignored == jj[i] { out.oracle_ok(); continue; }
            differs = true;
            out.oracle_fail(sig, format!("path {p:?}: git={git_ignored} (deciding pattern {:?}) jj={}; files={:?}", git[i], jj[i], c.files));
        }
        if !differs { out.note(format!("finding {sig} no longer reproduces (jj agrees with Git on its fixed case)")); }
        env.reset();
    }
}

pub fn run(cfg: &Cfg, out: &mut Out) {
    let mut env = Env::new();
    env.reset();
    if let Some(i) = cfg.extra.iter().position(|a| a == "--probe") {
        let txt = std::fs::read_to_string(&cfg.extra[i + 1]).unwrap();
        for line in txt.lines().filter(|l| !l.is_empty() && !l.starts_with("//")) {
            let c = parse_probe(line);
            let before = out.failures.len();
            let _ = snap_case(out, &mut env, &c);
            for f in &out.failures[before..] { eprintln!("PROBE-DIFF {}: {}", f.signature, f.detail); }
        }
        return;
    }
    finding_cases(out, &mut env);
    // stacks with a pattern-less ignore file in the middle (3 dir levels first, then 3 or 4)
    let n_stack = cfg.n(50, 500);
    let mut rs = cfg.rng(2829);
    let mut rs2 = cfg.rng(2830);
    for i in 0..n_stack {
        let (depth, n_paths) = if i < n_stack / 3 { (2, 6) } else { (2 + rs.below(2), 10) };
        let (c, st) = gen_stack_case(&mut rs, depth, n_paths);
        stack_case(out, &mut env, &mut rs2, &c, &st);
    }
    let n_cases = cfg.n(140, 1400);
    let mut r = cfg.rng(28);
    let mut r2 = cfg.rng(2828);
    for i in 0..n_cases {
        // sizes small → large
        let n_paths = if i < 20 { 6 } else { 15 };
        let c = gen_case(&mut r, n_paths);
        let _ = snap_case(out, &mut env, &c);
        // raw queries on the same ignore files: all queried files plus every ancestor directory,
        // against the chain of one leaf directory and against a shuffled chain
        let mut qs: BTreeSet<String> = BTreeSet::new();
        for p in &c.paths {
            let cs: Vec<&str> = p.split('/').collect();
            for k in 1..=cs.len() { qs.insert(cs[..k].join("/")); }
        }
        let qs: Vec<String> = qs.into_iter().collect();
        let mut spec: Vec<(String, String)> = vec![];
        if let Some(g) = &c.global { spec.push((String::new(), g.clone())); }
        if let Some(g) = &c.info { spec.push((String::new(), g.clone())); }
        spec.extend(c.files.iter().cloned());
        raw_case(out, &mut r2, &spec, &qs);
        if spec.len() >= 2 && r2.chance(1, 2) {
            let mut s2 = spec.clone();
            let a = r2.below(s2.len()); let b = r2.below(s2.len());
            s2.swap(a, b);
            if r2.chance(1, 2) { s2[0].0 = qs[r2.below(qs.len())].clone(); }
            raw_case(out, &mut r2, &s2, &qs);
        }
    }
    out.note(format!("{n_stack} stack working copies (3–6 ignore levels among global excludes, info/exclude, root and 2–3 nested directories; a level with patterns, below it a pattern-less file, below that another ignore file; 6–10 untracked files mostly at the bottom) + {n_cases} random working copies (~15 untracked files each, 0–4 .gitignore files at root/sub-directories, 1/8 of them pattern-less, global excludes and info/exclude in 1/5 of the cases each); one git subprocess and two snapshots each; raw matches_file/matches_dir queries over every queried path and ancestor directory"));
}
