//! C26 — edits after a command finished are always detected.
//!
//! Real `TestWorkspace`; per round one fresh workspace with a batch of files.  Timeline per file,
//! with every timestamp *forced* (`File::set_modified`), in file-system nanoseconds:
//!   1. the file is written and stamped `w`; a real snapshot records it (untracked ⇒ always read);
//!      the state is saved by `finish`;
//!   2. `.jj/working_copy/tree_state` is stamped `s` (what the next command reads as own mtime);
//!   3. the file is edited (nothing / touch / same size / other size / chmod / same size + chmod)
//!      and stamped `e`;
//!   4. the workspace is reloaded from disk (fresh process view) and a real snapshot is taken.
//! Observed: did the file's tree value change, and which file state is recorded afterwards.
//!
//! Oracle (from the property text, independent of the model): a change (content or mode) whose
//! stamp is not before the state file's stamp — i.e. an edit made after the save as far as any
//! clock can tell — must show up in the snapshot.  A change stamped *before* the state file (an
//! edit racing with the command) is outside the property: it is only tallied.
//! Sanity part of the oracle: a snapshot never invents a change (`changed` without an edit).
use crate::rt::*;
use jj_lib::local_working_copy::{FileType, LocalWorkingCopy};
use jj_lib::repo_path::RepoPathBuf;
use pollster::FutureExt as _;
use std::path::Path;
use std::time::{Duration, SystemTime};
use testutils::TestWorkspace;

#[derive(Clone, Copy, PartialEq, Eq, Hash, Debug)]
enum Edit { None, Touch, SameSize, OtherSize, Chmod, SameSizeChmod }

#[derive(Clone, Debug, Hash)]
struct Case { w: u64, wsize: usize, wexec: bool, e: u64, edit: Edit }

fn at(ns: u64) -> SystemTime { SystemTime::UNIX_EPOCH + Duration::from_nanos(ns) }

fn set_mtime(p: &Path, ns: u64) {
    let f = std::fs::OpenOptions::new().write(true).open(p).unwrap();
    f.set_modified(at(ns)).unwrap();
}
fn mtime_ns(p: &Path) -> u64 {
    std::fs::metadata(p).unwrap().modified().unwrap().duration_since(SystemTime::UNIX_EPOCH).unwrap().as_nanos() as u64
}
fn set_exec(p: &Path, exec: bool) {
    use std::os::unix::fs::PermissionsExt as _;
    std::fs::set_permissions(p, std::fs::Permissions::from_mode(if exec { 0o755 } else { 0o644 })).unwrap();
}

/// the workspace shared by all rounds; every round uses a fresh directory of new (untracked) files
struct Ctx { tw: TestWorkspace, round_no: usize }

/// One round: a fresh directory with `cases.len()` files, one state-file stamp `s`.
fn round(ctx: &mut Ctx, out: &mut Out, s: u64, cases: &[Case]) {
    let settings = testutils::user_settings();
    let root = ctx.tw.workspace.workspace_root().to_owned();
    if ctx.round_no > 0 { std::fs::remove_dir_all(root.join(format!("r{}", ctx.round_no - 1))).unwrap(); }
    let dir = format!("r{}", ctx.round_no);
    ctx.round_no += 1;
    std::fs::create_dir(root.join(&dir)).unwrap();
    let name = |i: usize| format!("{dir}/f{i:03}");
    let tw = &mut ctx.tw;
    // 1. write + stamp, record
    for (i, c) in cases.iter().enumerate() {
        let p = root.join(name(i));
        std::fs::write(&p, "a".repeat(c.wsize)).unwrap();
        set_exec(&p, c.wexec);
        set_mtime(&p, c.w);
    }
    let t1 = match guard(|| tw.snapshot()) {
        Ok(Ok(t)) => t,
        other => { out.impl_only(); out.oracle_fail("mtime:recording-snapshot-failed", format!("{:?}", other.map(|r| r.map(|_| ())))); return; }
    };
    // 2. stamp the state file
    let state = root.join(".jj").join("working_copy").join("tree_state");
    set_mtime(&state, s);
    // 3. edit + stamp
    for (i, c) in cases.iter().enumerate() {
        let p = root.join(name(i));
        match c.edit {
            Edit::None => {}
            Edit::Touch => std::fs::write(&p, "a".repeat(c.wsize)).unwrap(),
            Edit::SameSize | Edit::SameSizeChmod => std::fs::write(&p, "b".repeat(c.wsize)).unwrap(),
            Edit::OtherSize => std::fs::write(&p, "b".repeat(c.wsize + 1)).unwrap(),
            Edit::Chmod => {}
        }
        if matches!(c.edit, Edit::Chmod | Edit::SameSizeChmod) { set_exec(&p, !c.wexec); }
        if c.edit != Edit::None { set_mtime(&p, c.e); }
    }
    assert_eq!(mtime_ns(&state), s, "state file stamp must survive the edits");
    // 4. reload (own mtime is read from the state file), snapshot
    tw.workspace = jj_lib::workspace::Workspace::load(&settings, &root, &tw.env.default_backend_factories(),
        &jj_lib::default_backend_factories::default_working_copy_factories()).unwrap();
    let t2 = match guard(|| tw.snapshot()) {
        Ok(Ok(t)) => t,
        other => { out.impl_only(); out.oracle_fail("mtime:snapshot-failed", format!("{:?}", other.map(|r| r.map(|_| ())))); return; }
    };
    let wc: &LocalWorkingCopy = tw.workspace.working_copy().downcast_ref().unwrap();
    let states = wc.file_states().unwrap();
    for (i, c) in cases.iter().enumerate() {
        let path = RepoPathBuf::from_internal_string(name(i)).unwrap();
        let v1 = t1.path_value(&path).block_on().unwrap();
        let v2 = t2.path_value(&path).block_on().unwrap();
        let recorded = v1 != v2;
        let p = root.join(name(i));
        let e_ns = mtime_ns(&p);
        let (esize, eexec) = match c.edit {
            Edit::None | Edit::Touch | Edit::SameSize => (c.wsize, c.wexec),
            Edit::OtherSize => (c.wsize + 1, c.wexec),
            Edit::Chmod | Edit::SameSizeChmod => (c.wsize, !c.wexec),
        };
        let changed = !matches!(c.edit, Edit::None | Edit::Touch);
        let st = states.get(&path);
        let st_s = match &st {
            Some(fs) => format!("m={} s={} x={}", fs.mtime.0, fs.size,
                match fs.file_type { FileType::Normal { exec_bit } => if format!("{exec_bit:?}").contains("true") { "1" } else { "0" }, _ => "?" }),
            None => "untracked".to_string(),
        };
        let b = |x: bool| if x { "1" } else { "0" };
        out.case(&format!("snap {} {} {} {} {} {} {} {}", c.w, c.wsize, b(c.wexec), s, e_ns, esize, b(eexec), b(changed)),
                 &format!("{} {}", if recorded { "changed" } else { "unchanged" }, st_s));
        let rel = |a: u64, b: u64| if a < b { "<" } else if a == b { "=" } else { ">" };
        let ms = |x: u64| x / 1_000_000;
        out.tally("edit", &format!("{:?}", c.edit));
        out.tally("w?s e?s (fs ns)", &format!("w{}s e{}s", rel(c.w, s), rel(e_ns, s)));
        out.tally("same ms: w=e / w=s / e=s", &format!("{}{}{}", b(ms(c.w) == ms(e_ns)), b(ms(c.w) == ms(s)), b(ms(e_ns) == ms(s))));
        if changed { out.nontrivial((c.w.wrapping_sub(s), e_ns.wrapping_sub(s), c.edit, c.wexec)); }
        // the property
        if changed && !recorded {
            if e_ns >= s {
                let sig = if ms(e_ns) == ms(c.w) && esize == c.wsize && eexec == c.wexec {
                    "mtime:late-same-size-edit-with-equal-stamp-missed" } else { "mtime:late-edit-missed" };
                out.oracle_fail(sig, format!("file recorded with mtime {} ns size {}, state file stamped {} ns, then {:?} stamped {} ns (not before the state file): the next snapshot did not record the change", c.w, c.wsize, s, c.edit, e_ns));
            } else {
                out.tally("out-of-scope", "edit stamped before state file: missed");
                out.oracle_ok();
            }
        } else if !changed && recorded {
            out.oracle_fail("mtime:change-invented", format!("no content/mode change ({:?}) but the tree value changed; w={} s={} e={}", c.edit, c.w, s, e_ns));
        } else {
            if changed && e_ns < s { out.tally("out-of-scope", "edit stamped before state file: detected"); }
            if changed && e_ns >= s { out.tally("in-scope", if ms(e_ns) == ms(c.w) { "late edit, stamp equal to recorded (ms): detected" } else { "late edit: detected" }); }
            out.oracle_ok();
        }
    }
}

const BASE: u64 = 1_700_000_000_000_000_000; // ns

/// stamps on a coarse grid: `k` steps of `gran` ns plus a sub-millisecond offset
fn stamp(k: u64, gran: u64, sub: u64) -> u64 { BASE + k * gran + sub }

pub fn run(cfg: &Cfg, out: &mut Out) {
    // a memory file system when there is one (every stamp is forced anyway): the run is thousands of
    // tiny file operations.  Single-threaded at this point, before any workspace exists.
    if Path::new("/dev/shm").is_dir() { unsafe { std::env::set_var("TMPDIR", "/dev/shm"); } }
    let mut ctx = Ctx { tw: TestWorkspace::init(), round_no: 0 };
    const EDITS: [Edit; 6] = [Edit::None, Edit::Touch, Edit::SameSize, Edit::OtherSize, Edit::Chmod, Edit::SameSizeChmod];
    // Part 1 — exhaustive: all orderings/equalities of (w, s, e) over 3 grid points × 6 edits × 2 exec bits,
    // at three granularities (1 ms = what jj resolves, 1 s and 2 s = coarse file systems).
    for gran in [1_000_000u64, 1_000_000_000, 2_000_000_000] {
        for sk in 0..3u64 {
            let mut cases = vec![];
            for wk in 0..3u64 { for ek in 0..3u64 { for edit in EDITS { for wexec in [false, true] {
                cases.push(Case { w: stamp(wk, gran, 0), wsize: 4, wexec, e: stamp(ek, gran, 0), edit });
            } } } }
            round(&mut ctx, out, stamp(sk, gran, 0), &cases);
        }
    }
    // Part 2 — sub-millisecond offsets: stamps that differ on disk but not in jj's millisecond view.
    let subs = [0u64, 1, 300_000, 999_999];
    for ssub in subs {
        let mut cases = vec![];
        for wsub in subs { for esub in subs { for dk in 0..2u64 { for edit in [Edit::SameSize, Edit::Touch, Edit::OtherSize] {
            cases.push(Case { w: stamp(1, 1_000_000, wsub), wsize: 5, wexec: false, e: stamp(1 + dk, 1_000_000, esub), edit });
        } } } }
        for sk in 1..3u64 { round(&mut ctx, out, stamp(sk, 1_000_000, ssub), &cases); }
    }
    out.note("exhaustive: every </=/> pattern of (recorded, state-file, edit) stamps over a 3-point grid at 1 ms / 1 s / 2 s × 6 edit kinds × 2 exec bits; all sub-ms offset combinations; then random".into());
    // Part 3 — random rounds
    let mut r = cfg.rng(26);
    for _ in 0..cfg.n(250, 4000) {
        let gran = *r.pick(&[1_000_000u64, 10_000_000, 1_000_000_000, 2_000_000_000]);
        let pts = r.range(2, 4) as u64;
        let sub = |r: &mut Rng| if r.chance(1, 3) { *r.pick(&[1u64, 300_000, 999_999]) } else { 0 };
        let s = stamp(r.below(pts as usize) as u64, gran, sub(&mut r));
        let n = r.range(8, 40);
        let cases: Vec<Case> = (0..n).map(|_| Case {
            w: stamp(r.below(pts as usize) as u64, gran, sub(&mut r)), wsize: r.range(1, 6), wexec: r.chance(1, 4),
            e: stamp(r.below(pts as usize) as u64, gran, sub(&mut r)), edit: *r.pick(&EDITS) }).collect();
        round(&mut ctx, out, s, &cases);
    }
}
