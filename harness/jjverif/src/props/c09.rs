//! C09 — moving changes down a stack never alters the snapshots above it.
//!
//! Real code: `rewrite::squash_commits` (whole commit into its parent), `absorb::absorb_hunks` (with
//! path-level selections built like `split_hunks_to_trees` builds them: source parent tree + selected
//! entries), the sequential split of `cli/src/commands/split.rs` replicated on the lib API
//! (`rewrite_commit().detach()`, `transform_descendants` + `replace_parent`), each followed by
//! `MutableRepo::rebase_descendants`.  Stacks: a chain over the root with an optional side branch and a
//! merge commit, and descendants above the edited commit.
//! Model requests: `squash` / `absorb` / `split` (tree of every commit afterwards, old numbering).
//! Oracle (property text): the topmost resulting commit and every descendant that sits purely above
//! it keep their tree ids; commits that are not descendants of a receiving commit keep theirs; the
//! squash destination ends up with the squashed commit's tree; the first split commit has the selection.
use super::c07::tree_common::*;
use super::c07::Env;
use super::c08::{ids, is_debug_assert, touched, Hist};
use crate::rt::*;
use jj_lib::absorb::{absorb_hunks, AbsorbSource};
use jj_lib::backend::CommitId;
use jj_lib::commit::Commit;
use jj_lib::merged_tree::MergedTree;
use jj_lib::merged_tree_builder::MergedTreeBuilder;
use jj_lib::repo::Repo as _;
use jj_lib::revset::RevsetExpression;
use jj_lib::rewrite::{squash_commits, CommitWithSelection, RebaseOptions, RebasedCommit};
use jj_lib::transaction::Transaction;
use pollster::FutureExt as _;
use std::collections::{BTreeSet, HashMap};

#[derive(Clone, Copy, PartialEq, Debug)]
enum Op { Squash, Absorb, Split }

fn gen_stack(env: &mut Env, r: &mut Rng, pal: &Palette) -> Hist {
    let mut h = Hist { commits: vec![(vec![], vec![vec![]])] };
    let k = r.range(2, 5);
    let mut t = pal.tree(r, pal.max_depth);
    for i in 1..=k {
        h.commits.push((vec![i - 1], vec![t.clone()]));
        t = pal.mutate(r, &t);
    }
    // now and then a commit whose tree is a conflict (the output of a real merge)
    if r.chance(1, 6) {
        let i = r.range(1, k);
        let base = h.commits[i].1[0].clone();
        let ts: Vec<MTree> = (0..3).map(|_| pal.mutate(r, &base)).collect();
        let trees: Vec<MergedTree> = ts.iter().map(|t| env.conv.merged(std::slice::from_ref(t))).collect();
        if let Ok(Ok(m)) = guard(|| MergedTree::merge(jj_lib::merge::Merge::from_vec(trees.iter().map(|t| (t.clone(), "x".to_string())).collect::<Vec<_>>())).block_on()) {
            if let Ok(t) = env.conv.read_merged(&m) { h.commits[i].1 = t; }
        }
    }
    // optional side branch off the chain and a merge commit, then more commits on top
    if r.chance(1, 3) {
        let j = r.below(k) + 0;
        let base = h.commits[j.max(1).min(k)].1.last().unwrap().clone();
        let side = h.commits.len();
        h.commits.push((vec![j], vec![pal.mutate(r, &base)]));
        if r.chance(2, 3) {
            let top = k;
            let mt = pal.mutate(r, &h.commits[top].1.last().unwrap().clone());
            h.commits.push((vec![top, side], vec![mt]));
        }
    }
    for _ in 0..r.below(3) {
        let p = h.commits.len() - 1;
        let nt = pal.mutate(r, &h.commits[p].1.last().unwrap().clone());
        h.commits.push((vec![if r.chance(3, 4) { p } else { r.range(1, p) }], vec![nt]));
    }
    h
}

fn is_anc(h: &Hist, a: usize, c: usize) -> bool { a == c || h.commits[c].0.iter().any(|p| is_anc(h, a, *p)) }

/// leaf-level paths changed between `pt` and `ct` that can be moved independently
fn selectable(pt: &MTree, ct: &MTree) -> Vec<Vec<u64>> {
    let t = touched(ct, pt);
    t.iter().filter(|p| !matches!(get(pt, p), Some(V::T(_))) && !matches!(get(ct, p), Some(V::T(_)))
        && t.iter().all(|q| q == *p || !(p.starts_with(q) || q.starts_with(p)))).cloned().collect()
}

fn build_selected(env: &mut Env, parent_tree: &MergedTree, commit_tree: &MergedTree, paths: &[Vec<u64>]) -> Option<(MergedTree, MTree)> {
    let mut b = MergedTreeBuilder::new(parent_tree.clone());
    for p in paths {
        let rp = repo_path_of(p);
        let v = commit_tree.path_value(&rp).block_on().ok()?;
        b.set_or_remove(rp, v);
    }
    let t = b.write_tree().block_on().ok()?;
    let m = env.conv.read_merged(&t).ok()?;
    if m.len() != 1 { return None; }
    Some((t, m[0].clone()))
}

struct Outcome { trees: Vec<Option<Commit>>, extra: Vec<Commit> }

fn finish(tx: &mut Transaction, real: &[Commit], pre: HashMap<CommitId, Option<Commit>>, extra: Vec<Commit>) -> Result<Outcome, String> {
    // op-specific rewrites in `pre` (None = abandoned); then the descendants
    let mut rebased: HashMap<CommitId, RebasedCommit> = HashMap::new();
    tx.repo_mut().rebase_descendants_with_options(&RevsetExpression::none(), &RebaseOptions::default(), |old, new| { rebased.insert(old.id().clone(), new); })
        .block_on().map_err(|e| e.to_string())?;
    let fin = |c: &Commit| -> Option<Commit> { match rebased.get(c.id()) { Some(RebasedCommit::Rewritten(n)) => Some(n.clone()), Some(RebasedCommit::Abandoned { .. }) => None, None => Some(c.clone()) } };
    let trees = real.iter().map(|c| match pre.get(c.id()) { Some(None) => None, Some(Some(n)) => fin(n), None => fin(c) }).collect();
    let extra = extra.iter().map(|c| fin(c).unwrap()).collect();
    Ok(Outcome { trees, extra })
}

fn one(env: &mut Env, out: &mut Out, r: &mut Rng, case_no: u64) {
    let pal = Palette::new(r);
    let h = gen_stack(env, r, &pal);
    let n = h.commits.len() - 1;
    let op = *r.pick(&[Op::Squash, Op::Absorb, Op::Absorb, Op::Split]);
    // the edited commit: not the root, with a single non-root parent for squash
    let cands: Vec<usize> = (1..=n).filter(|c| match op { Op::Squash => h.commits[*c].0.len() == 1 && h.commits[*c].0[0] != 0, _ => true }).collect();
    if cands.is_empty() { return; }
    let c = *r.pick(&cands);

    let repo = env.repo.repo.clone();
    let mut tx = repo.start_transaction();
    let mut real: Vec<Commit> = vec![repo.store().root_commit()];
    for (i, (ps, ts)) in h.commits.iter().enumerate().skip(1) {
        let tree = env.conv.merged(ts);
        let pids: Vec<CommitId> = ps.iter().map(|p| real[*p].id().clone()).collect();
        real.push(tx.repo_mut().new_commit(pids, tree).set_description(format!("c09 case {case_no} commit {i} {}", env.sc)).write().block_on().unwrap());
    }
    let hs = h.show();
    let ct_real = real[c].tree();
    let pt_real = match guard(|| real[c].parent_tree(tx.repo()).block_on()) { Ok(Ok(t)) => t, _ => return };
    let sel_paths = match (env.conv.read_merged(&pt_real), env.conv.read_merged(&ct_real)) {
        (Ok(a), Ok(b)) if a.len() == 1 && b.len() == 1 => selectable(&a[0], &b[0]),
        // conflicted commit or parent tree: only the whole-commit squash is exercised
        (Ok(_), Ok(_)) if op == Op::Squash => vec![],
        _ => return,
    };

    // receivers, request, and the real operation
    let mut receivers: Vec<usize> = vec![];
    let req: String;
    let result: Result<Result<Outcome, String>, String>;
    let mut selected_first: Option<MTree> = None;
    match op {
        Op::Squash => {
            let p = h.commits[c].0[0];
            receivers.push(p);
            req = format!("squash {} {hs} {c}", env.sc);
            result = guard(|| {
                let source = CommitWithSelection { commit: real[c].clone(), selected_tree: ct_real.clone(), parent_tree: pt_real.clone() };
                let sq = squash_commits(tx.repo_mut(), &[source], &real[p], false).block_on().map_err(|e| e.to_string())?.ok_or("nothing to squash")?;
                let new_dest = sq.commit_builder.write().block_on().map_err(|e| e.to_string())?;
                let mut pre = HashMap::new();
                pre.insert(real[c].id().clone(), None);
                pre.insert(real[p].id().clone(), Some(new_dest));
                finish(&mut tx, &real, pre, vec![])
            });
        }
        Op::Absorb => {
            // destinations: ancestors of c (first-parent chain, non-root), each gets a disjoint share of the changed paths
            let mut chain = vec![]; let mut x = c; while h.commits[x].0.first().is_some_and(|p| *p != 0) { x = h.commits[x].0[0]; chain.push(x); }
            if chain.is_empty() || sel_paths.is_empty() { return; }
            let ndest = r.range(1, chain.len().min(2));
            let mut dests: Vec<usize> = vec![]; while dests.len() < ndest { let d = *r.pick(&chain); if !dests.contains(&d) { dests.push(d); } }
            let mut shares: Vec<Vec<Vec<u64>>> = vec![vec![]; ndest];
            for p in &sel_paths { let k = r.below(ndest + 1); if k < ndest { shares[k].push(p.clone()); } }
            let mut builders: HashMap<CommitId, MergedTreeBuilder> = HashMap::new();
            let mut sel_txt = vec![];
            for (d, share) in dests.iter().zip(&shares) {
                let Some((_t, m)) = build_selected(env, &pt_real, &ct_real, share) else { return };
                let mut b = MergedTreeBuilder::new(pt_real.clone());
                for p in share { let rp = repo_path_of(p); let v = ct_real.path_value(&rp).block_on().unwrap(); b.set_or_remove(rp, v); }
                builders.insert(real[*d].id().clone(), b);
                sel_txt.push(format!("{d}={}", show_tree(&m)));
                receivers.push(*d);
            }
            req = format!("absorb {} {hs} {c} {}", env.sc, sel_txt.join(","));
            out.tally("absorb.destinations", &ndest.to_string());
            result = guard(|| {
                let source = AbsorbSource::from_commit(tx.repo(), real[c].clone()).block_on().map_err(|e| e.to_string())?;
                absorb_hunks(tx.repo_mut(), &source, builders).block_on().map_err(|e| e.to_string())?;
                let mut pre = HashMap::new();
                for old in &real[1..] {
                    let np = tx.repo_mut().new_parents(&[old.id().clone()]);
                    if np.len() == 1 && &np[0] != old.id() { pre.insert(old.id().clone(), Some(tx.repo().store().get_commit(&np[0]).map_err(|e| e.to_string())?)); }
                }
                finish(&mut tx, &real, pre, vec![])
            });
        }
        Op::Split => {
            let share: Vec<Vec<u64>> = sel_paths.iter().filter(|_| r.chance(1, 2)).cloned().collect();
            let Some((sel_real, sel)) = build_selected(env, &pt_real, &ct_real, &share) else { return };
            receivers.push(c);
            selected_first = Some(sel.clone());
            req = format!("split {} {hs} {c} {}", env.sc, show_tree(&sel));
            result = guard(|| {
                let target = real[c].clone();
                let mut first_b = tx.repo_mut().rewrite_commit(&target).detach();
                first_b.set_tree(sel_real.clone());
                let first = first_b.write(tx.repo_mut()).block_on().map_err(|e| e.to_string())?;
                let mut second_b = tx.repo_mut().rewrite_commit(&target).detach();
                second_b.set_parents(vec![first.id().clone()]).set_tree(target.tree());
                second_b.clear_rewrite_source();
                second_b.generate_new_change_id();
                let second = second_b.write(tx.repo_mut()).block_on().map_err(|e| e.to_string())?;
                let (fid, sid) = (first.id().clone(), second.id().clone());
                tx.repo_mut().transform_descendants(vec![target.id().clone()], async |mut rewriter| {
                    rewriter.replace_parent(&fid, [&sid]);
                    rewriter.rebase().await?.write().await?;
                    Ok(())
                }).block_on().map_err(|e| e.to_string())?;
                let mut pre = HashMap::new();
                for old in &real[1..] {
                    if old.id() == target.id() { pre.insert(old.id().clone(), Some(first.clone())); continue; }
                    let np = tx.repo_mut().new_parents(&[old.id().clone()]);
                    if np.len() == 1 && &np[0] != old.id() { pre.insert(old.id().clone(), Some(tx.repo().store().get_commit(&np[0]).map_err(|e| e.to_string())?)); }
                }
                finish(&mut tx, &real, pre, vec![second])
            });
        }
    }
    let outcome = match result {
        Ok(Ok(o)) => o,
        Ok(Err(e)) => { out.case(&req, "err"); out.oracle_fail("stack-edit:error", format!("{req}: {e}")); return; }
        Err(e) if is_debug_assert(&e) => { out.case(&req, "panic:resolve-debug-assert"); out.tally("result", "debug-assert"); out.oracle_fail("tree-merge:resolve-debug-assert-remerge-differs", format!("{req}: {}", e.replace('\n', " "))); return; }
        Err(e) => { out.case(&req, "panic"); out.oracle_fail("stack-edit:panic", format!("{req}: {e}")); return; }
    };
    let mut shown = vec![];
    for c in outcome.trees.iter().chain(outcome.extra.iter().map(Some).collect::<Vec<_>>().iter().map(|c| c.cloned()).collect::<Vec<_>>().iter()) {
        match c { None => shown.push("x".to_string()), Some(c) => match env.conv.read_merged(&c.tree()) { Ok(t) => shown.push(show_trees(&t)), Err(e) => { out.case(&req, "undecodable"); out.oracle_fail("stack-edit:undecodable", e); return; } } }
    }
    out.case(&req, &shown.join(","));
    out.tally("op", &format!("{op:?}"));
    out.nontrivial((hs.clone(), format!("{op:?}"), c, req.clone()));

    // --- oracle ---
    // status: untouched (not a descendant of a receiver), protected (the top, or purely above it), other
    let top = c;
    let desc_of_receiver = |i: usize| receivers.iter().any(|d| is_anc(&h, *d, i));
    let mut protected = vec![false; n + 1];
    for i in 1..=n {
        if i == top { protected[i] = true; continue; }
        let ps = &h.commits[i].0;
        protected[i] = ps.iter().any(|p| protected[*p]) && ps.iter().all(|p| protected[*p] || !desc_of_receiver(*p)) && !receivers.contains(&i);
    }
    let mut bad: Option<(&'static str, String)> = None;
    for i in 1..=n {
        let now = &outcome.trees[i];
        if i == top {
            match op {
                Op::Squash => {
                    let p = h.commits[c].0[0];
                    let ok = now.is_none() && outcome.trees[p].as_ref().is_some_and(|d| d.tree_ids() == real[c].tree_ids());
                    if !ok && bad.is_none() { bad = Some(("stack-edit:squash-destination-differs-from-squashed-tree", format!("{req} -> {}", shown.join(",")))); }
                }
                Op::Absorb => { if !now.as_ref().is_some_and(|x| x.tree_ids() == real[c].tree_ids()) && bad.is_none() { bad = Some(("stack-edit:absorb-source-tree-changed", format!("{req} -> {}", shown.join(",")))); } }
                Op::Split => {
                    let second_ok = outcome.extra[0].tree_ids() == real[c].tree_ids();
                    let first_ok = now.as_ref().is_some_and(|x| env.conv.read_merged(&x.tree()).ok() == selected_first.clone().map(|s| vec![s]));
                    if !(second_ok && first_ok) && bad.is_none() { bad = Some(("stack-edit:split-commits-wrong-trees", format!("{req} -> {}", shown.join(",")))); }
                }
            }
            out.tally("commit", "top");
        } else if protected[i] {
            out.tally("commit", "above-top");
            if !now.as_ref().is_some_and(|x| x.tree_ids() == real[i].tree_ids()) && bad.is_none() { bad = Some(("stack-edit:descendant-tree-changed", format!("{req}: commit {i} -> {}", shown.join(",")))); }
        } else if !desc_of_receiver(i) {
            out.tally("commit", "untouched");
            if !now.as_ref().is_some_and(|x| x.id() == real[i].id()) && bad.is_none() { bad = Some(("stack-edit:unrelated-commit-rewritten", format!("{req}: commit {i}"))); }
        } else { out.tally("commit", if receivers.contains(&i) { "receiver" } else { "between-or-beside" }); }
    }
    match bad { None => out.oracle_ok(), Some((s, d)) => out.oracle_fail(s, d) }
    let _ = ids(&[]);
    let _: BTreeSet<u8> = BTreeSet::new();
}

pub fn run(cfg: &Cfg, out: &mut Out) {
    std::panic::set_hook(Box::new(|_| {}));
    let mut envs = [Env::new(true), Env::new(false)];
    let mut r = cfg.rng(9);
    let n = cfg.n(6_000, 100_000);
    for i in 0..n {
        let env = &mut envs[if i % 3 == 2 { 1 } else { 0 }];
        one(env, out, &mut r, i);
    }
    out.note("stacks of 2–5 commits over the root, each a small edit of its parent; 1 in 3 with a side branch, most of those with a merge commit; 0–2 further commits on top; squash of a whole commit into its parent / absorb of path shares into 1–2 ancestors / sequential split with a random path selection; then rebase_descendants; both same-change settings".to_string());
}
