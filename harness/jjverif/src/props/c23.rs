//! C23 — snapshots record exactly what is on disk.
//! Real `TestWorkspace`s in temp dirs; random edit sequences (create, same-size modify, chmod,
//! symlink, delete, file<->directory swaps, `.gitignore` files, base ignore patterns, sparse
//! patterns) interleaved with real snapshots.  Each snapshot is one correspondence case (pre-state
//! + disk scan + ignore decisions → new tree + file-state keys).
//! Oracle (from the property text, by a direct directory scan, independent of the model's walk).
use crate::rt::*;
#[path = "wc_common.rs"]
pub mod wc_common;
use wc_common::*;

pub const PATHS: &[&str] = &["f", "g", "d", "d/x", "d/y", "d/e", "d/e/z", "h", "h/i", "ig", "ig/a", "ig/b", "ig/b/c",
                             "d/ig", "d/ig/q", "y", "d/c"];
pub const CONTENTS: &[&str] = &["a\n", "b\n", "c\n", "ab\n", "", "x"];
pub const LINKS: &[&str] = &["f", "nowhere", "d", "../canary", "h", "../d"];
pub const BASE_IGN: &[&str] = &["/ig/", "ig/", "/g", "y", "/d/e/", "/h", "ig"];
pub const SPARSE: &[&str] = &["", "d", "d/e", "h", "f", "ig", "d/ig"];

pub fn pick_s(r: &mut Rng, xs: &[&'static str]) -> &'static str { xs[r.below(xs.len())] }

pub fn gen_ent(r: &mut Rng) -> Ent {
    match r.below(8) {
        0 => Ent::Link(r.pick(LINKS).to_string()),
        _ => Ent::File(r.pick(CONTENTS).as_bytes().to_vec(), r.chance(1, 4)),
    }
}

pub fn gen_sparse(r: &mut Rng) -> Vec<P> {
    if r.chance(1, 2) { return vec![vec![]]; }
    let k = r.range(1, 3);
    let mut v: Vec<P> = (0..k).map(|_| p(pick_s(r, SPARSE))).collect();
    v.sort();
    v.dedup();
    v
}

/// a random prefix-free tree over `PATHS`
pub fn gen_tree(r: &mut Rng, conflicts: bool) -> GenTree { gen_tree_over(r, PATHS, conflicts) }

/// a random prefix-free tree over the given path alphabet
pub fn gen_tree_over(r: &mut Rng, paths: &[&str], conflicts: bool) -> GenTree {
    let mut t = GenTree::new();
    for s in paths {
        if r.chance(1, 2) { continue; }
        let q = p(s);
        if t.keys().any(|k| is_prefix(k, &q) || is_prefix(&q, k)) { continue; }
        let v = match r.below(10) {
            0 => GenV::Link(r.pick(LINKS).to_string()),
            1 if conflicts => GenV::Conflict(b"base\n".to_vec(), format!("left{}\n", r.below(2)).into_bytes(), b"right\n".to_vec()),
            _ => GenV::File(r.pick(CONTENTS).as_bytes().to_vec(), r.chance(1, 4)),
        };
        t.insert(q, v);
    }
    t
}

/// one random edit of the real directory; returns a label for the tally
pub fn random_edit(env: &Env, r: &mut Rng) -> &'static str {
    let disk = scan(&env.root);
    match r.below(10) {
        0 | 1 | 2 | 3 => {
            let q = p(pick_s(r, PATHS));
            let before = disk.get(&q).cloned();
            let blocked_parent = (1..q.len()).any(|n| matches!(disk.get(&q[..n].to_vec()), Some(Ent::File(..)) | Some(Ent::Link(_))));
            let e = if r.chance(1, 12) { Ent::Dir } else { gen_ent(r) };
            env.put(&q, &e);
            match (before, blocked_parent) {
                (Some(Ent::Dir), _) if e != Ent::Dir => "dir->file",
                (_, true) => "file->dir",
                (Some(_), _) => "replace",
                (None, _) => "create",
            }
        }
        4 | 5 => {
            let files: Vec<(&P, &Vec<u8>)> = disk.iter().filter_map(|(k, e)| if let Ent::File(c, _) = e { Some((k, c)) } else { None }).collect();
            if files.is_empty() { return "noop"; }
            let (q, c) = files[r.below(files.len())];
            if c.is_empty() { return "noop"; }
            let mut c2 = c.clone();
            c2[0] = if c2[0] == b'z' { b'a' } else { c2[0] + 1 };
            env.overwrite_same_size(q, &c2);
            "modify-same-size"
        }
        6 => {
            let files: Vec<(&P, bool)> = disk.iter().filter_map(|(k, e)| if let Ent::File(_, x) = e { Some((k, *x)) } else { None }).collect();
            if files.is_empty() { return "noop"; }
            let (q, x) = files[r.below(files.len())];
            env.chmod(q, !x);
            "chmod"
        }
        7 | 8 => {
            let keys: Vec<&P> = disk.keys().collect();
            if keys.is_empty() { return "noop"; }
            env.rm(keys[r.below(keys.len())]);
            "delete"
        }
        _ => {
            let dir = p(["", "d", "ig", "h"][r.below(4)]);
            let mut q = dir.clone();
            q.push(".gitignore".into());
            if matches!(disk.get(&dir), Some(Ent::File(..)) | Some(Ent::Link(_))) { return "noop"; }
            if dir.len() == 1 && !disk.contains_key(&dir) && r.chance(1, 2) { return "noop"; }
            let pats: Vec<&str> = ["/x", "y", "e/", "/ig/", "q", "/i", "/f", "z"].iter().filter(|_| r.chance(1, 3)).copied().collect();
            env.put(&q, &Ent::File((pats.join("\n") + "\n").into_bytes(), false));
            "gitignore"
        }
    }
}

pub fn gen_base_ign(r: &mut Rng) -> Vec<String> {
    if r.chance(1, 3) { return vec![]; }
    BASE_IGN.iter().filter(|_| r.chance(1, 4)).map(|s| s.to_string()).collect()
}

/// the statement of C23 evaluated on one real snapshot
pub fn oracle_snapshot(out: &mut Out, res: &SnapResult, ign: &Ignores) {
    let pre = &res.pre;
    let (t2, _s2) = match &res.result {
        Ok(x) => x,
        Err(e) => {
            let sig = if res.known_enotdir { "snapshot:error:tracked-path-below-ignored-dir-parent-not-a-directory".to_string() }
                else if res.known_conflict_dir { "snapshot:panic:file-replacing-directory-with-conflict-not-recorded".to_string() } else { format!("snapshot:{e}") };
            ofail(out, &sig, format!("snapshot failed ({e}) on disk={} tree={} states={} sparse={}",
                show_disk(&pre.disk), show_tree(&pre.tree), show_set(&pre.states), show_seq(&pre.sparse)));
            return;
        }
    };
    if res.known_symlink_follow {
        ofail(out, "snapshot:tracked-path-below-ignored-dir-read-through-symlink", format!("disk={} tree={} states={} sparse={} ign={} -> {}",
            show_disk(&pre.disk), show_tree(&pre.tree), show_set(&pre.states), show_seq(&pre.sparse), show_set(&res.ign_set), show_tree(t2)));
        return;
    }
    let dl = leaves(&pre.disk);
    let ctx = || format!("disk={} tree={} states={} sparse={} ign={} -> {}", show_disk(&pre.disk), show_tree(&pre.tree),
                         show_set(&pre.states), show_seq(&pre.sparse), show_set(&res.ign_set), show_tree(t2));
    let mut bad: Option<(&'static str, String)> = None;
    for (q, e) in &dl {
        let tracked = pre.states.contains(q);
        let insp = in_sparse(&pre.sparse, q);
        let ignored = is_ignored(ign, q, false);
        if insp && (tracked || !ignored) {
            // must be recorded with the disk's content / exec bit / link target
            let ok = match (t2.get(q), e) {
                (Some(TV::File(c, x)), Ent::File(c2, x2)) => c == c2 && x == x2,
                (Some(TV::Link(t)), Ent::Link(t2)) => t == t2,
                // an untouched conflict marker file keeps its conflict
                (Some(v @ TV::Conflict { .. }), e) => pre.tree.get(q) == Some(v) && v.on_disk() == *e
                    || matches!((v, e), (TV::Conflict { mat, .. }, Ent::File(c, _)) if mat == c && pre.tree.get(q) == Some(v)),
                _ => false,
            };
            if !ok { bad.get_or_insert(("snapshot:disk-not-recorded", format!("path {} on disk {} recorded as {:?}; {}", show_p(q), show_ent(e), t2.get(q).map(show_tv), ctx()))); }
        } else if t2.get(q) != pre.tree.get(q) {
            let sig = if !insp { "snapshot:outside-sparse-changed" } else { "snapshot:ignored-untracked-recorded" };
            bad.get_or_insert((sig, format!("path {} (tracked={tracked} in_sparse={insp} ignored={ignored}) changed {:?} -> {:?}; {}", show_p(q),
                pre.tree.get(q).map(show_tv), t2.get(q).map(show_tv), ctx())));
        }
    }
    for q in &pre.states {
        if in_sparse(&pre.sparse, q) && !dl.contains_key(q) && t2.contains_key(q) {
            bad.get_or_insert(("snapshot:missing-path-not-removed", format!("tracked path {} is gone from the disk but still in the tree; {}", show_p(q), ctx())));
        }
    }
    for (q, v) in &pre.tree {
        // side condition (notes/C23.md): a tree path outside the patterns that the user replaced by a
        // directory holding in-pattern files cannot stay in the tree (a tree has no file/dir clash)
        let became_dir = t2.keys().any(|k| is_strict_prefix(q, k));
        if !in_sparse(&pre.sparse, q) && t2.get(q) != Some(v) && !became_dir {
            bad.get_or_insert(("snapshot:outside-sparse-changed", format!("path {} outside the sparse patterns changed; {}", show_p(q), ctx())));
        }
    }
    for (q, v) in t2 {
        if !dl.contains_key(q) && pre.tree.get(q) != Some(v) {
            bad.get_or_insert(("snapshot:invented-path", format!("path {} recorded but not on disk; {}", show_p(q), ctx())));
        }
    }
    match bad {
        None => out.oracle_ok(),
        Some((sig, d)) => ofail(out, sig, d),
    }
}

/// three scripted workspaces that walk into the known defect classes F-C23-1/2/3 (notes/C23.md), so
/// every run reports them (KNOWN-FINDING lines) and notices when one of them gets repaired
fn directed(out: &mut Out) {
    let ig = vec!["/ig/".to_string()];
    let file = |c: &str| Ent::File(c.as_bytes().to_vec(), false);
    // F-C23-1: parent of a tracked path below an ignored directory becomes a file
    let mut env = Env::new();
    env.put(&p("ig/b/c"), &file("c\n"));
    let r0 = env.snapshot(out, &[]);
    let i0 = env.ignores(&[], &r0.pre.disk);
    oracle_snapshot(out, &r0, &i0);
    env.rm(&p("ig/b"));
    env.put(&p("ig/b"), &file("file\n"));
    let r1 = env.snapshot(out, &ig);
    let i1 = env.ignores(&ig, &r1.pre.disk);
    oracle_snapshot(out, &r1, &i1);
    // F-C23-3: … becomes a symlink to another directory
    let mut env = Env::new();
    env.put(&p("ig/b/c"), &file("tracked\n"));
    env.put(&p("d/c"), &file("other\n"));
    let r0 = env.snapshot(out, &[]);
    oracle_snapshot(out, &r0, &i0);
    env.rm(&p("ig/b"));
    env.put(&p("ig/b"), &Ent::Link("../d".into()));
    let r1 = env.snapshot(out, &ig);
    let i1 = env.ignores(&ig, &r1.pre.disk);
    oracle_snapshot(out, &r1, &i1);
    // F-C23-2: a file replaces a directory that holds a conflicted path
    let mut env = Env::new();
    let mut gt = GenTree::new();
    gt.insert(p("d/e/z"), GenV::Conflict(b"base\n".to_vec(), b"left\n".to_vec(), b"right\n".to_vec()));
    gt.insert(p("g"), GenV::File(b"g\n".to_vec(), false));
    let t = env.build_tree(&gt);
    env.check_out(out, &t);
    env.rm(&p("d/e"));
    env.put(&p("d/e"), &file("new\n"));
    let r1 = env.snapshot(out, &[]);
    oracle_snapshot(out, &r1, &i0);
}

/// Scenario family "an ignored directory full of tracked files" (strengthened after seed C23).
/// Below an ignored directory the snapshot does not list the directory but stats the tracked paths one
/// by one (`visit_tracked_files`), in file-state order; what happens to one of them must not influence
/// the others.  Several files below one directory get tracked (first snapshot without ignore rules, or
/// a checkout), then the directory becomes ignored (base pattern or a `.gitignore` next to it) and
/// every gap between two snapshots holds *several* edits of those tracked paths: replaced by an
/// (empty / non-empty) directory, modified in place, chmod'ed, deleted, replaced by a symlink,
/// restored, plus new (ignored, untracked) files next to them.
fn ignored_dir_family(cfg: &Cfg, out: &mut Out) {
    const DIRS: &[(&str, &[&str], &str, &[&str])] = &[
        // (ignored directory, base patterns that ignore it, directory of a .gitignore, its patterns)
        ("ig", &["/ig/", "ig/", "ig"], "", &["/ig/", "ig/"]),
        ("d/ig", &["ig/", "/d/ig/", "ig"], "d", &["/ig/", "ig/"]),
        ("d/e", &["/d/e/"], "d", &["e/", "/e/"]),
    ];
    const NAMES: &[&str] = &["a", "c", "b", "b/c", "b/d", "k/m", "q", "z"];
    let mut r = cfg.rng(2301);
    let workspaces = cfg.n(100, 600);
    for w in 0..workspaces {
        // the first workspaces are minimal: two or three tracked files, two edits per gap
        let small = w < 20;
        let mut env = Env::new();
        let (dir, base_pats, gi_dir, gi_pats) = *r.pick(DIRS);
        let dirp = p(dir);
        // the tracked files of the directory (prefix free, at least two) and a few outside
        let mut gt = GenTree::new();
        while gt.len() < 2 {
            for nm in if small { &NAMES[..3] } else { NAMES } {
                if r.chance(1, 2) { continue; }
                let q = p(&format!("{dir}/{nm}"));
                if gt.keys().any(|k| is_prefix(k, &q) || is_prefix(&q, k)) { continue; }
                gt.insert(q, GenV::File(r.pick(CONTENTS).as_bytes().to_vec(), r.chance(1, 4)));
            }
        }
        for s in ["f", "y", "h/i"] { if r.chance(1, 2) { gt.insert(p(s), GenV::File(r.pick(CONTENTS).as_bytes().to_vec(), false)); } }
        if r.chance(1, 2) {
            let t = env.build_tree(&gt);
            env.check_out(out, &t);
        } else {
            for (q, v) in &gt { if let GenV::File(c, x) = v { env.put(q, &Ent::File(c.clone(), *x)); } }
            let res = env.snapshot(out, &[]);
            let ign = env.ignores(&[], &res.pre.disk);
            oracle_snapshot(out, &res, &ign);
        }
        // from now on the directory is ignored
        let by_file = r.chance(1, 3);
        let base_ign: Vec<String> = if by_file {
            let mut q = p(gi_dir);
            q.push(".gitignore".into());
            env.put(&q, &Ent::File(format!("{}\n", r.pick(gi_pats)).into_bytes(), false));
            vec![]
        } else { vec![r.pick(base_pats).to_string()] };
        if r.chance(1, 8) { let mut sp = vec![p(dirp[0].as_str()), p("f")]; sp.sort(); env.set_sparse(out, &sp); }
        let mut fresh = 0;
        for _ in 0..4 {
            let tracked: Vec<P> = env.states().into_iter().filter(|q| is_strict_prefix(&dirp, q)).collect();
            for _ in 0..(if small { 2 } else { r.range(2, 5) }) {
                if tracked.is_empty() { break; }
                let disk = scan(&env.root);
                let q = r.pick(&tracked).clone();
                let parent_ok = (1..q.len()).all(|n| disk.get(&q[..n].to_vec()) == Some(&Ent::Dir));
                let cur = if parent_ok { disk.get(&q).cloned() } else { None };
                let k = r.below(12);
                let lbl = match (k, cur) {
                    (10, _) => {
                        fresh += 1;
                        let mut u = dirp.clone();
                        u.push(format!("n{fresh}"));
                        env.put(&u, &Ent::File(b"new\n".to_vec(), false));
                        "new-ignored"
                    }
                    (11, _) => if r.chance(1, 3) { random_edit(&env, &mut r) } else { "noop" },
                    (0 | 1 | 2, Some(Ent::File(..) | Ent::Link(_))) => {
                        env.put(&q, &Ent::Dir);
                        if r.chance(1, 3) { let mut u = q.clone(); u.push("u".into()); env.put(&u, &Ent::File(b"inner\n".to_vec(), false)); }
                        "tracked->dir"
                    }
                    (3 | 4, Some(Ent::File(c, _))) if !c.is_empty() => {
                        let mut c2 = c.clone();
                        c2[0] = if c2[0] == b'z' { b'a' } else { c2[0] + 1 };
                        env.overwrite_same_size(&q, &c2);
                        "modify-same-size"
                    }
                    (5, Some(Ent::File(_, x))) => { env.chmod(&q, !x); "chmod" }
                    (6 | 7, Some(Ent::File(..) | Ent::Link(_))) => { env.rm(&q); "delete" }
                    (_, Some(Ent::File(..) | Ent::Link(_))) => { env.put(&q, &gen_ent(&mut r)); "replace" }
                    // the path is a directory by now, or gone: mostly left alone, sometimes restored
                    (0 | 1 | 2, _) => { env.put(&q, &gen_ent(&mut r)); "restore" }
                    _ => "noop",
                };
                out.tally("family-edit", lbl);
            }
            let ignoring = r.chance(7, 8);
            let bi: Vec<String> = if ignoring { base_ign.clone() } else { vec![] };
            let res = env.snapshot(out, &bi);
            let ign = env.ignores(&bi, &res.pre.disk);
            oracle_snapshot(out, &res, &ign);
            // the shape the family is after: below the ignored directory a tracked path is now a directory
            // and a tracked path sorting after it differs from the tree (content, mode, kind, gone)
            let dir_ignored = res.ign_set.contains(&dirp);
            let below = |q: &&P| is_strict_prefix(&dirp, q) && res.pre.states.contains(*q);
            let swapped: Vec<&P> = res.pre.tree.keys().filter(below).filter(|q| res.pre.disk.get(*q) == Some(&Ent::Dir)).collect();
            let later = res.pre.tree.iter().filter(|(q, _)| below(q))
                .any(|(q, v)| res.pre.disk.get(q) != Some(&v.on_disk()) && swapped.iter().any(|s| *s < q));
            if dir_ignored && !swapped.is_empty() { out.tally("shape", "ignored-dir:tracked->dir"); }
            if dir_ignored && later { out.tally("shape", "ignored-dir:tracked->dir+later-sibling-changed"); }
            let changed = match &res.result { Ok((t, _)) => *t != res.pre.tree, Err(_) => true };
            if changed { out.nontrivial((show_tree(&res.pre.tree), show_disk(&res.pre.disk), show_set(&res.ign_set), show_seq(&res.pre.sparse))); }
            if res.result.is_err() { break; }
        }
    }
    out.note(format!("{workspaces} workspaces of the family 'ignored directory full of tracked files' (4 snapshots each, 2-5 edits of the tracked paths per gap)"));
}

pub fn run(cfg: &Cfg, out: &mut Out) {
    let mut r = cfg.rng(23);
    directed(out);
    ignored_dir_family(cfg, out);
    let workspaces = cfg.n(250, 1200);
    for w in 0..workspaces {
        let mut env = Env::new();
        // start from a checked-out tree in two thirds of the workspaces, sparse in a third
        if r.chance(2, 3) {
            let cf = r.chance(1, 3);
            let t = env.build_tree(&gen_tree(&mut r, cf));
            // (setup operations are correspondence cases too)
            env.check_out(out, &t);
            if r.chance(1, 3) { env.set_sparse(out, &gen_sparse(&mut r)); }
        }
        let mut base_ign = gen_base_ign(&mut r);
        for _ in 0..(if w < 5 { 3 } else { 8 }) {
            let k = r.range(0, 4);
            for _ in 0..k { let lbl = random_edit(&env, &mut r); out.tally("edit", lbl); }
            if r.chance(1, 4) { base_ign = gen_base_ign(&mut r); }
            let res = env.snapshot(out, &base_ign);
            let ign = env.ignores(&base_ign, &res.pre.disk);
            oracle_snapshot(out, &res, &ign);
            let changed = match &res.result { Ok((t, _)) => *t != res.pre.tree, Err(_) => true };
            out.tally("result", if res.result.is_err() { "error" } else if changed { "tree-changed" } else { "tree-same" });
            if !res.ign_set.is_empty() { out.tally("ignore", "some-ignored"); }
            if res.pre.sparse != vec![Vec::<String>::new()] { out.tally("sparse", "non-root"); }
            if changed { out.nontrivial((show_tree(&res.pre.tree), show_disk(&res.pre.disk), show_set(&res.ign_set), show_seq(&res.pre.sparse))); }
        }
    }
    out.note(format!("{workspaces} temp workspaces; each snapshot is one case (pre-state + scan + ignore decisions)"));
}
