//! C07 — tree merges are the path-wise merge of their inputs.
//!
//! Real code: `tree_merge::merge_trees`, `MergedTree::merge`, `MergedTree::path_value`,
//! `tree_merge::resolve_file_values`, on an in-memory test backend (concurrency 10), under both
//! `merge.same-change` settings.
//! Model requests: `mt` / `merge` (result trees by structure), `pv` (path value at every path of every
//! input and of the result), `rfv`.
//! Oracle (from the property text, not from the model): at every path with `NoClashAbove`, the merged
//! tree's value equals the merge of that path's entries taken on their own (trivial resolution by signed
//! counts; else, when all remaining terms are files, executable bit by the same-change rule and content
//! by `files::try_merge`); `[a,b,b] ↦ a`, `[b,b,a] ↦ a`, `[a,b,a] ↦ a` (accept); conflict-free iff no
//! path conflicts.
use crate::rt::*;
#[path = "tree_common.rs"]
pub mod tree_common;
use jj_lib::backend::TreeValue;
use jj_lib::config::{ConfigLayer, ConfigSource};
use jj_lib::merge::Merge;
use jj_lib::merged_tree::MergedTree;
use jj_lib::repo::Repo as _;
use jj_lib::settings::UserSettings;
use jj_lib::tree_merge::{merge_trees, resolve_file_values};
use pollster::FutureExt as _;
use std::collections::{BTreeMap, BTreeSet};
use testutils::TestRepo;
use tree_common::*;

pub struct Env {
    pub accept: bool,
    pub sc: &'static str,
    pub repo: TestRepo,
    pub conv: Conv,
    /// content merges the oracle had to perform (succeeded, failed)
    pub cm: std::cell::Cell<(u64, u64)>,
}
pub fn settings(sc: &str) -> UserSettings {
    let mut config = testutils::base_user_config();
    config.add_layer(ConfigLayer::parse(ConfigSource::User, &format!("merge.same-change = \"{sc}\"\n")).unwrap());
    UserSettings::from_config(config).unwrap()
}
impl Env {
    pub fn new(accept: bool) -> Env {
        let sc = if accept { "accept" } else { "keep" };
        let repo = TestRepo::init_with_settings(&settings(sc));
        let conv = Conv::new(repo.repo.store().clone());
        Env { accept, sc, repo, conv, cm: Default::default() }
    }
}

#[derive(Debug, PartialEq)]
pub enum Exp {
    Resolved(OV),
    /// signed counts of the remaining terms; `true` when every term is a tree or absent
    Conflict(BTreeMap<OV, i64>, bool),
}

/// The per-path merge of the property text, computed on the harness-side trees.
pub fn expected_at(env: &Env, terms: &[MTree], p: &[u64]) -> Exp {
    let vals: Vec<OV> = terms.iter().map(|t| get(t, p)).collect();
    if let Some(v) = spec_trivial(&vals, env.accept) { return Exp::Resolved(v); }
    let all_tree = vals.iter().all(is_tree_or_none);
    // cancel equal side/base pairs (jj's own simplify: C01)
    let s: Vec<OV> = Merge::from_vec(vals.clone()).simplify().iter().cloned().collect();
    let files: Option<Vec<(u64, bool)>> = s.iter().map(|v| match v { Some(V::F(id, x)) => Some((*id, *x)), _ => None }).collect();
    if let Some(fs) = files {
        let execs: Vec<bool> = fs.iter().map(|f| f.1).collect();
        let ids: Vec<u64> = fs.iter().map(|f| f.0).collect();
        if let Some(x) = spec_trivial(&execs, true) {
            if let Some(id) = spec_trivial(&ids, env.accept) { return Exp::Resolved(Some(V::F(id, x))); }
            let sids = Merge::from_vec(ids).simplify();
            let contents = sids.map(|id| content(*id).into_bytes());
            let (ok, bad) = env.cm.get();
            if let Some(c) = jj_lib::files::try_merge(&contents, env.conv.store.merge_options()) {
                if let Some(id) = decode_content(&c) { env.cm.set((ok + 1, bad)); return Exp::Resolved(Some(V::F(id, x))); }
            }
            env.cm.set((ok, bad + 1));
        }
    }
    Exp::Conflict(counts(&vals), all_tree)
}

pub fn norm_actual(actual: &[OV], accept: bool) -> Exp {
    match spec_trivial(actual, accept) {
        Some(v) => Exp::Resolved(v),
        None => Exp::Conflict(counts(actual), actual.iter().all(is_tree_or_none)),
    }
}

/// Checks the merged tree against the per-path definition; returns whether some path conflicts.
pub fn check_paths(env: &mut Env, out: &mut Out, what: &str, terms: &[MTree], result: &MergedTree, result_terms: &[MTree], emit_pv: bool) -> bool {
    let mut paths = BTreeSet::new();
    for t in terms.iter().chain(result_terms.iter()) { all_paths(t, &mut vec![], &mut paths); }
    let mut any_conflict = false;
    let mut bad: Option<String> = None;
    for p in &paths {
        let rp = repo_path_of(p);
        let actual = match guard(|| result.path_value(&rp).block_on()) {
            Ok(Ok(v)) => v,
            Ok(Err(e)) => { out.oracle_fail("tree-merge:path-value-error", format!("{what} path {}: {e}", show_path(p))); continue; }
            Err(e) => { out.oracle_fail("tree-merge:path-value-panic", format!("{what} path {}: {e}", show_path(p))); continue; }
        };
        let actual = match env.conv.mval(&rp, &actual) { Ok(a) => a, Err(e) => { out.oracle_fail("tree-merge:undecodable", format!("{what}: {e}")); continue; } };
        if emit_pv {
            out.case(&format!("pv {} {} {}", env.sc, show_trees(result_terms), show_path(p)), &show_mval(&actual));
        }
        if !no_clash_above(terms, p, env.accept) { out.tally("path", "below-clash"); continue; }
        let exp = expected_at(env, terms, p);
        let act = norm_actual(&actual, env.accept);
        let ok = match (&exp, &act) {
            (Exp::Conflict(_, true), Exp::Resolved(v)) => is_tree_or_none(v),
            (Exp::Conflict(_, true), Exp::Conflict(_, t)) => *t,
            // a clash: same signed multiset of terms (the result may have been simplified)
            (Exp::Conflict(c, false), Exp::Conflict(d, _)) => c == d,
            _ => exp == act,
        };
        match &exp {
            Exp::Resolved(_) => out.tally("path", "resolved"),
            Exp::Conflict(_, true) => out.tally("path", "dir-merge"),
            Exp::Conflict(_, false) => { any_conflict = true; out.tally("path", "conflict") }
        }
        if !ok && bad.is_none() {
            bad = Some(format!("{what} terms={} path={} merged value {} ≠ per-path merge {:?}", show_trees(terms), show_path(p), show_mval(&actual), exp));
        }
    }
    match bad { None => out.oracle_ok(), Some(d) => out.oracle_fail("tree-merge:path-value-differs-from-per-path-merge", d) }
    any_conflict
}

fn identity_family(r: &mut Rng, pal: &Palette) -> (Vec<MTree>, usize) {
    // returns terms and the index of the term the merge must equal
    let a = pal.tree(r, pal.max_depth);
    let b = if r.chance(1, 2) { pal.mutate(r, &a) } else { pal.tree(r, pal.max_depth) };
    let c = pal.mutate(r, &b);
    match r.below(5) {
        0 => (vec![a, b.clone(), b], 0),
        1 => (vec![b.clone(), b, a], 2),
        2 => (vec![a, b.clone(), b, c.clone(), c], 0),
        3 => (vec![b.clone(), b, c.clone(), c, a], 4),
        _ => (vec![b.clone(), c.clone(), a, b, c], 2),
    }
}

fn mt_case(env: &mut Env, out: &mut Out, terms: Vec<MTree>, must_equal: Option<usize>) {
    let store = env.conv.store.clone();
    let ids: Vec<_> = terms.iter().map(|t| env.conv.write(t)).collect();
    let req = format!("mt {} {}", env.sc, show_trees(&terms));
    let res = guard(|| merge_trees(&store, Merge::from_vec(ids)).block_on());
    let merged = match res {
        Ok(Ok(m)) => m,
        Ok(Err(e)) => { out.case(&req, "err"); out.oracle_fail("tree-merge:error", format!("{req}: {e}")); return; }
        Err(e) => { out.case(&req, "panic"); out.oracle_fail("tree-merge:panic", format!("{req}: {e}")); return; }
    };
    let mt = MergedTree::new(store.clone(), merged.clone(), jj_lib::conflict_labels::ConflictLabels::unlabeled());
    let result_terms = match env.conv.read_merged(&mt) { Ok(t) => t, Err(e) => { out.case(&req, "undecodable"); out.oracle_fail("tree-merge:undecodable", e); return; } };
    out.case(&req, &show_trees(&result_terms));
    classify(out, "mt", &terms, &result_terms);
    // arity: resolved or same number of sides as the input
    if result_terms.len() == 1 || result_terms.len() == terms.len() { out.oracle_ok() } else { out.oracle_fail("tree-merge:arity", format!("{req} -> {}", show_trees(&result_terms))); }
    if let Some(i) = must_equal {
        if result_terms.len() == 1 && result_terms[0] == terms[i] { out.oracle_ok() }
        else { out.oracle_fail("tree-merge:side-equal-base-not-identity", format!("{req} -> {}, expected term {i}", show_trees(&result_terms))); }
    }
    let any_conflict = check_paths(env, out, &req, &terms, &mt, &result_terms, true);
    if any_conflict == (result_terms.len() > 1) { out.oracle_ok() }
    else { out.oracle_fail("tree-merge:conflict-free-iff", format!("{req} -> {} but some-path-conflicts={any_conflict}", show_trees(&result_terms))); }
}

fn classify(out: &mut Out, op: &str, terms: &[MTree], result: &[MTree]) {
    out.tally(&format!("{op}.arity"), &terms.len().to_string());
    out.tally(&format!("{op}.result"), if result.len() == 1 { "resolved" } else { "conflict" });
    out.tally(&format!("{op}.height"), &terms.iter().map(height).max().unwrap_or(0).to_string());
    let distinct: BTreeSet<&MTree> = terms.iter().collect();
    if distinct.len() >= 2 && terms.len() >= 3 { out.nontrivial((op.to_string(), terms.to_vec())); }
}

fn merge_case(env: &mut Env, out: &mut Out, inputs: Vec<Vec<MTree>>, must_equal: Option<MTree>) {
    let trees: Vec<MergedTree> = inputs.iter().map(|i| env.conv.merged(i)).collect();
    let req = format!("merge {} {}", env.sc, inputs.iter().map(|i| show_trees(i)).collect::<Vec<_>>().join("|"));
    let res = guard(|| MergedTree::merge(Merge::from_vec(trees.iter().map(|t| (t.clone(), "l".to_string())).collect::<Vec<_>>())).block_on());
    let merged = match res {
        Ok(Ok(m)) => m,
        Ok(Err(e)) => { out.case(&req, "err"); out.oracle_fail("tree-merge:error", format!("{req}: {e}")); return; }
        Err(e) if e.contains("left == right") && e.contains("TreeId(") => {
            // debug_assert_eq!(re_merged, simplified) in MergedTree::resolve (debug-assertion builds only)
            out.case(&req, "panic:resolve-debug-assert");
            out.tally("merge.result", "debug-assert");
            out.oracle_fail("tree-merge:resolve-debug-assert-remerge-differs", format!("{req}: {}", e.replace('\n', " ")));
            return;
        }
        Err(e) => { out.case(&req, "panic"); out.oracle_fail("tree-merge:panic", format!("{req}: {e}")); return; }
    };
    let result_terms = match env.conv.read_merged(&merged) { Ok(t) => t, Err(e) => { out.case(&req, "undecodable"); out.oracle_fail("tree-merge:undecodable", e); return; } };
    out.case(&req, &show_trees(&result_terms));
    // the inputs of the tree-level merge: flattened, cancelled (C01) terms
    let flat: Vec<MTree> = Merge::from_vec(inputs.iter().map(|i| Merge::from_vec(i.clone())).collect::<Vec<_>>()).flatten().simplify().iter().cloned().collect();
    classify(out, "merge", &flat, &result_terms);
    if inputs.iter().any(|i| i.len() > 1) { out.tally("merge.inputs", "some-conflicted"); } else { out.tally("merge.inputs", "all-resolved"); }
    if let Some(a) = must_equal {
        if result_terms.len() == 1 && result_terms[0] == a { out.oracle_ok() }
        else { out.oracle_fail("tree-merge:side-equal-base-not-identity", format!("{req} -> {}", show_trees(&result_terms))); }
    }
    let any_conflict = check_paths(env, out, &req, &flat, &merged, &result_terms, out.evaluations % 4 == 0);
    if any_conflict == merged.has_conflict() { out.oracle_ok() }
    else { out.oracle_fail("tree-merge:conflict-free-iff", format!("{req} -> {} but some-path-conflicts={any_conflict}", show_trees(&result_terms))); }
}

fn rfv_case(env: &mut Env, out: &mut Out, r: &mut Rng, pal: &Palette) {
    let n = if r.chance(2, 3) { 3 } else { 5 };
    let vals: Vec<OV> = (0..n).map(|_| match r.below(12) { 0 => None, 1 => Some(V::S(r.below(2) as u64)), 2 => Some(V::T(vec![(0, V::F(0, false))])), _ => Some(pal.leaf(r)) }).collect();
    // real values: put them into a tree at path "0" and read them back
    let path = repo_path_of(&[0]);
    let real: Vec<Option<TreeValue>> = vals.iter().map(|v| v.as_ref().map(|v| {
        let id = env.conv.write(&vec![(0, v.clone())]);
        let tree = env.conv.store.get_tree(jj_lib::repo_path::RepoPathBuf::root(), &id).block_on().unwrap();
        tree.value(jj_lib::repo_path::RepoPathComponent::new("0").unwrap()).unwrap().clone()
    })).collect();
    let store = env.conv.store.clone();
    let req = format!("rfv {} {}", env.sc, show_mval(&vals));
    match guard(|| resolve_file_values(&store, &path, Merge::from_vec(real)).block_on()) {
        Ok(Ok(m)) => match env.conv.mval(&path, &m) {
            Ok(a) => {
                out.case(&req, &show_mval(&a));
                out.tally("rfv.result", if a.len() == 1 { "resolved" } else { "conflict" });
                let terms: Vec<MTree> = vals.iter().map(|v| match v { Some(v) => vec![(0, v.clone())], None => vec![] }).collect();
                let exp = expected_at(env, &terms, &[0]);
                let act = norm_actual(&a, env.accept);
                let ok = match (&exp, &act) { (Exp::Conflict(_, true), _) => true, (Exp::Conflict(c, false), Exp::Conflict(d, _)) => c == d, _ => exp == act };
                if ok { out.oracle_ok() } else { out.oracle_fail("tree-merge:resolve-file-values-differs", format!("{req} -> {} expected {exp:?}", show_mval(&a))); }
                if vals.iter().collect::<BTreeSet<_>>().len() >= 2 { out.nontrivial(("rfv", vals.clone(), env.accept)); }
            }
            Err(e) => { out.case(&req, "undecodable"); out.oracle_fail("tree-merge:undecodable", e); }
        },
        Ok(Err(e)) => { out.case(&req, "err"); out.oracle_fail("tree-merge:error", format!("{req}: {e}")); }
        Err(e) => { out.case(&req, "panic"); out.oracle_fail("tree-merge:panic", format!("{req}: {e}")); }
    }
}

/// `path_value` on raw (possibly unsimplified, possibly clashing) `Merge<Tree>`s
fn pv_case(env: &mut Env, out: &mut Out, terms: &[MTree]) {
    let mt = env.conv.merged(terms);
    let mut paths = BTreeSet::new();
    for t in terms { all_paths(t, &mut vec![], &mut paths); }
    for p in &paths {
        let rp = repo_path_of(p);
        match guard(|| mt.path_value(&rp).block_on()) {
            Ok(Ok(v)) => match env.conv.mval(&rp, &v) {
                Ok(a) => {
                    out.case(&format!("pv {} {} {}", env.sc, show_trees(terms), show_path(p)), &show_mval(&a));
                    // oracle: with no clash above, path_value is the trivially resolved per-term lookup
                    if no_clash_above(terms, p, env.accept) {
                        let vals: Vec<OV> = terms.iter().map(|t| get(t, p)).collect();
                        let exp = match spec_trivial(&vals, env.accept) { Some(v) => vec![v], None => vals };
                        if exp == a { out.oracle_ok() } else { out.oracle_fail("tree-merge:path-value-not-per-term-lookup", format!("{} at {}: {} expected {}", show_trees(terms), show_path(p), show_mval(&a), show_mval(&exp))); }
                    } else {
                        // below a clash the documented answer is "absent"
                        if a == vec![None] { out.oracle_ok() } else { out.oracle_fail("tree-merge:path-value-below-clash-not-absent", format!("{} at {}: {}", show_trees(terms), show_path(p), show_mval(&a))); }
                    }
                }
                Err(e) => out.oracle_fail("tree-merge:undecodable", e),
            },
            Ok(Err(e)) => out.oracle_fail("tree-merge:path-value-error", e.to_string()),
            Err(e) => out.oracle_fail("tree-merge:path-value-panic", e),
        }
    }
    if terms.len() >= 3 { out.nontrivial(("pv", terms.to_vec(), env.accept)); }
}

pub fn run(cfg: &Cfg, out: &mut Out) {
    // panics of the implementation are caught by `guard` and reported; keep stderr quiet
    std::panic::set_hook(Box::new(|_| {}));
    let mut envs = [Env::new(true), Env::new(false)];
    // fixed reproducer of the known finding (see notes/C07.md): a cancelling file pair hides that the
    // remaining terms of `1` are all directories, so re-merging the simplified result merges further
    for env in envs.iter_mut() {
        let f = |s: &[(u64, V)]| s.to_vec();
        let t0 = f(&[(1, V::T(f(&[(0, V::F(0, false)), (1, V::F(1, false))])))]);
        let t1 = f(&[(1, V::T(f(&[(0, V::F(0, false))])))]);
        merge_case(env, out, vec![vec![f(&[(2, V::F(0, false))])], vec![t0, t1, f(&[(1, V::F(2, false)), (2, V::F(0, false))])], vec![f(&[(1, V::F(2, false))])]], None);
    }
    let mut r = cfg.rng(7);
    let n = cfg.n(12_000, 300_000);
    for i in 0..n {
        let env = &mut envs[if i % 3 == 2 { 1 } else { 0 }];
        let pal = Palette::new(&mut r);
        // sizes grow with the case index so that the first disagreement is small
        let arity = if i < n / 3 { 3 } else { *r.pick(&[3, 3, 5, 5, 7]) };
        match r.below(10) {
            0 | 1 => { let (ts, k) = identity_family(&mut r, &pal); mt_case(env, out, ts, Some(k)); }
            2..=4 => { let ts = pal.family(&mut r, arity); mt_case(env, out, ts, None); }
            5 => {
                // [a,b,a] under accept resolves to a
                let a = pal.tree(&mut r, pal.max_depth); let b = pal.mutate(&mut r, &a);
                let must = if env.accept { Some(0) } else { None };
                mt_case(env, out, vec![a.clone(), b, a], must);
            }
            6..=8 => {
                let m = if arity >= 5 { 5 } else { 3 };
                let mut inputs: Vec<Vec<MTree>> = vec![];
                let fam = pal.family(&mut r, m + 4);
                let mut k = 0;
                for _ in 0..m {
                    if r.chance(1, 4) && k + 3 <= fam.len() { inputs.push(fam[k..k + 3].to_vec()); k += 3; }
                    else { inputs.push(vec![fam[k % fam.len()].clone()]); k += 1; }
                }
                let must = if m == 3 && inputs.iter().all(|i| i.len() == 1) && r.chance(1, 3) { inputs[2] = inputs[1].clone(); Some(inputs[0][0].clone()) } else { None };
                merge_case(env, out, inputs, must);
            }
            _ => {
                rfv_case(env, out, &mut r, &pal);
                let ts = pal.family(&mut r, 3);
                pv_case(env, out, &ts);
            }
        }
    }
    for e in &envs {
        let (ok, bad) = e.cm.get();
        for _ in 0..ok { out.tally("oracle.content-merge", &format!("{}:merged", e.sc)); }
        for _ in 0..bad { out.tally("oracle.content-merge", &format!("{}:conflict", e.sc)); }
    }
    out.note("random related tree families (copies / small edits / fresh), 3 names per directory, depth ≤ 3, content ids from a per-case palette of ≤ 5 of 9 two-slot files; arities 3 (first third), then 3/5/7; both same-change settings".to_string());
}
