//! C11 — rewrites leave no orphans and references follow.
//!
//! One case = a random DAG (≤ 9 commits) built in a real `TestRepo`, committed, then a second
//! transaction with random rewrite / abandon / divergent-rewrite records, new commits, bookmark and
//! working-copy edits, followed by `rebase_descendants_with_options` (every `EmptyBehavior`,
//! `simplify_ancestor_merge` on/off, `delete_abandoned_bookmarks` on/off, optional immutable set).
//! Commits are named by small integers: 0 = root, 1..n the initial DAG in creation order, then the
//! commits written by the harness ops, then the commits jj creates (in the order of the progress
//! callback, then recreated working-copy commits in workspace order).  The request carries the
//! whole state + op list; the answer is the progress trace and the canonical final view/graph.
//!
//! Oracle (from the property text, does not use the model): no visible mutable non-key commit has
//! a rewritten/abandoned parent and no head is a key (divergent keys keep their descendants, as
//! documented on `Rewrite::Divergent`); every rebased commit keeps change id + description and has
//! predecessors = [old]; bookmarks / working copies follow; visible change ids stay unique unless a
//! divergent rewrite (or a second rewrite of the same commit) was recorded.
use crate::rt::*;
use jj_lib::backend::CommitId;
use jj_lib::commit::Commit;
use jj_lib::merge::Merge;
use jj_lib::merged_tree::MergedTree;
use jj_lib::object_id::ObjectId as _;
use jj_lib::op_store::RefTarget;
use jj_lib::ref_name::{RefName, WorkspaceNameBuf};
use jj_lib::repo::{MutableRepo, ReadonlyRepo, Repo};
use jj_lib::repo_path::RepoPathBuf;
use jj_lib::revset::RevsetExpression;
use jj_lib::rewrite::{EmptyBehavior, RebaseOptions, RebasedCommit, RewriteRefsOptions, merge_commit_trees};
use pollster::FutureExt as _;
use std::collections::{BTreeMap, BTreeSet, HashMap};
use std::sync::Arc;
use testutils::{TestRepo, TestTreeBuilder};

/// Commit numbering shared by request and answer.
pub struct World {
    pub commits: Vec<Commit>,                 // index = model id
    pub ids: HashMap<CommitId, usize>,
    pub changes: HashMap<Vec<u8>, usize>,     // change id -> model change number
    pub parents: Vec<Vec<usize>>,
}

impl World {
    pub fn new(root: Commit) -> Self {
        let mut w = World { commits: vec![], ids: HashMap::new(), changes: HashMap::new(), parents: vec![] };
        w.changes.insert(root.change_id().to_bytes(), 0);
        w.add(root);
        w
    }
    pub fn add(&mut self, c: Commit) -> usize {
        if let Some(i) = self.ids.get(c.id()) { return *i; }
        let i = self.commits.len();
        self.ids.insert(c.id().clone(), i);
        self.changes.entry(c.change_id().to_bytes()).or_insert(i);
        let ps = c.parent_ids().iter().map(|p| self.ids.get(p).copied().unwrap_or(usize::MAX)).collect();
        self.parents.push(ps);
        self.commits.push(c);
        i
    }
    pub fn id(&self, c: &CommitId) -> Option<usize> { self.ids.get(c).copied() }
    pub fn cid(&self, i: usize) -> CommitId { self.commits[i].id().clone() }
    pub fn change(&self, i: usize) -> usize { self.changes[&self.commits[i].change_id().to_bytes()] }
    pub fn desc(&self, i: usize) -> u64 { desc_num(self.commits[i].description()) }
    pub fn is_anc(&self, a: usize, b: usize) -> bool {
        let mut st = vec![b]; let mut seen = BTreeSet::new();
        while let Some(x) = st.pop() { if x == a { return true; } if !seen.insert(x) { continue; } for p in &self.parents[x] { if *p != usize::MAX { st.push(*p); } } }
        false
    }
    pub fn ancestors(&self, hs: &[usize]) -> BTreeSet<usize> {
        let mut st: Vec<usize> = hs.to_vec(); let mut seen = BTreeSet::new();
        while let Some(x) = st.pop() { if !seen.insert(x) { continue; } for p in &self.parents[x] { if *p != usize::MAX { st.push(*p); } } }
        seen
    }
}

pub fn desc_str(d: u64) -> String { if d == 0 { String::new() } else { format!("d{d}") } }
pub fn desc_num(s: &str) -> u64 { if s.is_empty() { 0 } else { s[1..].parse().unwrap_or(999_999) } }

pub fn tree_files(t: &MergedTree) -> Option<Vec<u64>> {
    let mut v = vec![];
    for (path, val) in t.entries() {
        let val = val.ok()?;
        if !val.is_resolved() { return None; }
        let s = path.as_internal_file_string().to_string();
        v.push(s.strip_prefix('f')?.parse().ok()?);
    }
    v.sort();
    Some(v)
}
pub fn make_tree(repo: &dyn Repo, files: &[u64]) -> MergedTree {
    let mut b = TestTreeBuilder::new(repo.store().clone());
    for f in files { let p = RepoPathBuf::from_internal_string(format!("f{f}")).unwrap(); b.file(&p, format!("{f}")); }
    b.write_merged_tree()
}
pub fn show_tree(t: &Option<Vec<u64>>) -> String { match t { Some(v) => show_list(v), None => "conflict".into() } }
pub fn show_ids(v: &[usize]) -> String { show_list(&v.iter().map(|x| *x as u64).collect::<Vec<_>>()) }
pub fn bm_name(n: usize) -> String { format!("b{n}") }
pub fn ws_name(n: usize) -> WorkspaceNameBuf { WorkspaceNameBuf::from(format!("w{n}")) }
pub type Target = Vec<Option<usize>>;
pub fn to_ref_target(w: &World, t: &Target) -> RefTarget {
    RefTarget::from_merge(Merge::from_vec(t.iter().map(|x| x.map(|i| w.cid(i))).collect::<Vec<_>>()))
}
pub fn show_target(t: &Target) -> String { t.iter().map(|x| match x { Some(i) => i.to_string(), None => "x".into() }).collect::<Vec<_>>().join(",") }
pub fn read_target(w: &World, t: &RefTarget) -> Target {
    t.as_merge().iter().map(|x| x.as_ref().map(|c| w.id(c).unwrap_or(99_999))).collect()
}
pub fn show_view(w: &World, repo: &ReadonlyRepo) -> (String, String, String) {
    let mut hs: Vec<usize> = repo.view().heads().iter().map(|h| w.id(h).unwrap_or(99_999)).collect(); hs.sort();
    let bms: Vec<String> = repo.view().local_bookmarks().map(|(n, t)| format!("{}={}", &n.as_str()[1..], show_target(&read_target(w, t)))).collect();
    let wcs: Vec<String> = repo.view().wc_commit_ids().iter().map(|(n, c)| format!("{}={}", &n.as_str()[1..], w.id(c).unwrap_or(99_999))).collect();
    (show_ids(&hs), if bms.is_empty() { "-".into() } else { bms.join(";") }, if wcs.is_empty() { "-".into() } else { wcs.join(";") })
}
pub fn show_commit(w: &World, i: usize, preds: Option<&[CommitId]>) -> String {
    let c = &w.commits[i];
    let ps: Vec<usize> = w.parents[i].iter().map(|p| if *p == usize::MAX { 99_999 } else { *p }).collect();
    let pr: Vec<usize> = preds.unwrap_or(&[]).iter().map(|p| w.id(p).unwrap_or(99_999)).collect();
    format!("{}/{}/{}/{}/{}", show_ids(&ps), w.change(i), w.desc(i), show_tree(&tree_files(&c.tree())), show_ids(&pr))
}

#[derive(Clone, Debug, PartialEq)]
enum Rec { Rw(usize), Div(Vec<usize>), Ab(Vec<usize>) }

/// the graph "child → parent" plus "old → replacement" must stay acyclic (nobody may be rebased
/// onto something that will itself be rebased onto it)
fn acyclic(parents: &[Vec<usize>], recs: &BTreeMap<usize, Rec>) -> bool {
    let n = parents.len();
    let mut adj: Vec<Vec<usize>> = parents.iter().map(|p| p.iter().copied().filter(|x| *x != usize::MAX).collect()).collect();
    for (o, r) in recs { match r { Rec::Rw(x) => adj[*o].push(*x), Rec::Div(v) | Rec::Ab(v) => adj[*o].extend(v.iter().copied()) } }
    let mut state = vec![0u8; n];
    fn dfs(u: usize, adj: &[Vec<usize>], st: &mut [u8]) -> bool {
        st[u] = 1;
        for &v in &adj[u] { if st[v] == 1 { return false; } if st[v] == 0 && !dfs(v, adj, st) { return false; } }
        st[u] = 2; true
    }
    (0..n).all(|u| state[u] != 0 || dfs(u, &adj, &mut state))
}

fn pick_parents(r: &mut Rng, w: &World, upto: usize, forbid: &dyn Fn(usize) -> bool) -> Vec<usize> {
    let k = match r.below(20) { 0..=13 => 1, 14..=18 => 2, _ => 3 };
    let mut ps: Vec<usize> = vec![];
    for _ in 0..k {
        let c = if r.chance(1, 2) && upto > 0 { upto.saturating_sub(1 + r.below(2.min(upto))) } else { r.below(upto + 1) };
        if !ps.contains(&c) && !forbid(c) { ps.push(c); }
    }
    if ps.len() > 1 { ps.retain(|p| *p != 0); }
    if ps.is_empty() { let c = (0..=upto).rev().find(|c| !forbid(*c)).unwrap_or(0); ps.push(c); }
    let _ = w;
    ps
}

fn write_new(mr: &mut MutableRepo, w: &mut World, ps: &[usize], desc: u64, tree: &[u64]) -> usize {
    let t = make_tree(mr, tree);
    let c = mr.new_commit(ps.iter().map(|p| w.cid(*p)).collect(), t).set_description(desc_str(desc)).write().block_on().unwrap();
    w.add(c)
}
fn parent_base(mr: &MutableRepo, w: &World, ps: &[usize]) -> Vec<u64> {
    let cs: Vec<Commit> = ps.iter().map(|p| w.commits[*p].clone()).collect();
    tree_files(&merge_commit_trees(mr, &cs).block_on().unwrap()).unwrap_or_default()
}

/// Oracle failures are reported at most `PER_SIG` times per signature (the runtime records only the
/// first 25 failures in total; a frequent known class must not crowd out a new one).  Suppressed
/// repeats are tallied under `oracle_fail_repeats`.
const PER_SIG: u64 = 4;
thread_local! { static SIG_COUNT: std::cell::RefCell<HashMap<String, u64>> = std::cell::RefCell::new(HashMap::new()); }
pub fn fail_once(out: &mut Out, sig: &str, detail: String) {
    let n = SIG_COUNT.with(|m| { let mut m = m.borrow_mut(); let e = m.entry(sig.to_string()).or_insert(0); *e += 1; *e });
    if n <= PER_SIG { out.oracle_fail(sig, detail); } else { out.tally("oracle_fail_repeats", sig); }
}

struct Plan { malformed: bool, dup_rw: bool, any_div: bool, key_in_immutable: bool }

fn one(cfg: &Cfg, out: &mut Out, r: &mut Rng, size_cap: usize, test_repo: &TestRepo) {
    let _ = cfg;
    let repo0 = test_repo.repo.clone();
    let mut w = World::new(repo0.store().root_commit());
    // ---- transaction 1: the initial DAG, bookmarks, workspaces
    let n = r.range(1, size_cap);
    let mut tx = repo0.start_transaction();
    let mut commits_s = vec![];
    for i in 1..=n {
        let ps = pick_parents(r, &w, i - 1, &|_| false);
        let mut tree = parent_base(tx.repo_mut(), &w, &ps);
        let kind = r.below(10);
        if kind >= 3 { tree.push(i as u64); }
        if kind == 9 && tree.len() > 1 { let k = r.below(tree.len() - 1); tree.remove(k); }
        tree.sort();
        let desc = if r.chance(3, 10) { 0 } else { i as u64 };
        let id = write_new(tx.repo_mut(), &mut w, &ps, desc, &tree);
        assert_eq!(id, i);
        commits_s.push(format!("{}/{}/{}/{}", show_ids(&ps), i, desc, show_list(&tree)));
    }
    let rand_target = |r: &mut Rng, hi: usize| -> Target {
        if r.chance(17, 20) { vec![Some(r.range(if hi > 0 { 1 } else { 0 }, hi))] }
        else {
            let a = r.below(hi + 1); let b = r.below(hi + 1);
            let rem = if r.chance(1, 2) { None } else { Some(r.below(hi + 1)) };
            if a == b || rem == Some(a) || rem == Some(b) { vec![Some(a)] } else { vec![Some(a), rem, Some(b)] }
        }
    };
    for b in 1..=r.below(4) {
        let t = rand_target(r, n);
        tx.repo_mut().set_local_bookmark_target(RefName::new(&bm_name(b)), to_ref_target(&w, &t));
    }
    let nws = match r.below(10) { 0..=4 => 1, 5..=8 => 2, _ => 3 };
    for k in 1..=nws {
        let c = if r.chance(2, 3) { n.saturating_sub(r.below(2.min(n))).max(1) } else { r.range(1, n) };
        tx.repo_mut().set_wc_commit(ws_name(k), w.cid(c)).unwrap();
    }
    let base = tx.commit("init").block_on().unwrap();
    let (heads_s, bms_s, wcs_s) = show_view(&w, &base);

    // ---- transaction 2: rewrites
    let mut tx = base.start_transaction();
    let mut recs: BTreeMap<usize, Rec> = BTreeMap::new();
    let mut ops_s: Vec<String> = vec![];
    let mut plan = Plan { malformed: false, dup_rw: false, any_div: false, key_in_immutable: false };
    // immutable set: ancestors of one commit (or none)
    let immutable: Vec<usize> = if r.chance(1, 5) { let x = r.range(1, n); w.ancestors(&[x]).into_iter().collect() } else { vec![] };
    let nops = r.range(1, 5);
    let mut counter = 100u64;
    for _ in 0..nops {
        let cur = w.commits.len() - 1;
        let kind = r.below(100);
        let pick_old = |r: &mut Rng, recs: &BTreeMap<usize, Rec>, plan: &mut Plan| -> Option<usize> {
            for _ in 0..6 {
                let o = r.range(1, cur);
                if recs.contains_key(&o) && !r.chance(1, 8) { continue; }
                if immutable.contains(&o) { if r.chance(9, 10) { continue; } plan.key_in_immutable = true; }
                return Some(o);
            }
            None
        };
        counter += 1;
        if kind < 40 || (60..70).contains(&kind) {
            // rewrite (or divergent rewrite = two rewrites + record)
            let Some(o) = pick_old(r, &recs, &mut plan) else { continue };
            let copies = if (60..70).contains(&kind) { 2 + r.below(2) } else { 1 };
            let mut news = vec![];
            let had_record = recs.contains_key(&o);
            for _ in 0..copies {
                counter += 1;
                let old_ps = w.parents[o].clone();
                let ps = if r.chance(3, 5) { old_ps.clone() } else { pick_parents(r, &w, cur, &|c| w.is_anc(o, c)) };
                let mut trial = recs.clone(); trial.insert(o, Rec::Rw(w.commits.len()));
                let mut par = w.parents.clone(); par.push(ps.clone());
                if !acyclic(&par, &trial) { continue; }
                let old_tree = tree_files(&w.commits[o].tree()).unwrap_or_default();
                let mut tree = old_tree.clone();
                match r.below(20) {
                    0..=13 => {}
                    14..=16 => { // absorb the files of a descendant
                        if let Some(d) = (1..=cur).rev().find(|d| *d != o && w.is_anc(o, *d) && r.chance(1, 2)) {
                            for f in tree_files(&w.commits[d].tree()).unwrap_or_default() { if !tree.contains(&f) { tree.push(f); } } } }
                    17..=18 => tree.push(counter),
                    _ => { if !tree.is_empty() { let k = r.below(tree.len()); tree.remove(k); } }
                }
                tree.sort();
                let changed = ps != old_ps || tree != old_tree;
                // a second rewrite of the same commit always gets a unique description: two identical
                // commits written within one millisecond would collide ("already exists"), which would
                // make the run depend on timing
                let desc = match r.below(10) { _ if copies > 1 || recs.contains_key(&o) => counter,
                    0 if changed || w.desc(o) != 0 => 0, 1 | 2 if changed => w.desc(o), _ => counter };
                let t = make_tree(tx.repo_mut(), &tree);
                let res = guard(|| tx.repo_mut().rewrite_commit(&w.commits[o]).set_parents(ps.iter().map(|p| w.cid(*p)).collect())
                    .set_description(desc_str(desc)).set_tree(t).write().block_on());
                let Ok(Ok(c)) = res else { continue };
                let id = w.add(c);
                recs.insert(o, Rec::Rw(id));
                news.push(id);
                ops_s.push(format!("r:{o}:{}:{desc}:{}", show_ids(&ps), show_list(&tree)));
            }
            if copies > 1 && news.len() > 1 {
                let mut trial = recs.clone(); trial.insert(o, Rec::Div(news.clone()));
                if acyclic(&w.parents, &trial) {
                    tx.repo_mut().set_divergent_rewrite(w.cid(o), news.iter().map(|i| w.cid(*i)));
                    recs.insert(o, Rec::Div(news.clone()));
                    plan.any_div = true;
                    ops_s.push(format!("d:{o}:{}", show_ids(&news)));
                } else { plan.dup_rw = true; }
            }
            // a commit that already had a record and is rewritten again leaves its first rewrite visible
            if had_record && !news.is_empty() { plan.dup_rw = true; }
        } else if kind < 60 {
            let Some(o) = pick_old(r, &recs, &mut plan) else { continue };
            if let Some(Rec::Rw(_)) | Some(Rec::Div(_)) = recs.get(&o) { plan.dup_rw = true; }
            tx.repo_mut().record_abandoned_commit(&w.commits[o]);
            recs.insert(o, Rec::Ab(w.parents[o].clone()));
            ops_s.push(format!("a:{o}"));
        } else if kind < 80 {
            let ps = pick_parents(r, &w, cur, &|_| false);
            let mut tree = parent_base(tx.repo_mut(), &w, &ps);
            if r.chance(2, 3) { tree.push(counter); }
            let desc = if r.chance(1, 3) { 0 } else { counter };
            write_new(tx.repo_mut(), &mut w, &ps, desc, &tree);
            ops_s.push(format!("n:{}:{desc}:{}", show_ids(&ps), show_list(&tree)));
        } else if kind < 90 {
            let b = r.range(1, 3);
            let t = if r.chance(1, 8) { vec![None] } else { rand_target(r, cur) };
            tx.repo_mut().set_local_bookmark_target(RefName::new(&bm_name(b)), to_ref_target(&w, &t));
            ops_s.push(format!("b:{b}:{}", show_target(&t)));
        } else if kind < 96 {
            let k = r.range(1, 3); let c = r.range(1, cur);
            tx.repo_mut().set_wc_commit(ws_name(k), w.cid(c)).unwrap();
            ops_s.push(format!("w:{k}:{c}"));
        } else {
            // malformed: a raw rewrite record, possibly closing a cycle
            let a = r.range(1, cur); let b = r.range(1, cur);
            if a == b { continue; }
            tx.repo_mut().set_rewritten_commit(w.cid(a), w.cid(b));
            recs.insert(a, Rec::Rw(b));
            plan.malformed = true;
            ops_s.push(format!("s:{a}:{b}"));
            if r.chance(1, 2) { tx.repo_mut().set_rewritten_commit(w.cid(b), w.cid(a)); recs.insert(b, Rec::Rw(a)); ops_s.push(format!("s:{b}:{a}")); }
        }
    }
    let empty = r.below(3); let simplify = r.chance(1, 2); let delete = r.chance(1, 3);
    finish_case(out, w, tx, St { recs, plan, immutable, empty, simplify, delete, commits_s, heads_s, bms_s, wcs_s, ops_s, n });
}

struct St { recs: BTreeMap<usize, Rec>, plan: Plan, immutable: Vec<usize>, empty: usize, simplify: bool, delete: bool,
            commits_s: Vec<String>, heads_s: String, bms_s: String, wcs_s: String, ops_s: Vec<String>, n: usize }

/// runs `rebase_descendants_with_options` on the prepared transaction, records the case, evaluates the oracle
fn finish_case(out: &mut Out, mut w: World, mut tx: jj_lib::transaction::Transaction, st: St) {
    let St { recs, plan, immutable, empty, simplify, delete, commits_s, heads_s, bms_s, wcs_s, ops_s, n } = st;
    let options = RebaseOptions {
        empty: [EmptyBehavior::Keep, EmptyBehavior::AbandonNewlyEmpty, EmptyBehavior::AbandonAllEmpty][empty],
        rewrite_refs: RewriteRefsOptions { delete_abandoned_bookmarks: delete },
        simplify_ancestor_merge: simplify,
    };
    let req = format!("run {} {heads_s} {bms_s} {wcs_s} {} {empty},{},{} {}",
        if commits_s.is_empty() { "-".into() } else { commits_s.join(";") },
        if ops_s.is_empty() { "-".into() } else { ops_s.join(";") }, simplify as u8, delete as u8, show_ids(&immutable));
    // state before the rebase (for the oracle)
    let pre_bm: Vec<(String, Target)> = tx.repo().view().local_bookmarks().map(|(n, t)| (n.as_str().to_string(), read_target(&w, t))).collect();
    let pre_wc: Vec<(WorkspaceNameBuf, usize)> = tx.repo().view().wc_commit_ids().iter().map(|(n, c)| (n.clone(), w.id(c).unwrap())).collect();
    let n0 = w.commits.len();

    let imm_expr = RevsetExpression::commits(immutable.iter().map(|i| w.cid(*i)).collect());
    let mut steps: Vec<(Commit, RebasedCommit)> = vec![];
    let res = guard(|| tx.repo_mut().rebase_descendants_with_options(&imm_expr, &options, |o, n| steps.push((o, n))).block_on());
    out.tally("ops", &ops_s.len().to_string());
    out.tally("commits", &n.to_string());
    let resp = match res {
        Err(msg) => {
            let kind = if msg.contains("RewriteRootCommit") { "wc-edit-root" } else if msg.contains("new ids become empty") { "new-ids-empty" }
                else if msg.contains("graph has cycle") { "graph-cycle" } else { "other" };
            out.tally("result", &format!("panic:{kind}"));
            if !plan.malformed { fail_once(out, &format!("rewrite:panic-{kind}"), format!("{msg} | C11 {req}")); }
            "panic".to_string() }
        Ok(Err(e)) => { let s = e.to_string(); let k = if s.contains("Cycle") { "err:cycle" } else { "err:other" }; out.tally("result", k); k.to_string() }
        Ok(Ok(())) => {
            let mut steps_s = vec![];
            let mut step_recs: Vec<(usize, Option<usize>, usize)> = vec![]; // old, new, abandoned-onto
            for (o, nc) in &steps {
                let oi = w.id(o.id()).unwrap();
                match nc {
                    RebasedCommit::Rewritten(c) => { let ni = w.add(c.clone()); steps_s.push(format!("{oi}r{ni}")); step_recs.push((oi, Some(ni), 0)); }
                    RebasedCommit::Abandoned { parent_id } => { let p = w.id(parent_id).unwrap_or(99_999); steps_s.push(format!("{oi}a{p}")); step_recs.push((oi, None, p)); }
                }
            }
            let fin = match guard(|| tx.commit("c11").block_on()) { Ok(Ok(f)) => f, _ => { out.case(&req, "commit-failed"); out.oracle_fail("rewrite:commit-failed", req.clone()); return; } };
            for (_, c) in fin.view().wc_commit_ids() { if w.id(c).is_none() { let c = fin.store().get_commit(c).unwrap(); w.add(c); } }
            let news: Vec<String> = (n0..w.commits.len()).map(|i| show_commit(&w, i, fin.operation().predecessors_for_commit(w.commits[i].id()))).collect();
            let (h, b, wc) = show_view(&w, &fin);
            out.tally("result", "ok");
            out.tally("rebased", &steps.len().min(6).to_string());
            let resp = format!("ok steps={} new={} heads={h} bm={b} wc={wc}", if steps_s.is_empty() { "-".into() } else { steps_s.join(",") },
                if news.is_empty() { "-".into() } else { news.join(";") });
            oracle(out, &w, &fin, &plan, &recs, &step_recs, &immutable, &pre_bm, &pre_wc, delete, n0, &req);
            resp
        }
    };
    if !steps.is_empty() || recs.len() > 1 { out.nontrivial(&req); }
    if plan.malformed { out.tally("stream", "malformed"); } else { out.tally("stream", "valid"); }
    out.tally("empty_behavior", &empty.to_string());
    out.case(&req, &resp);
}

#[allow(clippy::too_many_arguments)]
fn oracle(out: &mut Out, w: &World, fin: &Arc<ReadonlyRepo>, plan: &Plan, recs: &BTreeMap<usize, Rec>, steps: &[(usize, Option<usize>, usize)],
          immutable: &[usize], pre_bm: &[(String, Target)], pre_wc: &[(WorkspaceNameBuf, usize)], delete: bool, n0: usize, req: &str) {
    if plan.malformed { out.oracle_ok(); return; }
    // final records: the harness' own + what the rebase reported
    let mut all: BTreeMap<usize, Rec> = recs.clone();
    for (o, n, p) in steps { all.insert(*o, match n { Some(n) => Rec::Rw(*n), None => Rec::Ab(vec![*p]) }); }
    let keys: BTreeSet<usize> = all.keys().copied().collect();
    let keys_nd: BTreeSet<usize> = all.iter().filter(|(_, r)| !matches!(r, Rec::Div(_))).map(|(k, _)| *k).collect();
    let heads: Vec<usize> = fin.view().heads().iter().map(|h| w.id(h).unwrap()).collect();
    let vis = w.ancestors(&heads);
    let mut fails: Vec<(&str, String)> = vec![];
    // (1) no orphans
    for h in &heads { if keys.contains(h) { fails.push(("rewrite:key-is-head", format!("head {h} was rewritten/abandoned"))); } }
    for v in &vis { if keys.contains(v) || immutable.contains(v) { continue; }
        for p in &w.parents[*v] { if keys_nd.contains(p) {
            // was `v` written by the rebase pass *before* the pass rewrote/abandoned its parent `p`?
            let made = steps.iter().position(|s| s.1 == Some(*v)); let hit = steps.iter().position(|s| s.0 == *p);
            let sig = match (made, hit) { (Some(i), Some(j)) if i < j => "rewrite:orphan-rebased-before-its-parent", _ => "rewrite:orphan" };
            fails.push((sig, format!("visible commit {v} has rewritten/abandoned parent {p}"))); } } }
    // (2) identity of rebased commits
    for (o, n, _) in steps { if let Some(n) = n {
        let preds: Vec<usize> = fin.operation().predecessors_for_commit(w.commits[*n].id()).unwrap_or(&[]).iter().map(|p| w.id(p).unwrap_or(99_999)).collect();
        if w.change(*o) != w.change(*n) || w.commits[*o].description() != w.commits[*n].description() || preds != vec![*o] {
            fails.push(("rewrite:identity-lost", format!("rebased {o}->{n}: change {}->{}, preds {preds:?}", w.change(*o), w.change(*n)))); } } }
    // resolution of an old id through the records
    fn resolve(all: &BTreeMap<usize, Rec>, i: usize, depth: usize, div: &mut bool, out: &mut Vec<usize>) {
        if depth > 64 { return; }
        match all.get(&i) {
            None => { if !out.contains(&i) { out.push(i); } }
            Some(Rec::Rw(n)) => resolve(all, *n, depth + 1, div, out),
            Some(Rec::Ab(ps)) => for p in ps { resolve(all, *p, depth + 1, div, out) },
            Some(Rec::Div(ns)) => { *div = true; for n in ns { resolve(all, *n, depth + 1, div, out) } }
        }
    }
    // (3) bookmarks follow
    for (name, t) in pre_bm {
        let got = read_target(w, fin.view().get_local_bookmark(RefName::new(name)));
        if let [Some(o)] = t.as_slice() {
            let mut div = false; let mut rs = vec![]; resolve(&all, *o, 0, &mut div, &mut rs);
            match all.get(o) {
                None => if got != *t { fails.push(("rewrite:bookmark-moved", format!("{name} at untouched {o} became {got:?}"))); },
                Some(Rec::Ab(_)) if delete => if got != vec![None] { fails.push(("rewrite:bookmark-not-deleted", format!("{name} at abandoned {o} became {got:?}"))); },
                Some(_) if !div && rs.len() == 1 => { let through_ab = got == vec![None] && delete;
                    if got != vec![Some(rs[0])] && !through_ab { fails.push(("rewrite:bookmark-not-following", format!("{name} at {o} should be at {} but is {got:?}", rs[0]))); } }
                Some(_) => for a in got.iter().step_by(2).flatten() { if !rs.contains(a) && !(delete) { fails.push(("rewrite:bookmark-not-following", format!("{name} at {o}: add {a} not among {rs:?}"))); } },
            }
        }
        for a in got.iter().step_by(2).flatten() { if !vis.contains(a) { fails.push(("rewrite:bookmark-hidden", format!("{name} points at hidden {a}"))); } }
    }
    // (4) working copies follow
    let nws = pre_wc.len();
    for (ws, o) in pre_wc {
        let Some(got) = fin.view().get_wc_commit_id(ws).map(|c| w.id(c).unwrap()) else { fails.push(("rewrite:wc-lost", format!("{ws:?} removed"))); continue };
        let mut div = false; let mut rs = vec![]; resolve(&all, *o, 0, &mut div, &mut rs);
        match all.get(o) {
            None => if got != *o { fails.push(("rewrite:wc-moved", format!("{ws:?} at untouched {o} became {got}"))); },
            Some(Rec::Ab(_)) => { let mut ps = w.parents[got].clone(); ps.sort(); let mut e = rs.clone(); e.sort();
                if got < n0 || ps != e || !w.commits[got].description().is_empty() || w.change(got) != got {
                    fails.push(("rewrite:wc-abandoned-not-recreated", format!("{ws:?} at abandoned {o}: now {got} parents {ps:?}, expected new commit on {e:?}"))); } }
            Some(_) => if !rs.contains(&got) {
                // three workspaces on one discardable commit: the third gets a fresh commit on the rewrite (documented quirk of edit())
                let on_rewrite = nws >= 3 && got >= n0 && w.parents[got].iter().all(|p| rs.contains(p));
                fails.push((if on_rewrite { "rewrite:wc-third-workspace-recreated" } else { "rewrite:wc-not-following" }, format!("{ws:?} at {o}: now {got}, rewrites {rs:?}"))); },
        }
    }
    // (5) visible change ids unique
    if !plan.any_div && !plan.dup_rw && !plan.key_in_immutable {
        let mut seen: BTreeMap<usize, usize> = BTreeMap::new();
        for v in &vis { if let Some(prev) = seen.insert(w.change(*v), *v) { fails.push(("rewrite:duplicate-change-id", format!("visible {prev} and {v} share change {}", w.change(*v)))); } }
    }
    if fails.is_empty() { out.oracle_ok(); } else { let (sig, d) = &fails[0]; fail_once(out, sig, format!("{d} | all: {:?} | C11 {req}", fails.iter().map(|f| f.0).collect::<Vec<_>>())); }
}

/// Executes a request line (same syntax as the generated ones) on the real code: used for the fixed
/// regression scenarios below.
fn scripted(out: &mut Out, test_repo: &TestRepo, req: &str) {
    let tok: Vec<&str> = req.split(' ').collect();
    assert!(tok.len() == 8 && tok[0] == "run");
    let list = |s: &str| -> Vec<usize> { if s == "-" { vec![] } else { s.split(',').map(|x| x.parse().unwrap()).collect() } };
    let listu = |s: &str| -> Vec<u64> { if s == "-" { vec![] } else { s.split(',').map(|x| x.parse().unwrap()).collect() } };
    let target = |s: &str| -> Target { s.split(',').map(|x| if x == "x" { None } else { Some(x.parse().unwrap()) }).collect() };
    let items = |s: &str| -> Vec<String> { if s == "-" { vec![] } else { s.split(';').map(|x| x.to_string()).collect() } };
    let repo0 = test_repo.repo.clone();
    let mut w = World::new(repo0.store().root_commit());
    let mut tx = repo0.start_transaction();
    let commits_s = items(tok[1]);
    for c in &commits_s { let f: Vec<&str> = c.split('/').collect(); write_new(tx.repo_mut(), &mut w, &list(f[0]), f[2].parse().unwrap(), &listu(f[3])); }
    for b in items(tok[3]) { let (n, t) = b.split_once('=').unwrap(); tx.repo_mut().set_local_bookmark_target(RefName::new(&bm_name(n.parse().unwrap())), to_ref_target(&w, &target(t))); }
    for x in items(tok[4]) { let (n, c) = x.split_once('=').unwrap(); tx.repo_mut().set_wc_commit(ws_name(n.parse().unwrap()), w.cid(c.parse().unwrap())).unwrap(); }
    let base = tx.commit("init").block_on().unwrap();
    let (heads_s, bms_s, wcs_s) = show_view(&w, &base);
    assert_eq!(heads_s, tok[2]);
    let mut tx = base.start_transaction();
    let mut recs: BTreeMap<usize, Rec> = BTreeMap::new();
    let mut plan = Plan { malformed: false, dup_rw: false, any_div: false, key_in_immutable: false };
    let ops_s = items(tok[5]);
    for op in &ops_s {
        let f: Vec<&str> = op.split(':').collect();
        match f[0] {
            "n" => { write_new(tx.repo_mut(), &mut w, &list(f[1]), f[2].parse().unwrap(), &listu(f[3])); }
            "r" => { let o: usize = f[1].parse().unwrap(); let t = make_tree(tx.repo_mut(), &listu(f[4]));
                if recs.contains_key(&o) { plan.dup_rw = true; }
                let c = tx.repo_mut().rewrite_commit(&w.commits[o]).set_parents(list(f[2]).iter().map(|p| w.cid(*p)).collect())
                    .set_description(desc_str(f[3].parse().unwrap())).set_tree(t).write().block_on().unwrap();
                let id = w.add(c); recs.insert(o, Rec::Rw(id)); }
            "a" => { let o: usize = f[1].parse().unwrap(); tx.repo_mut().record_abandoned_commit(&w.commits[o]); recs.insert(o, Rec::Ab(w.parents[o].clone())); }
            "d" => { let o: usize = f[1].parse().unwrap(); let ns = list(f[2]); tx.repo_mut().set_divergent_rewrite(w.cid(o), ns.iter().map(|i| w.cid(*i)));
                recs.insert(o, Rec::Div(ns)); plan.any_div = true; plan.dup_rw = false; }
            "s" => { let o: usize = f[1].parse().unwrap(); let nn: usize = f[2].parse().unwrap(); tx.repo_mut().set_rewritten_commit(w.cid(o), w.cid(nn)); recs.insert(o, Rec::Rw(nn)); plan.malformed = true; }
            "b" => { tx.repo_mut().set_local_bookmark_target(RefName::new(&bm_name(f[1].parse().unwrap())), to_ref_target(&w, &target(f[2]))); }
            "w" => { tx.repo_mut().set_wc_commit(ws_name(f[1].parse().unwrap()), w.cid(f[2].parse().unwrap())).unwrap(); }
            _ => panic!("bad script op {op}"),
        }
    }
    let o: Vec<usize> = list(tok[6]);
    let n = commits_s.len();
    plan.key_in_immutable = tok[7] != "-";
    finish_case(out, w, tx, St { recs, plan, immutable: list(tok[7]), empty: o[0], simplify: o[1] != 0, delete: o[2] != 0, commits_s, heads_s, bms_s, wcs_s, ops_s, n });
}

/// Fixed scenarios run before the random stream: the textbook cases of the property and the minimal
/// reproducers of the two known findings.
const FIXED: &[&str] = &[
    // rewrite the middle of a chain: descendant rebased, bookmark and working copy follow
    "run 0/1/1/1;1/2/2/1,2;2/3/3/1,2,3 3 1=2;2=3 1=3 r:2:1:102:1,2 0,0,0 -",
    // abandon the middle of a chain: child rebased onto the grandparent, bookmark moves to the parent / is deleted
    "run 0/1/1/1;1/2/2/1,2;2/3/3/1,2,3 3 1=2 1=3 a:2 0,0,0 -",
    "run 0/1/1/1;1/2/2/1,2;2/3/3/1,2,3 3 1=2 1=3 a:2 0,0,1 -",
    // working copy on an abandoned commit: recreated on the parent
    "run 0/1/1/1;1/2/2/1,2 2 - 1=2;2=2 a:2 0,0,0 -",
    // divergent rewrite: bookmark becomes conflicted, descendants stay
    "run 0/1/1/1;1/2/2/1,2 2 1=1 1=2 r:1:0:101:1;r:1:0:102:1;d:1:3,4 0,0,0 -",
    // rebased commit becomes empty: the three empty behaviours
    "run 0/1/1/1;1/2/2/1,2 2 - 1=2 r:1:0:101:1,2 0,0,0 -",
    "run 0/1/1/1;1/2/2/1,2 2 - 1=2 r:1:0:101:1,2 1,0,0 -",
    "run 0/1/1/1;1/2/2/1,2 2 - 1=2 r:1:0:101:1,2 2,0,0 -",
    // merge whose parents collapse: simplify_ancestor_merge off / on
    "run 0/1/1/1;1/2/2/1,2;1,2/3/3/1,2,3 3 - 1=3 r:2:0:102:2 0,0,0 -",
    "run 0/1/1/1;0/2/2/2;1,2/3/3/1,2,3 3 - 1=3 r:2:1:102:1,2 0,1,0 -",
    // immutable child of a rewritten commit stays
    "run 0/1/1/1;1/2/2/1,2;2/3/3/1,2,3 3 - 1=3 r:1:0:101:1 0,0,0 2",
    // KNOWN FINDING rewrite:orphan-rebased-before-its-parent — 1←2←3; 1→4; 2→5→6 (both still on 1):
    // 3 is rebased onto 6 before 6 itself is rebased onto 4
    "run 0/1/1/1;1/2/2/1,2;2/3/3/1,2,3 3 - - r:1:0:101:1;r:2:1:102:1,2;r:5:1:103:1,2 0,0,0 -",
    // KNOWN FINDING rewrite:panic-wc-edit-root — working copy on 1; 1→2, then 2 abandoned (parent = root)
    "run 0/1/1/1 1 - 1=1 r:1:0:102:-;a:2 0,0,0 -",
];

pub fn use_fast_tmp() {
    // the test repositories fsync every object; on a disk-backed /tmp that is 95 % of the run time
    if std::env::var_os("TMPDIR").is_none() && std::fs::metadata("/dev/shm").map(|m| m.is_dir()).unwrap_or(false) {
        // SAFETY: single-threaded at this point
        unsafe { std::env::set_var("TMPDIR", "/dev/shm"); }
    }
}

pub fn run(cfg: &Cfg, out: &mut Out) {
    use_fast_tmp();
    let mut r = cfg.rng(11);
    let total = cfg.n(2000, 40_000);
    let mut test_repo = TestRepo::init();
    for f in FIXED { scripted(out, &test_repo, f); }
    for k in 0..total {
        // sizes grow: the first disagreement is near-minimal
        let cap = if k < total / 10 { 3 } else if k < total / 3 { 5 } else { 9 };
        // a fresh repository every 64 cases; every case starts from the root operation, so its
        // index (= the numbering of its commits) is independent of the earlier cases
        if k % 64 == 0 { test_repo = TestRepo::init(); }
        one(cfg, out, &mut r, cap, &test_repo);
    }
    out.note("random DAGs (≤9 commits) × rewrite/abandon/divergent/new/bookmark/wc ops × 3 empty behaviours × simplify × delete-abandoned × optional immutable set; ~4% malformed (raw records, cycles)".into());
}
