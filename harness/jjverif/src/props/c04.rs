//! C04 — file content merge obeys the merge identity laws.
//!
//! Implementation under test: `jj_lib::files::{merge_hunks, merge, try_merge}` for both
//! `FileMergeHunkLevel`s and both `SameChange` settings.
//! Request `merge <line|word> <keep|accept> <hex>;<hex>;…` (interleaved terms of the `Merge`),
//! answer `hunks=… merge=… try=…` (see `lean/JjModel/Drv/C04.lean`).
//!
//! Oracle (property text; independent of the model):
//!  * identity: if the signed-count cancellation rule on the *whole contents* (a side cancels an equal
//!    base; with `accept`, all remaining sides equal `v` against one remaining base value) leaves the
//!    single side `v`, then `merge = resolved(v)`, `try_merge = Some(v)`, `merge_hunks = Resolved(v)`.
//!    This covers `[a,b,b] → a`, `[b,b,a] → a`, `[a,a,a] → a`, and identical sides under `accept`.
//!  * shape: `merge` is resolved or has exactly the input arity; the three entry points agree
//!    (`try_merge = Some(c)` ⇔ `merge = resolved(c)` ⇔ `merge_hunks = Resolved(c)`);
//!    a `Conflict` has at least one unresolved hunk, every hunk is resolved or has the input arity,
//!    resolved hunks are non-empty and never adjacent, and concatenating the hunks per term
//!    (resolved ones copied to every term) gives the `merge` result;
//!  * order: the k-th terms of the unresolved hunks occur in input term k as disjoint substrings in
//!    the same order.
use crate::rt::*;
use bstr::BString;
use jj_lib::files::{self, FileMergeHunkLevel, MergeResult};
use jj_lib::merge::{Merge, SameChange};
use jj_lib::tree_merge::MergeOptions;
use std::collections::BTreeMap;

fn spec(vs: &[Vec<u8>], accept: bool) -> Option<Vec<u8>> {
    let mut c: BTreeMap<&[u8], i64> = BTreeMap::new();
    for (i, v) in vs.iter().enumerate() { *c.entry(v).or_default() += if i % 2 == 0 { 1 } else { -1 }; }
    let nz: Vec<(&[u8], i64)> = c.into_iter().filter(|(_, n)| *n != 0).collect();
    match nz.as_slice() {
        [(v, 1)] => Some(v.to_vec()),
        [(a, x), (b, y)] if accept => if *x > 0 && *y < 0 { Some(a.to_vec()) } else if *y > 0 && *x < 0 { Some(b.to_vec()) } else { None },
        _ => None,
    }
}

fn show_terms<T: AsRef<[u8]>>(ts: impl IntoIterator<Item = T>) -> String {
    ts.into_iter().map(|t| hex(t.as_ref())).collect::<Vec<_>>().join(",")
}

/// leftmost embedding of `parts` as disjoint substrings of `text`, in order
fn embeds_in_order(text: &[u8], parts: &[&[u8]]) -> bool {
    let mut pos = 0;
    for p in parts {
        if p.is_empty() { continue; }
        match text[pos..].windows(p.len()).position(|w| w == *p) { Some(i) => pos += i + p.len(), None => return false }
    }
    true
}

fn one(out: &mut Out, terms: &[Vec<u8>], word: bool, accept: bool, family: &str) {
    let opts = MergeOptions {
        hunk_level: if word { FileMergeHunkLevel::Word } else { FileMergeHunkLevel::Line },
        same_change: if accept { SameChange::Accept } else { SameChange::Keep },
    };
    let req = format!("merge {} {} {}", if word { "word" } else { "line" }, if accept { "accept" } else { "keep" },
        terms.iter().map(|t| hex(t)).collect::<Vec<_>>().join(";"));
    let got = guard(|| {
        let m = Merge::from_vec(terms.iter().map(|t| BString::from(t.clone())).collect::<Vec<_>>());
        (files::merge_hunks(&m, &opts), files::merge(&m, &opts), files::try_merge(&m, &opts))
    });
    out.tally("family", family);
    out.tally("arity", &terms.len().to_string());
    out.tally("options", &format!("{}/{}", if word { "word" } else { "line" }, if accept { "accept" } else { "keep" }));
    let (mh, mg, tm) = match got {
        Ok(x) => x,
        Err(e) => { out.case(&req, "panic"); out.oracle_fail("filemerge:panic", format!("{req}: {e}")); return; }
    };
    let hs = match &mh {
        MergeResult::Resolved(c) => format!("R:{}", hex(c)),
        MergeResult::Conflict(hs) => format!("C:{}", hs.iter().map(|h| show_terms(h.iter())).collect::<Vec<_>>().join("|")),
    };
    let ts = match &tm { Some(c) => format!("some:{}", hex(c)), None => "none".into() };
    // ` sre=1`: the Lean driver prints whether the hypothesis of the identity theorem holds for the model's diff
    out.case(&req, &format!("hunks={} merge={} try={} sre=1", hs, show_terms(mg.iter()), ts));
    out.tally("result", if mg.is_resolved() { "resolved" } else { "conflict" });
    let distinct = terms.iter().collect::<std::collections::BTreeSet<_>>().len();
    if terms.len() >= 3 && distinct >= 2 { out.nontrivial((terms.to_vec(), word, accept)); }

    let desc = || format!("{req} terms={:?} -> {hs} / merge={:?} / try={:?}",
        terms.iter().map(|t| String::from_utf8_lossy(t).into_owned()).collect::<Vec<_>>(), mg, tm);
    // identity laws
    if let Some(v) = spec(terms, accept) {
        out.tally("identity-law", "applies");
        if mg.as_resolved().map(|c| c.as_slice()) != Some(&v[..]) || tm.as_ref().map(|c| c.as_slice()) != Some(&v[..])
            || mh != MergeResult::Resolved(BString::from(v.clone())) {
            return out.oracle_fail("filemerge:identity-law", format!("cancellation leaves {:?} — {}", String::from_utf8_lossy(&v), desc()));
        }
    } else {
        out.tally("identity-law", "n/a");
    }
    // shape and agreement of the entry points
    let n = terms.len();
    let mglen = mg.iter().count();
    if !(mglen == 1 || mglen == n) { return out.oracle_fail("filemerge:arity", desc()); }
    match (&mh, mg.as_resolved(), &tm) {
        (MergeResult::Resolved(a), Some(b), Some(c)) if a == b && b == c => {}
        (MergeResult::Conflict(hunks), None, None) => {
            let unresolved: Vec<&Merge<BString>> = hunks.iter().filter(|h| !h.is_resolved()).collect();
            if unresolved.is_empty() { return out.oracle_fail("filemerge:conflict-without-conflict", desc()); }
            if unresolved.iter().any(|h| h.iter().count() != n) { return out.oracle_fail("filemerge:arity", desc()); }
            if hunks.iter().any(|h| h.as_resolved().is_some_and(|c| c.is_empty()))
                || hunks.windows(2).any(|w| w[0].is_resolved() && w[1].is_resolved()) {
                return out.oracle_fail("filemerge:hunk-structure", desc());
            }
            for k in 0..n {
                let cat: Vec<u8> = hunks.iter().flat_map(|h| match h.as_resolved() { Some(c) => c.to_vec(), None => h.iter().nth(k).unwrap().to_vec() }).collect();
                if Some(&cat[..]) != mg.iter().nth(k).map(|c| c.as_slice()) {
                    return out.oracle_fail("filemerge:hunks-vs-merge", format!("term {k} — {}", desc()));
                }
                let parts: Vec<&[u8]> = unresolved.iter().map(|h| h.iter().nth(k).unwrap().as_slice()).collect();
                if !embeds_in_order(&terms[k], &parts) {
                    return out.oracle_fail("filemerge:order", format!("term {k} — {}", desc()));
                }
            }
        }
        _ => return out.oracle_fail("filemerge:entry-points-disagree", desc()),
    }
    out.oracle_ok();
}

const LINES: &[&[u8]] = &[b"a\n", b"b\n", b"c\n", b"a b\n", b"a c\n", b"\n", b"b\r\n", b"x y z\n", b"x q z\n", b"\x00\xff\n", b"a  b\n", b"d\n"];

fn gen_lines(r: &mut Rng, pool: usize, max: usize) -> Vec<Vec<u8>> {
    (0..r.below(max + 1)).map(|_| LINES[r.below(pool)].to_vec()).collect()
}
fn mutate(r: &mut Rng, base: &[Vec<u8>], pool: usize) -> Vec<Vec<u8>> {
    let mut v = base.to_vec();
    for _ in 0..r.below(3) {
        match r.below(4) {
            0 if !v.is_empty() => { let i = r.below(v.len()); v.remove(i); }
            1 => { let i = r.below(v.len() + 1); v.insert(i, LINES[r.below(pool)].to_vec()); }
            2 if !v.is_empty() => { let i = r.below(v.len()); v[i] = LINES[r.below(pool)].to_vec(); }
            3 if v.len() >= 2 => { let i = r.below(v.len() - 1); v.swap(i, i + 1); }
            _ => {}
        }
    }
    v
}
fn join(r: &mut Rng, lines: &[Vec<u8>]) -> Vec<u8> {
    let mut t = lines.concat();
    if r.chance(1, 6) { t.extend_from_slice(*r.pick(&[&b"a"[..], b"b c", b"\xfe", b" "])); }
    else if r.chance(1, 10) && t.last() == Some(&b'\n') { t.pop(); }
    t
}

pub fn run(cfg: &Cfg, out: &mut Out) {
    // 1. exhaustive: all 3-term merges over the texts with ≤ 2 lines from {a, b, "a b"} (+ one unterminated variant)
    let pool: Vec<&[u8]> = vec![b"a\n", b"b\n", b"a b\n"];
    let mut texts: Vec<Vec<u8>> = vec![vec![], b"a".to_vec()];
    for x in &pool { texts.push(x.to_vec()); for y in &pool { texts.push([*x, *y].concat()); } }
    for a in &texts { for b in &texts { for c in &texts {
        for (word, accept) in [(false, false), (true, true)] {
            one(out, &[a.clone(), b.clone(), c.clone()], word, accept, "exhaustive-3");
        }
    } } }
    out.note(format!("exhaustive: all 3-term merges over {} texts (≤ 2 lines from a 3-line pool) × {{line/keep, word/accept}}", texts.len()));

    // 2. random 3/5/7-term merges whose terms are mutations of a common ancestor
    let mut r = cfg.rng(5);
    for _ in 0..cfg.n(60_000, 800_000) {
        let pool = *r.pick(&[3usize, 5, 9, LINES.len()]);
        let n = *r.pick(&[3usize, 3, 3, 5, 5, 7]);
        let base = gen_lines(&mut r, pool, 7);
        let mut texts: Vec<Vec<u8>> = vec![];
        for _ in 0..n {
            let l = if r.chance(1, 12) { gen_lines(&mut r, pool, 7) } else { mutate(&mut r, &base, pool) };
            texts.push(join(&mut r, &l));
        }
        // make cancellations likely: copy terms around
        for _ in 0..r.below(3) { let (i, j) = (r.below(n), r.below(n)); texts[i] = texts[j].clone(); }
        one(out, &texts, r.chance(1, 2), r.chance(1, 2), "random");
    }

    // 3. the identity laws themselves, on random contents
    let mut r = cfg.rng(6);
    for _ in 0..cfg.n(15_000, 200_000) {
        let pool = *r.pick(&[3usize, 6, LINES.len()]);
        let la = gen_lines(&mut r, pool, 8);
        let a = join(&mut r, &la);
        let lb = if r.chance(2, 3) { mutate(&mut r, &la, pool) } else { gen_lines(&mut r, pool, 8) };
        let b = join(&mut r, &lb);
        let lc = mutate(&mut r, &lb, pool);
        let c = join(&mut r, &lc);
        let (word, accept) = (r.chance(1, 2), r.chance(1, 2));
        let shapes: [Vec<&Vec<u8>>; 8] = [
            vec![&a, &b, &b], vec![&b, &b, &a], vec![&a, &b, &a], vec![&a, &a, &a],
            vec![&a, &b, &b, &c, &c], vec![&c, &c, &b, &b, &a], vec![&b, &c, &a, &b, &c], vec![&a, &b, &a, &b, &a],
        ];
        let s = &shapes[r.below(shapes.len())];
        let terms: Vec<Vec<u8>> = s.iter().map(|t| (*t).clone()).collect();
        one(out, &terms, word, accept, "identity-shapes");
    }

    // 4. long repetitions (> 100 equal lines): the histogram gives up / caps, identity laws must still hold
    let mut r = cfg.rng(7);
    for _ in 0..cfg.n(300, 3000) {
        let mk = |r: &mut Rng| {
            let mut lines: Vec<Vec<u8>> = vec![b"a\n".to_vec(); r.range(98, 112)];
            for _ in 0..r.below(3) { let i = r.below(lines.len() + 1); lines.insert(i, LINES[r.below(5)].to_vec()); }
            lines.concat()
        };
        let a = mk(&mut r); let b = mk(&mut r); let c = mk(&mut r);
        let terms = match r.below(4) { 0 => vec![a.clone(), b.clone(), b.clone()], 1 => vec![b.clone(), b.clone(), a.clone()], 2 => vec![a.clone(), b.clone(), c.clone()], _ => vec![a.clone(), b.clone(), b.clone(), c.clone(), c.clone()] };
        one(out, &terms, r.chance(1, 3), r.chance(1, 2), "long-repeats");
    }
}
