//! Shared by c34.rs and c45.rs (included with `#[path]`): commit pool, canonical printing of the
//! jj view and of Git ref stores in the line protocol of `lean/JjModel/Drv/GitSyncIO.lean`.
#![allow(dead_code)]
use jj_lib::backend::CommitId;
use jj_lib::object_id::ObjectId as _;
use jj_lib::op_store::{RefTarget, RemoteRef};
use jj_lib::view::View;
use std::collections::HashMap;

/// Commits by small number: 0 = jj's root commit, 1.. = pool commits.
pub struct Pool {
    pub ids: Vec<CommitId>,
    pub num: HashMap<CommitId, usize>,
    /// parents[i] as numbers (parents[0] empty; a parentless commit has [0])
    pub parents: Vec<Vec<usize>>,
}

impl Pool {
    pub fn new(root: CommitId) -> Self {
        let mut num = HashMap::new();
        num.insert(root.clone(), 0);
        Pool { ids: vec![root], num, parents: vec![vec![]] }
    }
    pub fn add(&mut self, id: CommitId, parents: Vec<usize>) -> usize {
        let k = self.ids.len();
        self.num.insert(id.clone(), k);
        self.ids.push(id);
        self.parents.push(parents);
        k
    }
    pub fn len(&self) -> usize { self.ids.len() }
    pub fn is_ancestor(&self, a: usize, b: usize) -> bool {
        a == b || self.parents[b].iter().any(|&p| self.is_ancestor(a, p))
    }
    pub fn oid(&self, k: usize) -> gix::ObjectId { gix::ObjectId::from_bytes_or_panic(self.ids[k].as_bytes()) }
    pub fn of_oid(&self, oid: &gix::oid) -> Option<usize> { self.num.get(&CommitId::from_bytes(oid.as_bytes())).copied() }
    pub fn dag(&self) -> String {
        self.parents.iter().map(|p| if p.is_empty() { "-".to_string() } else { p.iter().map(|x| x.to_string()).collect::<Vec<_>>().join(",") })
            .collect::<Vec<_>>().join(";")
    }
    pub fn target(&self, t: &[Option<usize>]) -> RefTarget {
        RefTarget::from_merge(jj_lib::merge::Merge::from_vec(t.iter().map(|o| o.map(|k| self.ids[k].clone())).collect::<Vec<_>>()))
    }
}

pub fn bname(n: usize) -> String { format!("n{n}") }
pub fn parse_bname(s: &str) -> Option<usize> { s.strip_prefix('n')?.parse().ok() }
pub fn rname(r: usize) -> &'static str { if r == 0 { "git" } else { "origin" } }
pub fn parse_rname(s: &str) -> Option<usize> { match s { "git" => Some(0), "origin" => Some(1), _ => None } }
pub fn git_ref_name(n: usize, r: usize) -> String {
    if r == 0 { format!("refs/heads/{}", bname(n)) } else { format!("refs/remotes/{}/{}", rname(r), bname(n)) }
}
pub fn parse_git_ref_name(s: &str) -> Option<(usize, usize)> {
    if let Some(n) = s.strip_prefix("refs/heads/") { Some((parse_bname(n)?, 0)) }
    else if let Some(rest) = s.strip_prefix("refs/remotes/") { let (r, n) = rest.split_once('/')?; Some((parse_bname(n)?, parse_rname(r)?)) }
    else { None }
}

pub fn terms(pool: &Pool, t: &RefTarget) -> Vec<Option<usize>> {
    t.as_merge().iter().map(|o| o.as_ref().map(|id| *pool.num.get(id).unwrap_or(&999))).collect()
}
pub fn show_terms(t: &[Option<usize>]) -> String {
    t.iter().map(|o| match o { None => "x".to_string(), Some(k) => k.to_string() }).collect::<Vec<_>>().join(".")
}
pub fn show_target(pool: &Pool, t: &RefTarget) -> String { show_terms(&terms(pool, t)) }
fn join(v: Vec<String>) -> String { if v.is_empty() { "-".into() } else { v.join(",") } }

/// observed jj view restricted to bookmarks: (locals, remotes, git_refs) keyed by numbers
#[derive(Clone, PartialEq, Eq, Debug, Default)]
pub struct Snap {
    pub locals: Vec<(usize, Vec<Option<usize>>)>,
    pub remotes: Vec<((usize, usize), Vec<Option<usize>>, bool)>,
    pub git_refs: Vec<((usize, usize), Vec<Option<usize>>)>,
}

impl Snap {
    pub fn of(pool: &Pool, view: &View) -> Snap {
        let mut s = Snap::default();
        for (name, t) in view.local_bookmarks() {
            s.locals.push((parse_bname(name.as_str()).unwrap_or(99), terms(pool, t)));
        }
        for (sym, rr) in view.all_remote_bookmarks() {
            let rr: &RemoteRef = rr;
            s.remotes.push(((parse_bname(sym.name.as_str()).unwrap_or(99), parse_rname(sym.remote.as_str()).unwrap_or(9)), terms(pool, &rr.target), rr.is_tracked()));
        }
        for (name, t) in view.git_refs() {
            s.git_refs.push((parse_git_ref_name(name.as_str()).unwrap_or((99, 9)), terms(pool, t)));
        }
        s.locals.sort(); s.remotes.sort(); s.git_refs.sort();
        s
    }
    pub fn local(&self, n: usize) -> Vec<Option<usize>> {
        self.locals.iter().find(|e| e.0 == n).map(|e| e.1.clone()).unwrap_or(vec![None])
    }
    pub fn remote(&self, k: (usize, usize)) -> (Vec<Option<usize>>, bool) {
        self.remotes.iter().find(|e| e.0 == k).map(|e| (e.1.clone(), e.2)).unwrap_or((vec![None], false))
    }
    pub fn git_ref(&self, k: (usize, usize)) -> Vec<Option<usize>> {
        self.git_refs.iter().find(|e| e.0 == k).map(|e| e.1.clone()).unwrap_or(vec![None])
    }
    pub fn show(&self) -> String {
        format!("{} {} {}",
            join(self.locals.iter().map(|(n, t)| format!("{n}={}", show_terms(t))).collect()),
            join(self.remotes.iter().map(|((n, r), t, tr)| format!("{n}@{r}={}:{}", show_terms(t), if *tr { "T" } else { "N" })).collect()),
            join(self.git_refs.iter().map(|((n, r), t)| format!("{n}@{r}={}", show_terms(t))).collect()))
    }
}

/// branch refs (refs/heads/*, refs/remotes/*/*) of a Git repository as numbers, sorted by key
pub fn git_refs_of(pool: &Pool, repo: &gix::Repository) -> Vec<((usize, usize), usize)> {
    let mut out = vec![];
    let platform = repo.references().unwrap();
    for r in platform.local_branches().unwrap().chain(platform.remote_branches().unwrap()) {
        let r = r.unwrap();
        let name = r.name().as_bstr().to_string();
        let Some(key) = parse_git_ref_name(&name) else { continue };
        let Some(id) = r.target().try_id().map(|i| i.to_owned()) else { continue };
        out.push((key, pool.of_oid(&id).unwrap_or(999)));
    }
    out.sort();
    out
}
pub fn show_git(g: &[((usize, usize), usize)]) -> String {
    join(g.iter().map(|((n, r), c)| format!("{n}@{r}={c}")).collect())
}
pub fn git_get(g: &[((usize, usize), usize)], k: (usize, usize)) -> Option<usize> { g.iter().find(|e| e.0 == k).map(|e| e.1) }

pub fn set_git_ref(repo: &gix::Repository, name: &str, oid: Option<gix::ObjectId>) {
    match oid {
        Some(oid) => { repo.reference(name, oid, gix::refs::transaction::PreviousValue::Any, "verif").unwrap(); }
        None => { if let Ok(r) = repo.find_reference(name) { r.delete().unwrap(); } }
    }
}
