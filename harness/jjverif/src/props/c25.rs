//! C25 — checkout never destroys files it does not own.
//! Real `TestWorkspace`s: a tree is checked out, then obstacles are planted (untracked files,
//! directories and symlinks at paths the next tree wants, files and symlinks where the next tree
//! wants a directory, symlinks to an out-of-workspace canary directory in place of tracked
//! directories, modified tracked files, unrelated and ignored files), then the next tree is checked
//! out.  Every real `check_out` is one correspondence case (disk listing, file-state keys, the four
//! counters, and the sequence of paths that reach `remove_old_file` / `can_create_new_file`, read
//! from the `wc.remove` / `wc.create` hooks).
//! Oracle (property text, from directory scans): nothing outside the diff changes; an entry the
//! working copy does not own at an added path survives and is counted as skipped; no hook path
//! leaves the workspace; the canary directory stays byte-identical.
use crate::rt::*;
use super::c23::wc_common::*;
use super::c23::{CONTENTS, PATHS, gen_sparse, gen_tree_over, pick_s};
use super::c24::expected_leaves;

static PLANTS: std::sync::atomic::AtomicU64 = std::sync::atomic::AtomicU64::new(0);

/// C23's path alphabet plus paths three and four directories deep (all mirrored into the canary,
/// `CANARY_SKELETON`), so that a symlink can stand in for a *non-final* directory component
pub const DEEP_PATHS: &[&str] = &["f", "g", "d", "d/x", "d/y", "d/e", "d/e/z", "h", "h/i", "ig", "ig/a", "ig/b", "ig/b/c",
                                  "d/ig", "d/ig/q", "y", "d/c", "d/e/w/v", "ig/b/k/m", "h/j/n"];

/// Scenario family "a symlink in a non-final directory component" (strengthened after seed C25).
/// A path `q` of the coming diff that lies at least two directories deep gets one of its *non-final*
/// directory components replaced by a symlink, and the directories below that component already
/// exist behind the link (in the canary directory outside the workspace, whose mirror holds every
/// suffix of every generated path, or in an untracked directory of the workspace), half of the
/// time with a file standing at the path itself.  `lstat` of the immediate parent then sees a real
/// directory; only a walk over every component notices the link.
fn plant_deep_symlink(env: &Env, r: &mut Rng, out: &mut Out, old: &TreeM, new: &TreeM) {
    let disk = scan(&env.root);
    let sparse = env.sparse();
    let cands: Vec<P> = old.keys().chain(new.keys()).filter(|q| q.len() >= 3 && old.get(*q) != new.get(*q) && in_sparse(&sparse, q)
        && (1..q.len()).all(|n| !matches!(disk.get(&q[..n].to_vec()), Some(Ent::File(..)) | Some(Ent::Link(_))))).cloned()
        .collect::<std::collections::BTreeSet<_>>().into_iter().collect();
    if cands.is_empty() { return; }
    let q = r.pick(&cands).clone();
    let n = r.range(1, q.len() - 2);
    let anc = q[..n].to_vec();
    let up = "../".repeat(n);
    let target = match r.below(6) {
        // the canary root mirrors every path suffix, `canary/<anc>` mirrors the whole paths
        0 | 1 => format!("{up}canary"),
        2 => format!("{up}canary/{}", anc.join("/")),
        // an untracked directory of the workspace prepared with the deeper directories
        3 | 4 => {
            let mut t = p("zz-t");
            t.extend(q[n..q.len() - 1].iter().cloned());
            t.push("keep".into());
            env.put(&t, &Ent::File(b"BEHIND-LINK keep\n".to_vec(), false));
            if r.chance(1, 2) {
                t.pop();
                t.push(q[q.len() - 1].clone());
                env.put(&t, &Ent::File(b"BEHIND-LINK\n".to_vec(), false));
            }
            format!("{}zz-t", "../".repeat(n - 1))
        }
        // the deeper directories are missing behind the link
        _ => format!("{up}canary/sub"),
    };
    env.rm(&anc);
    env.put(&anc, &Ent::Link(target));
    PLANTS.fetch_add(1, std::sync::atomic::Ordering::Relaxed);
    out.tally("plant", "symlink-for-non-final-dir-with-dirs-behind");
}

fn plant(env: &Env, r: &mut Rng, out: &mut Out, old: &TreeM, new: &TreeM) {
    let mut targets: Vec<P> = new.keys().chain(old.keys()).cloned().collect();
    targets.sort();
    targets.dedup();
    let mut disk = scan(&env.root);
    for q in &targets {
        let before_n = PLANTS.load(std::sync::atomic::Ordering::Relaxed);
        let on_disk = disk.get(q).cloned();
        let parent_blocked = (1..q.len()).any(|n| matches!(disk.get(&q[..n].to_vec()), Some(Ent::File(..)) | Some(Ent::Link(_))));
        if parent_blocked { continue; }
        match r.below(22) {
            0 | 1 if on_disk.is_none() => {
                // untracked file / symlink exactly where the new tree may want a file
                if (1..q.len()).all(|n| disk.get(&q[..n].to_vec()) != None || true) {
                    let e = if r.chance(1, 4) { Ent::Link(pick_s(r, &["../canary/x", "f", "nowhere"]).into()) } else { Ent::File(b"UNTRACKED\n".to_vec(), r.chance(1, 5)) };
                    env.put(q, &e);
                    { PLANTS.fetch_add(1, std::sync::atomic::Ordering::Relaxed); } out.tally("plant", "untracked-at-path");
                }
            }
            2 if on_disk.is_none() => { env.put(q, &Ent::Dir); { PLANTS.fetch_add(1, std::sync::atomic::Ordering::Relaxed); } out.tally("plant", "dir-at-path"); }
            3 if on_disk.is_none() => {
                let mut inner = q.clone();
                inner.push("u".into());
                env.put(&inner, &Ent::File(b"INNER\n".to_vec(), false));
                { PLANTS.fetch_add(1, std::sync::atomic::Ordering::Relaxed); } out.tally("plant", "nonempty-dir-at-path");
            }
            4 if q.len() > 1 => {
                // a symlink to the canary (or to a workspace directory) where a directory is expected
                let anc = q[..r.range(1, q.len() - 1)].to_vec();
                let t = pick_s(r, &["../canary", "../canary/sub", "h", "nowhere", "../../canary", "../../canary/d"]);
                env.rm(&anc);
                env.put(&anc, &Ent::Link(t.into()));
                { PLANTS.fetch_add(1, std::sync::atomic::Ordering::Relaxed); } out.tally("plant", "symlink-for-parent-dir");
            }
            5 if q.len() > 1 => {
                let anc = q[..r.range(1, q.len() - 1)].to_vec();
                env.rm(&anc);
                env.put(&anc, &Ent::File(b"FILE-FOR-DIR\n".to_vec(), false));
                { PLANTS.fetch_add(1, std::sync::atomic::Ordering::Relaxed); } out.tally("plant", "file-for-parent-dir");
            }
            6 if matches!(on_disk, Some(Ent::File(..))) => {
                env.put(q, &Ent::File(b"MODIFIED\n".to_vec(), r.chance(1, 4)));
                { PLANTS.fetch_add(1, std::sync::atomic::Ordering::Relaxed); } out.tally("plant", "modified-tracked");
            }
            7 if matches!(on_disk, Some(Ent::File(..))) => {
                env.put(q, &Ent::Link("../canary/f".into()));
                { PLANTS.fetch_add(1, std::sync::atomic::Ordering::Relaxed); } out.tally("plant", "tracked-replaced-by-symlink-to-canary");
            }
            8 if on_disk.is_some() && on_disk != Some(Ent::Dir) => { env.rm(q); { PLANTS.fetch_add(1, std::sync::atomic::Ordering::Relaxed); } out.tally("plant", "tracked-deleted"); }
            _ => {}
        }
        if PLANTS.load(std::sync::atomic::Ordering::Relaxed) != before_n { disk = scan(&env.root); }
    }
    // unrelated untracked files, some inside directories the trees use
    for s in ["zz", "d/zz", "h/zz", "ig/zz", "d/e/zz"] {
        if r.chance(1, 4) {
            let q = p(s);
            let disk = scan(&env.root);
            if (1..q.len()).any(|n| matches!(disk.get(&q[..n].to_vec()), Some(Ent::File(..)) | Some(Ent::Link(_)))) { continue; }
            env.put(&q, &Ent::File(format!("KEEP {s}\n").into_bytes(), false));
            { PLANTS.fetch_add(1, std::sync::atomic::Ordering::Relaxed); } out.tally("plant", "unrelated-untracked");
        }
    }
}

pub fn run(cfg: &Cfg, out: &mut Out) {
    let mut r = cfg.rng(25);
    let workspaces = cfg.n(200, 1500);
    let _ = (CONTENTS, PATHS);
    for _ in 0..workspaces {
        let mut env = Env::new();
        if r.chance(1, 4) { env.set_sparse(out, &gen_sparse(&mut r)); }
        let t0 = env.build_tree(&gen_tree_over(&mut r, DEEP_PATHS, false));
        let first = env.check_out(out, &t0);
        if first.result.is_err() { ofail(out, "checkout:error", "initial checkout failed".into()); continue; }
        for _ in 0..3 {
            let cf = r.chance(1, 4);
            let gt = gen_tree_over(&mut r, DEEP_PATHS, cf);
            let tree = env.build_tree(&gt);
            let new_flat = read_tree(&tree);
            let old_flat = read_tree(&env.current_tree());
            let deep = r.chance(1, 2);
            if deep && r.chance(1, 2) { plant_deep_symlink(&env, &mut r, out, &old_flat, &new_flat); }
            else {
                plant(&env, &mut r, out, &old_flat, &new_flat);
                if deep { plant_deep_symlink(&env, &mut r, out, &old_flat, &new_flat); }
            }
            let res = env.check_out(out, &tree);
            let pre = &res.pre;
            let sparse = &pre.sparse;
            let (disk, _states, stats) = match &res.result {
                Ok(x) => x,
                Err(_) if res.known_unsorted => {
                    ofail(out, "checkout:panic:file-states-pushed-out-of-order", format!("check_out panicked (changed_file_states must be sorted) on disk {} old {} new {}",
                        show_disk(&pre.disk), show_tree(&pre.tree), show_tree(&res.new_tree)));
                    break;
                }
                Err(e) => { ofail(out, &format!("checkout:{e}"), format!("check_out failed on disk {} old {} new {}", show_disk(&pre.disk), show_tree(&pre.tree), show_tree(&res.new_tree))); break; }
            };
            // the paths the update is about: where old and new tree differ within the patterns
            let oldl = expected_leaves(&pre.tree, sparse);
            let newl = expected_leaves(&res.new_tree, sparse);
            let diff: Vec<P> = oldl.keys().chain(newl.keys()).filter(|q| pre.tree.get(*q) != res.new_tree.get(*q)).cloned()
                .collect::<std::collections::BTreeSet<_>>().into_iter().collect();
            let ctx = || format!("pre-disk={} old={} new={} sparse={} states={} -> disk={} stats={:?}", show_disk(&pre.disk), show_tree(&pre.tree),
                                 show_tree(&res.new_tree), show_seq(sparse), show_set(&pre.states), show_disk(disk), stats);
            let mut bad: Option<(&'static str, String)> = None;
            // (1) every file or symlink at a path outside the diff is untouched (untracked, ignored,
            //     modified tracked — whatever it is)
            for (q, e) in leaves(&pre.disk) {
                if !diff.contains(&q) && disk.get(&q) != Some(&e) {
                    bad.get_or_insert(("checkout:untouched-path-changed", format!("{} was {} and is now {:?}; {}", show_p(&q), show_ent(&e), disk.get(&q).map(show_ent), ctx())));
                }
            }
            //     … and nothing appears at a path outside the diff (a file written through a symlink
            //     to another place of the workspace would)
            for (q, e) in leaves(disk) {
                if !diff.contains(&q) && !pre.disk.contains_key(&q) {
                    bad.get_or_insert(("checkout:file-appeared-outside-the-diff", format!("{} = {} appeared; {}", show_p(&q), show_ent(&e), ctx())));
                }
            }
            // (2) an entry standing where the new tree adds a path (not tracked there before) survives
            let mut must_skip = 0;
            let owned = |k: &P| oldl.contains_key(k) && pre.states.contains(k);
            for q in &diff {
                let added = !oldl.contains_key(q);
                if !added { continue; }
                match pre.disk.get(q) {
                    // a file or symlink the working copy does not own: must survive, must be counted
                    Some(e) if *e != Ent::Dir => {
                        must_skip += 1;
                        if disk.get(q) != Some(e) {
                            bad.get_or_insert(("checkout:untracked-overwritten", format!("{} held {} (not tracked there) and now holds {:?}; {}", show_p(q), show_ent(e), disk.get(q).map(show_ent), ctx())));
                        }
                    }
                    // a directory holding something the working copy does not own: the path is skipped
                    // (its contents are covered by clause 1)
                    Some(_) if pre.disk.iter().any(|(k, v)| is_strict_prefix(q, k) && *v != Ent::Dir && !owned(k)) => { must_skip += 1; }
                    _ => {}
                }
            }
            if (stats.skipped_files as usize) < must_skip {
                bad.get_or_insert(("checkout:obstructed-path-not-counted-as-skipped", format!("{} obstructed added paths but skipped_files={}; {}", must_skip, stats.skipped_files, ctx())));
            }
            // (3) no path handed to remove/create leaves the workspace, and the canary is intact
            if !res.escaped.is_empty() {
                bad.get_or_insert(("checkout:path-outside-workspace", format!("hook paths outside the workspace: {:?}; {}", res.escaped, ctx())));
            }
            if res.trace.iter().any(|q| q.iter().any(|c| c == ".." || c == "." || c.is_empty())) {
                bad.get_or_insert(("checkout:path-outside-workspace", format!("hook path with a non-normal component: {}; {}", show_seq(&res.trace), ctx())));
            }
            if !env.canary_intact() {
                bad.get_or_insert(("checkout:symlink-followed-out-of-workspace", format!("canary directory changed ({}); {}", env.canary_diff(), ctx())));
            }
            match bad { None => out.oracle_ok(), Some((sig, d)) => ofail(out, sig, d) }
            out.tally("skipped", if stats.skipped_files == 0 { "0" } else if stats.skipped_files < 3 { "1-2" } else { "3+" });
            if stats.skipped_files > 0 || pre.disk != super::c24::with_parent_dirs(&oldl) {
                out.nontrivial((show_disk(&pre.disk), show_tree(&pre.tree), show_tree(&res.new_tree), show_seq(sparse)));
            }
            // bring the file states back in line with the disk (as the CLI does before every command)
            let snap = env.snapshot(out, &[]);
            if snap.result.is_err() { break; }
        }
    }
    for m in PANICS.lock().unwrap().iter() { out.note(format!("panic: {m}")); }
    out.note(format!("{workspaces} temp workspaces × 3 obstructed checkouts; canary directory outside each workspace"));
}
