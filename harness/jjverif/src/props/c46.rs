//! C46 — evolution history is complete and acyclic (`jj_lib::evolution::walk_predecessors`).
//!
//! Two case streams, both on a real `TestRepo` and the real `walk_ancestors` / `walk_predecessors`:
//!  * **synthetic operation logs**: a pool of real commits, operations written straight into the op
//!    store with chosen `commit_predecessors` maps (well-formed logs built in creation order, and
//!    "wild" logs with cycles, repeated keys, legacy operations) — exercises every branch of
//!    `visit_op` (splice, `has_dup`, topo sort, `CycleDetected`, `flush_commits`);
//!  * **real histories**: describe / rebase / squash / split / duplicate / abandon-like rewrites through
//!    `MutableRepo`, several per transaction, concurrent transactions merged (by hand through
//!    `Transaction::merge_operation` and through `RepoLoader::load_at_head`), `op restore`-like
//!    `set_view` and `op revert`-like merges; the harness keeps its own record of who was rewritten
//!    from whom.
//! Commits are named by small integers in creation order (root = 0); the request carries the
//! operation list in the order the real `walk_ancestors` produced it.
//!
//! Oracle (from the property text): the walk ends without error, lists exactly the commits
//! reachable from the start through "was rewritten from" edges, each once, each before all of
//! its predecessors, with the recorded predecessor list.  For synthetic logs the oracle applies
//! when the log is a possible history (every operation records predecessors, every mentioned commit
//! has a creation record, no commit is mentioned before it is created).
use crate::rt::*;
use futures::StreamExt as _;
use jj_lib::backend::{CommitId, MillisSinceEpoch, Timestamp};
use jj_lib::commit::Commit;
use jj_lib::config::{ConfigLayer, ConfigSource};
use jj_lib::evolution::{WalkPredecessorsError, walk_predecessors};
use jj_lib::op_store::{self, OperationMetadata, TimestampRange};
use jj_lib::op_walk;
use jj_lib::operation::Operation;
use jj_lib::repo::{MutableRepo, ReadonlyRepo, Repo as _};
use jj_lib::revset::RevsetExpression;
use jj_lib::rewrite::{RebaseOptions, RebasedCommit};
use jj_lib::settings::UserSettings;
use jj_lib::transaction::Transaction;
use pollster::FutureExt as _;
use std::collections::{BTreeMap, BTreeSet, HashMap};
use std::sync::Arc;
use testutils::TestRepo;

type PMap = BTreeMap<u64, Vec<u64>>;

fn settings_at(secs: i64) -> UserSettings {
    let mut config = testutils::base_user_config();
    let mut layer = ConfigLayer::empty(ConfigSource::User);
    let ts = |s: i64| format!("2001-02-03T{:02}:{:02}:{:02}+00:00", 4 + s / 3600, (s / 60) % 60, s % 60);
    layer.set_value("debug.commit-timestamp", ts(0)).unwrap();
    layer.set_value("debug.operation-timestamp", ts(secs)).unwrap();
    config.add_layer(layer);
    UserSettings::from_config(config).unwrap()
}

/// commit names
#[derive(Default)]
struct Names { by_id: HashMap<CommitId, u64>, ids: Vec<CommitId> }
impl Names {
    fn add(&mut self, id: &CommitId) -> u64 {
        if let Some(n) = self.by_id.get(id) { return *n; }
        let n = self.ids.len() as u64;
        self.by_id.insert(id.clone(), n);
        self.ids.push(id.clone());
        n
    }
    fn get(&self, id: &CommitId) -> Option<u64> { self.by_id.get(id).copied() }
    fn id(&self, n: u64) -> &CommitId { &self.ids[n as usize] }
}

fn show_ops(ops: &[Option<PMap>]) -> String {
    ops.iter().map(|op| match op {
        None => "n".to_string(),
        Some(m) if m.is_empty() => "e".to_string(),
        Some(m) => m.iter().map(|(c, ps)| format!("{c}:{}", show_list(ps))).collect::<Vec<_>>().join(";"),
    }).collect::<Vec<_>>().join("|")
}

/// the operation list of `repo` in `walk_ancestors` order with the recorded maps, in harness names
fn op_list(repo: &ReadonlyRepo, names: &mut Names) -> (Vec<Operation>, Vec<Option<PMap>>) {
    let ops: Vec<Operation> = op_walk::walk_ancestors(std::slice::from_ref(repo.operation()))
        .collect::<Vec<_>>().block_on().into_iter().map(|r| r.unwrap()).collect();
    let maps = ops.iter().map(|op| op.store_operation().commit_predecessors.as_ref().map(|m| {
        // name unknown commits deterministically (commit-id order inside one operation)
        for (k, ps) in m { names.add(k); for p in ps { names.add(p); } }
        m.iter().map(|(k, ps)| (names.get(k).unwrap(), ps.iter().map(|p| names.get(p).unwrap()).collect())).collect::<PMap>()
    })).collect();
    (ops, maps)
}

struct Walked { entries: Vec<(u64, Option<usize>, Vec<u64>)>, cycle: Option<u64>, other_err: Option<String> }

fn real_walk(repo: &ReadonlyRepo, ops: &[Operation], names: &Names, start: &[u64]) -> Result<Walked, String> {
    let start_ids: Vec<CommitId> = start.iter().map(|n| names.id(*n).clone()).collect();
    guard(|| {
        let mut w = Walked { entries: vec![], cycle: None, other_err: None };
        let mut stream = std::pin::pin!(walk_predecessors(repo, &start_ids));
        while let Some(item) = stream.next().block_on() {
            match item {
                Ok(e) => {
                    let k = e.operation.as_ref().map(|o| ops.iter().position(|x| x.id() == o.id()).expect("entry operation not in walk_ancestors"));
                    let ps = e.predecessor_ids().iter().map(|p| names.get(p).expect("unknown predecessor")).collect();
                    w.entries.push((names.get(e.commit.id()).expect("unknown commit"), k, ps));
                }
                Err(WalkPredecessorsError::CycleDetected(id)) => { w.cycle = Some(names.get(&id).expect("unknown commit in cycle")); break; }
                Err(e) => { w.other_err = Some(format!("{e}")); break; }
            }
            if w.entries.len() > 10_000 { w.other_err = Some("runaway".into()); break; }
        }
        w
    })
}

fn show_walk(w: &Walked) -> String {
    let mut items: Vec<String> = w.entries.iter().map(|(c, k, ps)| format!("{c}@{}:{}", k.map_or("-".to_string(), |k| k.to_string()), show_list(ps))).collect();
    if let Some(c) = w.cycle { items.push(format!("!cycle:{c}")); }
    if let Some(e) = &w.other_err { items.push(format!("!err:{}", e.replace(' ', "_"))); }
    if items.is_empty() { "-".into() } else { items.join(";") }
}

/// The property's own statement, evaluated against `truth` (commit ↦ the commits it was rewritten
/// from; commits without an entry were never rewritten from anything).
fn oracle(out: &mut Out, what: &str, truth: &BTreeMap<u64, Vec<u64>>, start: &[u64], got: &Result<Walked, String>) {
    let w = match got { Ok(w) => w, Err(e) => return out.oracle_fail("evolog:panic", format!("{what}: walk_predecessors panicked: {e}")) };
    if let Some(c) = w.cycle { return out.oracle_fail("evolog:cycle-detected", format!("{what}: CycleDetected({c}) on a history of rewrites")); }
    if let Some(e) = &w.other_err { return out.oracle_fail("evolog:walk-error", format!("{what}: {e}")); }
    let mut reach: BTreeSet<u64> = BTreeSet::new();
    let mut todo: Vec<u64> = start.to_vec();
    while let Some(c) = todo.pop() { if reach.insert(c) { todo.extend(truth.get(&c).into_iter().flatten().copied()); } }
    let listed: Vec<u64> = w.entries.iter().map(|e| e.0).collect();
    let mut pos: HashMap<u64, usize> = HashMap::new();
    for (i, c) in listed.iter().enumerate() {
        if pos.insert(*c, i).is_some() { return out.oracle_fail("evolog:listed-twice", format!("{what}: commit {c} listed twice in {listed:?}")); }
    }
    for c in &reach { if !pos.contains_key(c) { return out.oracle_fail("evolog:predecessor-missing", format!("{what}: {c} is a transitive predecessor of {start:?} but not listed in {listed:?}")); } }
    for c in &listed { if !reach.contains(c) { return out.oracle_fail("evolog:unrelated-commit-listed", format!("{what}: {c} listed but not a transitive predecessor of {start:?}")); } }
    for (i, (c, _, ps)) in w.entries.iter().enumerate() {
        let t = truth.get(c).cloned().unwrap_or_default();
        if *ps != t { return out.oracle_fail("evolog:wrong-predecessors", format!("{what}: {c} reported with predecessors {ps:?}, was rewritten from {t:?}")); }
        for p in &t { if pos[p] <= i { return out.oracle_fail("evolog:predecessor-before-successor", format!("{what}: {p} listed before its rewrite {c} in {listed:?}")); } }
    }
    out.oracle_ok();
}

fn classify(out: &mut Out, ops: &[Option<PMap>], w: &Result<Walked, String>, start: &[u64]) {
    out.tally("ops", &ops.len().min(12).to_string());
    if let Ok(w) = w {
        out.tally("entries", &w.entries.len().min(12).to_string());
        out.tally("outcome", if w.cycle.is_some() { "cycle" } else if w.other_err.is_some() { "error" } else if w.entries.iter().any(|e| e.1.is_none()) { "flushed" } else { "ok" });
        let multi_op = w.entries.iter().filter_map(|e| e.1).collect::<BTreeSet<_>>().len();
        // non-trivial: a chain of at least two rewrites, entries from at least two operations or a topological sort
        // inside one operation, or a detected cycle
        if w.entries.len() >= 3 || multi_op >= 2 || w.cycle.is_some() { out.nontrivial((show_ops(ops), start.to_vec())); }
        if w.entries.iter().any(|e| e.2.len() >= 2) { out.tally("shape", "multi-predecessor"); }
    }
}

// ---------------------------------------------------------------------------------------------
// synthetic operation logs

struct Pool { test_repo: TestRepo, names: Names, view_id: op_store::ViewId, root_op: Operation, serial: u64 }

fn make_pool(n: usize) -> Pool {
    let test_repo = TestRepo::init_with_settings(&settings_at(0));
    let repo = test_repo.repo.clone();
    let mut names = Names::default();
    names.add(repo.store().root_commit_id());
    let mut tx = repo.start_transaction();
    for i in 0..n {
        let c = tx.repo_mut().new_commit(vec![repo.store().root_commit_id().clone()], repo.store().empty_merged_tree())
            .set_description(format!("pool {i}")).write().block_on().unwrap();
        names.add(c.id());
    }
    let repo = tx.commit("pool").block_on().unwrap();
    let view_id = repo.operation().view_id().clone();
    let root_op = repo.loader().root_operation().block_on();
    Pool { test_repo, names, view_id, root_op, serial: 0 }
}

/// one synthetic operation: parents (indices of earlier synthetic ops, or none = root op), end time, map
struct SynOp { parents: Vec<usize>, end: i64, map: Option<PMap> }

fn write_syn(pool: &mut Pool, syn: &[SynOp]) -> Arc<ReadonlyRepo> {
    let loader = pool.test_repo.repo.loader().clone();
    let mut ids: Vec<op_store::OperationId> = vec![];
    for s in syn {
        pool.serial += 1;
        let t = Timestamp { timestamp: MillisSinceEpoch(1_000_000 + s.end * 1000), tz_offset: 0 };
        let data = op_store::Operation {
            view_id: pool.view_id.clone(),
            parents: if s.parents.is_empty() { vec![pool.root_op.id().clone()] } else { s.parents.iter().map(|p| ids[*p].clone()).collect() },
            metadata: OperationMetadata {
                time: TimestampRange { start: t, end: t },
                description: format!("syn {}", pool.serial),
                hostname: "h".into(), username: "u".into(), is_snapshot: false, workspace_name: None,
                attributes: Default::default(),
            },
            commit_predecessors: s.map.as_ref().map(|m| m.iter().map(|(k, ps)| (pool.names.id(*k).clone(), ps.iter().map(|p| pool.names.id(*p).clone()).collect())).collect()),
        };
        ids.push(loader.op_store().write_operation(&data).block_on().unwrap());
    }
    let head = loader.load_operation(ids.last().unwrap()).block_on().unwrap();
    loader.load_at(&head).block_on().unwrap()
}

/// shape of the operation DAG: mostly a chain, with forks joined by a merge operation
fn gen_shape(r: &mut Rng, n_ops: usize) -> Vec<SynOp> {
    let mut syn: Vec<SynOp> = vec![];
    let mut clock = 0i64;
    let mut i = 0;
    while i < n_ops {
        let tip = if syn.is_empty() { vec![] } else { vec![syn.len() - 1] };
        if n_ops - i >= 3 && r.chance(1, 3) {
            // fork: 2 or 3 concurrent operations on `tip`, then a merge operation
            let k = if n_ops - i >= 4 && r.chance(1, 3) { 3 } else { 2 };
            let first = syn.len();
            for _ in 0..k {
                // concurrent operations: end times close together, sometimes equal or out of order
                let end = clock + r.range(0, 2) as i64;
                syn.push(SynOp { parents: tip.clone(), end, map: Some(PMap::new()) });
            }
            clock += 3;
            syn.push(SynOp { parents: (first..first + k).collect(), end: clock, map: Some(PMap::new()) });
            i += k + 1;
        } else {
            clock += if r.chance(1, 8) { 0 } else { 1 };
            syn.push(SynOp { parents: tip, end: clock, map: Some(PMap::new()) });
            i += 1;
        }
    }
    syn
}

fn syn_ancestors(syn: &[SynOp], k: usize) -> BTreeSet<usize> {
    let mut s = BTreeSet::new();
    let mut todo = vec![k];
    while let Some(x) = todo.pop() { if s.insert(x) { todo.extend(syn[x].parents.iter().copied()); } }
    s
}

/// a possible history: commits 1..=n are created in order, each in some operation, each rewritten from
/// commits that exist at that point (created in an ancestor operation, or earlier in the same one)
fn gen_wellformed(r: &mut Rng, n_commits: usize, n_ops: usize) -> Vec<SynOp> {
    let mut syn = gen_shape(r, n_ops);
    let n_ops = syn.len();
    let mut born: Vec<usize> = vec![]; // operation of commit i+1
    for c in 1..=n_commits as u64 {
        // operations are created in index order; a commit created after `c-1` lives in the same or a later op
        let lo = born.last().copied().unwrap_or(0);
        let op = if r.chance(1, 2) { lo } else { r.range(lo, n_ops - 1) };
        let anc = syn_ancestors(&syn, op);
        let avail: Vec<u64> = (1..c).filter(|p| anc.contains(&born[*p as usize - 1])).collect();
        let mut ps: Vec<u64> = vec![];
        if !avail.is_empty() && r.chance(4, 5) {
            let k = if r.chance(1, 3) { 2 } else { 1 };
            for _ in 0..k { let p = *r.pick(&avail); if !ps.contains(&p) { ps.push(p); } }
        }
        born.push(op);
        syn[op].map.as_mut().unwrap().insert(c, ps);
    }
    syn
}

/// anything goes: repeated keys across operations, self references, cycles, legacy operations
fn gen_wild(r: &mut Rng, n_commits: usize, n_ops: usize) -> Vec<SynOp> {
    let mut syn = gen_shape(r, n_ops);
    for s in syn.iter_mut() {
        if r.chance(1, 12) { s.map = None; continue; }
        let m = s.map.as_mut().unwrap();
        for _ in 0..r.range(0, 3) {
            let c = r.range(1, n_commits) as u64;
            let ps: Vec<u64> = (0..r.range(0, 2)).map(|_| { let lo = if r.chance(1, 10) { 0 } else { 1 }; r.range(lo, n_commits) as u64 }).collect();
            m.insert(c, ps);
        }
    }
    syn
}

/// is the walked list a possible history?  (all maps present; every mentioned commit is a key of some
/// operation; no key of an operation is mentioned by an operation listed later; inside one operation
/// the predecessor edges are acyclic) — and the "rewritten from" relation it records
fn possible_history(ops: &[Option<PMap>]) -> Option<BTreeMap<u64, Vec<u64>>> {
    let mut truth: BTreeMap<u64, Vec<u64>> = BTreeMap::new();
    for (i, op) in ops.iter().enumerate() {
        let m = op.as_ref()?;
        for (k, ps) in m {
            for later in &ops[i + 1..] {
                let lm = later.as_ref()?;
                if lm.iter().any(|(k2, ps2)| k2 == k || ps2.contains(k)) { return None; }
            }
            truth.insert(*k, ps.clone());
        }
        // acyclic inside the operation
        let mut state: HashMap<u64, u8> = HashMap::new();
        fn dfs(m: &PMap, c: u64, state: &mut HashMap<u64, u8>) -> bool {
            match state.get(&c) { Some(1) => return false, Some(2) => return true, _ => {} }
            state.insert(c, 1);
            for p in m.get(&c).into_iter().flatten() { if m.contains_key(p) && !dfs(m, *p, state) { return false; } }
            state.insert(c, 2);
            true
        }
        for k in m.keys() { if !dfs(m, *k, &mut state) { return None; } }
    }
    for ps in truth.values() { for p in ps { if !truth.contains_key(p) { return None; } } }
    Some(truth)
}

fn synthetic(cfg: &Cfg, out: &mut Out) {
    let n_pool = 7;
    let mut pool = make_pool(n_pool);
    let mut r = cfg.rng(1);
    let total = cfg.n(3000, 60_000);
    for case in 0..total {
        // sizes grow with the case number so that the first disagreement is small
        let scale = 1 + (case * 6 / total.max(1)) as usize;
        let n_ops = r.range(1, 1 + scale);
        let n_commits = r.range(1, (1 + scale).min(n_pool));
        let wild = r.chance(2, 5);
        let syn = if wild { gen_wild(&mut r, n_commits, n_ops) } else { gen_wellformed(&mut r, n_commits, n_ops) };
        let repo = write_syn(&mut pool, &syn);
        let (ops, maps) = op_list(&repo, &mut pool.names);
        // the order must be topological whatever the end times say
        let topo_ok = ops.iter().enumerate().all(|(i, op)| op.parent_ids().iter().all(|p| ops[i + 1..].iter().any(|o| o.id() == p)));
        if !topo_ok { out.oracle_fail("evolog:op-order-not-topological", format!("walk_ancestors listed a parent before its child ({} ops)", ops.len())); }
        let truth = possible_history(&maps);
        let keys: Vec<u64> = maps.iter().flatten().flat_map(|m| m.keys().copied()).collect();
        for q in 0..3 {
            let start: Vec<u64> = match (q, r.below(10)) {
                (0, _) if !keys.is_empty() => vec![*keys.iter().max().unwrap()],
                (_, 0) => vec![r.range(0, n_commits) as u64, r.range(0, n_commits) as u64],
                (_, 1) if !keys.is_empty() => vec![*r.pick(&keys), *r.pick(&keys)],
                (_, 2) => vec![],
                _ => vec![r.range(0, n_commits) as u64],
            };
            let got = real_walk(&repo, &ops, &pool.names, &start);
            let resp = match &got { Ok(w) => show_walk(w), Err(_) => "panic".into() };
            out.case(&format!("walk {} {}", show_list(&start), show_ops(&maps)), &resp);
            out.tally("stream", if wild { "synthetic-wild" } else { "synthetic-wellformed" });
            classify(out, &maps, &got, &start);
            let mut dedup = start.clone(); dedup.sort(); dedup.dedup();
            match &truth {
                Some(t) if dedup.len() == start.len() => oracle(out, "synthetic log", t, &start, &got),
                _ => {
                    out.tally("oracle", "not-a-possible-history");
                    if got.is_err() { out.oracle_fail("evolog:panic", format!("walk_predecessors panicked on {}", show_ops(&maps))); }
                }
            }
        }
    }
}

// ---------------------------------------------------------------------------------------------
// real histories

struct Hist {
    _test_repo: TestRepo,
    repo: Arc<ReadonlyRepo>,
    names: Names,
    truth: BTreeMap<u64, Vec<u64>>,
    serial: u64,
    clock: i64,
    /// repos at earlier operations (for restore / revert)
    past: Vec<Arc<ReadonlyRepo>>,
}

fn visible(repo: &ReadonlyRepo) -> Vec<Commit> {
    let mut seen = BTreeSet::new();
    let mut outv = vec![];
    let mut heads: Vec<CommitId> = repo.view().heads().iter().cloned().collect();
    heads.sort();
    let mut stack = heads;
    while let Some(id) = stack.pop() {
        if !seen.insert(id.clone()) { continue; }
        let c = repo.store().get_commit(&id).unwrap();
        for p in c.parent_ids() { stack.push(p.clone()); }
        outv.push(c);
    }
    outv.sort_by(|a, b| a.id().cmp(b.id()));
    outv
}

fn is_ancestor(repo: &dyn jj_lib::repo::Repo, a: &CommitId, d: &CommitId) -> bool {
    // a is an ancestor of d (or equal), by walking parents through the store
    let mut seen = BTreeSet::new();
    let mut stack = vec![d.clone()];
    while let Some(id) = stack.pop() {
        if id == *a { return true; }
        if !seen.insert(id.clone()) { continue; }
        for p in repo.store().get_commit(&id).unwrap().parent_ids() { stack.push(p.clone()); }
    }
    false
}

impl Hist {
    fn record(&mut self, new: &Commit, preds: &[CommitId]) {
        let n = self.names.add(new.id());
        let ps = preds.iter().map(|p| self.names.add(p)).collect();
        self.truth.insert(n, ps);
    }
    fn desc(&mut self) -> String { self.serial += 1; format!("d{}", self.serial) }

    /// 1–3 rewrite actions on `mut_repo` (whose base is `base`), then rebase descendants
    fn actions(&mut self, r: &mut Rng, base: &Arc<ReadonlyRepo>, mut_repo: &mut MutableRepo, out: &mut Out) -> bool {
        let root = base.store().root_commit_id().clone();
        let vis = visible(base);
        let nonroot: Vec<&Commit> = vis.iter().filter(|c| *c.id() != root).collect();
        let mut touched: BTreeSet<CommitId> = BTreeSet::new();
        for _ in 0..r.range(1, 3) {
            let kind = if nonroot.is_empty() { 0 } else { r.below(9) };
            let pick_free = |r: &mut Rng, touched: &BTreeSet<CommitId>| -> Option<Commit> {
                let free: Vec<&&Commit> = nonroot.iter().filter(|c| !touched.contains(c.id())).collect();
                if free.is_empty() { None } else { Some((**r.pick(&free)).clone()) }
            };
            match kind {
                0 | 1 => { // new commit on one or two visible, untouched parents
                    let cands: Vec<&Commit> = vis.iter().filter(|c| !touched.contains(c.id())).collect();
                    let mut ps = vec![(*r.pick(&cands)).id().clone()];
                    if r.chance(1, 4) { let q = (*r.pick(&cands)).id().clone(); if q != root && ps[0] != root && !ps.contains(&q) { ps.push(q); } }
                    let d = self.desc();
                    let c = mut_repo.new_commit(ps, base.store().empty_merged_tree()).set_description(d).write().block_on().unwrap();
                    self.record(&c, &[]);
                    out.tally("action", "new");
                }
                2 | 3 => { // describe, sometimes twice or three times in the same transaction
                    let Some(c) = pick_free(r, &touched) else { continue };
                    touched.insert(c.id().clone());
                    let mut cur = c;
                    for _ in 0..(if r.chance(1, 3) { r.range(2, 3) } else { 1 }) {
                        let d = self.desc();
                        let n = mut_repo.rewrite_commit(&cur).set_description(d).write().block_on().unwrap();
                        self.record(&n, &[cur.id().clone()]);
                        cur = n;
                    }
                    out.tally("action", "describe");
                }
                4 => { // rebase onto another visible commit that is not a descendant
                    let Some(c) = pick_free(r, &touched) else { continue };
                    let dests: Vec<&Commit> = vis.iter().filter(|d| !touched.contains(d.id()) && !is_ancestor(base.as_ref(), c.id(), d.id())).collect();
                    if dests.is_empty() { continue; }
                    let dest = (*r.pick(&dests)).id().clone();
                    touched.insert(c.id().clone());
                    // (unique description: with the fixed commit timestamp an identical rebase would recreate an existing commit)
                    let d = self.desc();
                    let n = mut_repo.rewrite_commit(&c).set_parents(vec![dest]).set_description(d).write().block_on().unwrap();
                    self.record(&n, &[c.id().clone()]);
                    out.tally("action", "rebase");
                }
                5 => { // squash src into dst
                    let Some(dst) = pick_free(r, &touched) else { continue };
                    touched.insert(dst.id().clone());
                    let Some(src) = pick_free(r, &touched) else { continue };
                    touched.insert(src.id().clone());
                    let d = self.desc();
                    let preds = vec![dst.id().clone(), src.id().clone()];
                    let n = mut_repo.rewrite_commit(&dst).set_predecessors(preds.clone()).set_description(d).write().block_on().unwrap();
                    self.record(&n, &preds);
                    mut_repo.record_abandoned_commit(&src);
                    out.tally("action", "squash");
                }
                6 => { // split
                    let Some(c) = pick_free(r, &touched) else { continue };
                    touched.insert(c.id().clone());
                    let d = self.desc();
                    let a = mut_repo.rewrite_commit(&c).set_description(d).write().block_on().unwrap();
                    self.record(&a, &[c.id().clone()]);
                    let d = self.desc();
                    let b = mut_repo.new_commit(vec![a.id().clone()], base.store().empty_merged_tree())
                        .set_predecessors(vec![c.id().clone()]).set_description(d).write().block_on().unwrap();
                    self.record(&b, &[c.id().clone()]);
                    out.tally("action", "split");
                }
                7 => { // abandon
                    let Some(c) = pick_free(r, &touched) else { continue };
                    touched.insert(c.id().clone());
                    mut_repo.record_abandoned_commit(&c);
                    out.tally("action", "abandon");
                }
                _ => { // duplicate
                    let Some(c) = pick_free(r, &touched) else { continue };
                    let d = self.desc();
                    let n = mut_repo.new_commit(c.parent_ids().to_vec(), base.store().empty_merged_tree())
                        .set_predecessors(vec![c.id().clone()]).set_description(d).write().block_on().unwrap();
                    self.record(&n, &[c.id().clone()]);
                    out.tally("action", "duplicate");
                }
            }
        }
        self.rebase(mut_repo)
    }

    /// `false`: the rebase of descendants would recreate a commit that already exists (possible here because the
    /// commit timestamp is fixed: e.g. abandon, restore, abandon again) and jj refused ("Newly-created commit …
    /// already exists"); the caller ends the history there.
    fn rebase(&mut self, mut_repo: &mut MutableRepo) -> bool {
        let mut rebased: Vec<(Commit, Commit)> = vec![];
        // `rebase_descendants` can panic ("graph has cycle") after merging concurrent operations that rebased commits onto
        // each other (C13's known finding `opmerge:cyclic-concurrent-rebases-panic`); the history then ends here.
        let res = match guard(|| mut_repo.rebase_descendants_with_options(&RevsetExpression::none(), &RebaseOptions::default(), |old, new| {
            if let RebasedCommit::Rewritten(n) = new { rebased.push((old, n)); }
        }).block_on()) {
            Ok(res) => res,
            Err(msg) => { assert!(msg.contains("graph has cycle"), "unexpected panic in rebase_descendants: {msg}"); return false; }
        };
        match res {
            Ok(()) => { for (old, new) in rebased { self.record(&new, &[old.id().clone()]); } true }
            Err(e) => { assert!(format!("{e}").contains("already exists"), "unexpected rebase error: {e}"); false }
        }
    }

    fn start_tx(&mut self, base: &Arc<ReadonlyRepo>, skew: i64) -> Transaction {
        let mut_repo = MutableRepo::new(base.clone(), base.readonly_index(), base.view());
        Transaction::new(mut_repo, &settings_at(self.clock + skew))
    }
}

fn real_histories(cfg: &Cfg, out: &mut Out) {
    let mut r = cfg.rng(2);
    for h in 0..cfg.n(250, 4000) {
        let test_repo = TestRepo::init_with_settings(&settings_at(0));
        let repo = test_repo.repo.clone();
        let mut hist = Hist { repo: repo.clone(), _test_repo: test_repo, names: Names::default(), truth: BTreeMap::new(), serial: h * 1000, clock: 1, past: vec![repo.clone()] };
        hist.names.add(repo.store().root_commit_id());
        let n_steps = r.range(2, 9);
        'steps: for _step in 0..n_steps {
            hist.clock += 2;
            let base = hist.repo.clone();
            let kind = r.below(10);
            let mut step_kind = "linear";
            if kind < 5 || hist.past.len() < 3 {
                let mut tx = hist.start_tx(&base, 0);
                if !hist.actions(&mut r, &base, tx.repo_mut(), out) { out.tally("step", "ended-identical-commit"); break 'steps; }
                hist.repo = tx.commit("linear").block_on().unwrap();
            } else if kind < 8 {
                // concurrent operations on the same base, merged
                step_kind = "concurrent";
                let k = if r.chance(1, 4) { 3 } else { 2 };
                let mut sides: Vec<Arc<ReadonlyRepo>> = vec![];
                for _ in 0..k {
                    let skew = r.range(0, 1) as i64;
                    let mut tx = hist.start_tx(&base, skew);
                    if !hist.actions(&mut r, &base, tx.repo_mut(), out) { out.tally("step", "ended-identical-commit"); break 'steps; }
                    sides.push(tx.commit("side").block_on().unwrap());
                }
                hist.clock += 2;
                if r.chance(1, 2) {
                    // the real reconciliation path
                    step_kind = "concurrent-load-at-head";
                    // jj's own reconciliation can panic ("graph has cycle") when the concurrent sides rebase commits onto
                    // each other — property C13's known finding `opmerge:cyclic-concurrent-rebases-panic`, not C46's
                    // subject: such a history simply ends here.
                    match guard(|| base.loader().load_at_head().block_on()) {
                        Ok(Ok(repo)) => hist.repo = repo,
                        Ok(Err(e)) => { assert!(format!("{e:?}").contains("already exists"), "unexpected error: {e:?}"); out.tally("step", "ended-identical-commit"); break 'steps; }
                        Err(msg) => { assert!(msg.contains("graph has cycle"), "unexpected panic in load_at_head: {msg}"); out.tally("step", "ended-opmerge-cycle-panic(C13 known finding)"); break 'steps; }
                    }
                } else {
                    let mut tx = hist.start_tx(&sides[0], 0);
                    for s in &sides[1..] { tx.merge_operation(base.operation(), s.operation()).block_on().unwrap(); }
                    if !hist.rebase(tx.repo_mut()) { out.tally("step", "ended-identical-commit"); break 'steps; }
                    hist.repo = tx.commit("merge").block_on().unwrap();
                }
                hist.past.extend(sides);
            } else if kind == 8 {
                // `op restore`: back to the view of an earlier operation, then go on rewriting from there
                step_kind = "restore";
                let old = r.pick(&hist.past).clone();
                let mut tx = hist.start_tx(&base, 0);
                tx.repo_mut().set_view(old.view().store_view().clone());
                if !hist.rebase(tx.repo_mut()) { out.tally("step", "ended-identical-commit"); break 'steps; }
                hist.repo = tx.commit("restore").block_on().unwrap();
            } else {
                // `op revert` of an earlier non-merge operation
                step_kind = "revert";
                let cands: Vec<&Arc<ReadonlyRepo>> = hist.past.iter().filter(|p| p.operation().parent_ids().len() == 1).collect();
                if cands.is_empty() { continue; }
                let bad = (*r.pick(&cands)).clone();
                let parent_op = bad.operation().parents().block_on().unwrap().pop().unwrap();
                let parent = base.loader().load_at(&parent_op).block_on().unwrap();
                let mut tx = hist.start_tx(&base, 0);
                tx.repo_mut().merge(&bad, &parent).block_on().unwrap();
                if !hist.rebase(tx.repo_mut()) { out.tally("step", "ended-identical-commit"); break 'steps; }
                hist.repo = tx.commit("revert").block_on().unwrap();
            }
            out.tally("step", step_kind);
            let repo = hist.repo.clone();
            hist.past.push(repo.clone());
            let known_before = hist.names.ids.len();
            let (ops, maps) = op_list(&repo, &mut hist.names);
            // commits created inside `load_at_head` were not seen by the harness: their "rewritten from" record is
            // the one stored in the commit object itself
            for n in known_before..hist.names.ids.len() {
                let c = repo.store().get_commit(hist.names.id(n as u64)).unwrap();
                let ps: Vec<u64> = c.store_commit().predecessors.iter().map(|p| hist.names.get(p).expect("unknown predecessor in commit object")).collect();
                hist.truth.insert(n as u64, ps);
            }
            let topo_ok = ops.iter().enumerate().all(|(i, op)| op.parent_ids().iter().all(|p| ops[i + 1..].iter().any(|o| o.id() == p)));
            if !topo_ok { out.oracle_fail("evolog:op-order-not-topological", format!("walk_ancestors listed a parent before its child ({} ops)", ops.len())); }
            // starts: the visible heads, and some commits from anywhere in the history (hidden ones too)
            let mut heads: Vec<u64> = repo.view().heads().iter().map(|id| hist.names.get(id).expect("unknown head")).collect();
            heads.sort();
            let n_known = hist.names.ids.len();
            let mut starts: Vec<Vec<u64>> = heads.iter().rev().take(2).map(|h| vec![*h]).collect();
            starts.push(vec![r.below(n_known) as u64]);
            if heads.len() >= 2 && r.chance(1, 2) { starts.push(heads.clone()); }
            if r.chance(1, 4) { let a = r.below(n_known) as u64; let b = r.below(n_known) as u64; if a != b { starts.push(vec![a, b]); } }
            // the theorems' hypotheses (Recorded, Fresh) evaluated on the log the real API produced
            let hyp = possible_history(&maps);
            out.tally("real-history-hypotheses", if hyp.is_some() { "hold" } else { "fail" });
            if let Some(t) = &hyp {
                // … and the log records exactly what the harness saw happen
                let seen: BTreeMap<u64, Vec<u64>> = hist.truth.iter().filter(|(k, _)| t.contains_key(k)).map(|(k, v)| (*k, v.clone())).collect();
                if seen != *t { out.oracle_fail("evolog:record-differs-from-rewrites", format!("history {h} after {step_kind}: recorded {t:?}, performed {seen:?}")); }
            } else {
                out.sample(format!("hypotheses fail on real history {h} after {step_kind}: {}", show_ops(&maps)));
            }
            for start in starts {
                let got = real_walk(&repo, &ops, &hist.names, &start);
                let resp = match &got { Ok(w) => show_walk(w), Err(_) => "panic".into() };
                out.case(&format!("walk {} {}", show_list(&start), show_ops(&maps)), &resp);
                out.tally("stream", "real-history");
                classify(out, &maps, &got, &start);
                oracle(out, &format!("history {h} after {step_kind}"), &hist.truth, &start, &got);
            }
        }
    }
}

pub fn run(cfg: &Cfg, out: &mut Out) {
    // thousands of small repositories: keep them on tmpfs when there is one (an fsync-heavy run on a busy disk is
    // 10× slower); `tempfile` honours TMPDIR.  Single-threaded at this point.
    if std::env::var_os("TMPDIR").is_none() && std::path::Path::new("/dev/shm").is_dir() {
        unsafe { std::env::set_var("TMPDIR", "/dev/shm") };
    }
    synthetic(cfg, out);
    real_histories(cfg, out);
    out.note("synthetic op logs over a pool of 7 real commits (well-formed and wild), then real rewrite histories with concurrent operations, restore and revert; operation order taken from the real walk_ancestors".to_string());
}
