//! C13 — concurrent operations are merged without losing work.
//!
//! One case = a random base repository (DAG ≤ 6 commits, ≤ 2 bookmarks, 1–2 workspaces), then 2–3
//! transactions started from the *same* `ReadonlyRepo` (new commits, rewrites, abandons, bookmark
//! set/delete, working-copy moves, workspace removal; each rebases its descendants and commits),
//! then `RepoLoader::load_at_head`, which reconciles the divergent operation heads with
//! `merge_operations`.  The request carries the base repository and, per side in merge order, the
//! commits that side added to the index and its final view; the answer is the index order of all
//! commits after the merge, the commits written by the merge (rebased descendants, recreated
//! working-copy commits) and the reconciled view.
//!
//! Oracle (from the property text): no change created by a side and visible in that side's result
//! disappears; a commit a side hid is not visible afterwards (unless that side left ≥ 2 visible
//! commits of its change = divergent, whose descendants jj deliberately leaves in place); a bookmark
//! / working copy changed by exactly one side (or identically by several) has that value when the
//! value's commits survive untouched; different values ⇒ conflict or the fast-forward winner, never
//! a silent drop; a workspace removed by a side stays removed.
use super::c11::{World, bm_name, desc_str, fail_once, make_tree, read_target, show_ids, show_tree, to_ref_target, tree_files, use_fast_tmp, ws_name, Target};
use crate::rt::*;
use futures::TryStreamExt as _;
use jj_lib::backend::CommitId;
use jj_lib::commit::Commit;
use jj_lib::ref_name::RefName;
use jj_lib::repo::{ReadonlyRepo, Repo};
use jj_lib::revset::{ResolvedRevsetExpression, RevsetExpression};
use jj_lib::rewrite::merge_commit_trees;
use pollster::FutureExt as _;
use std::collections::{BTreeMap, BTreeSet, HashSet};
use std::sync::Arc;
use testutils::TestRepo;

/// the given commits in ascending index position of `repo`
fn by_position(repo: &ReadonlyRepo, ids: Vec<CommitId>) -> Vec<CommitId> {
    let e: Arc<ResolvedRevsetExpression> = RevsetExpression::commits(ids);
    let mut v: Vec<CommitId> = e.evaluate(repo).unwrap().stream().try_collect().block_on().unwrap();
    v.reverse();
    v
}
/// every commit of the repo's index (also hidden ones)
fn all_indexed(repo: &ReadonlyRepo) -> Vec<CommitId> {
    let mut st: Vec<CommitId> = repo.index().all_heads_for_gc().unwrap().collect();
    let mut seen = HashSet::new();
    while let Some(id) = st.pop() {
        if !seen.insert(id.clone()) { continue; }
        for p in repo.store().get_commit(&id).unwrap().parent_ids() { st.push(p.clone()); }
    }
    seen.into_iter().collect()
}
thread_local! { static FLOOR: std::cell::RefCell<HashSet<CommitId>> = std::cell::RefCell::new(HashSet::new()); }
fn below_floor(c: &CommitId) -> bool { FLOOR.with(|f| f.borrow().contains(c)) }
/// number the commits of `repo`'s index that the world does not know yet, in index order
/// (commits left over from earlier cases in the same test repository are ignored)
fn sync_world(w: &mut World, repo: &ReadonlyRepo) -> Vec<usize> {
    let unknown: Vec<CommitId> = all_indexed(repo).into_iter().filter(|c| w.id(c).is_none() && !below_floor(c)).collect();
    by_position(repo, unknown).into_iter().map(|c| { let c = repo.store().get_commit(&c).unwrap(); w.add(c) }).collect()
}
fn visible(w: &World, repo: &ReadonlyRepo) -> BTreeSet<usize> {
    let hs: Vec<usize> = repo.view().heads().iter().map(|h| w.id(h).unwrap()).collect();
    w.ancestors(&hs)
}
fn view_strings(w: &World, repo: &ReadonlyRepo) -> (String, String, String) { super::c11::show_view(w, repo) }
fn commit_req(w: &World, i: usize) -> String {
    format!("{}/{}/{}/{}", show_ids(&w.parents[i]), w.change(i), w.desc(i), show_tree(&tree_files(&w.commits[i].tree())))
}

struct SideInfo { repo: Arc<ReadonlyRepo>, vis: BTreeSet<usize>, bms: BTreeMap<String, Target>, wcs: BTreeMap<String, usize> }
fn side_info(w: &World, repo: &Arc<ReadonlyRepo>) -> SideInfo {
    SideInfo { repo: repo.clone(), vis: visible(w, repo),
        bms: repo.view().local_bookmarks().map(|(n, t)| (n.as_str().to_string(), read_target(w, t))).collect(),
        wcs: repo.view().wc_commit_ids().iter().map(|(n, c)| (n.as_str().to_string(), w.id(c).unwrap())).collect() }
}

/// a scripted side: ops in the C11 syntax (`n:parents:desc:tree`, `r:old:parents:desc:tree`, `a:old`,
/// `b:name:target`, `w:ws:id`) plus `x:ws` (remove workspace); ids are the request ids
fn run_scripted_side(ops: &[&str], w: &mut World, base: &Arc<ReadonlyRepo>) -> Option<Arc<ReadonlyRepo>> {
    let list = |s: &str| -> Vec<usize> { if s == "-" { vec![] } else { s.split(',').map(|x| x.parse().unwrap()).collect() } };
    let listu = |s: &str| -> Vec<u64> { if s == "-" { vec![] } else { s.split(',').map(|x| x.parse().unwrap()).collect() } };
    let mut tx = base.start_transaction();
    for op in ops {
        let f: Vec<&str> = op.split(':').collect();
        match f[0] {
            "n" => { let t = make_tree(tx.repo_mut(), &listu(f[3])); let c = tx.repo_mut().new_commit(list(f[1]).iter().map(|p| w.cid(*p)).collect(), t).set_description(desc_str(f[2].parse().unwrap())).write().block_on().unwrap(); w.add(c); }
            "r" => { let o: usize = f[1].parse().unwrap(); let t = make_tree(tx.repo_mut(), &listu(f[4]));
                let c = tx.repo_mut().rewrite_commit(&w.commits[o]).set_parents(list(f[2]).iter().map(|p| w.cid(*p)).collect()).set_description(desc_str(f[3].parse().unwrap())).set_tree(t).write().block_on().unwrap(); w.add(c); }
            "a" => { let o: usize = f[1].parse().unwrap(); tx.repo_mut().record_abandoned_commit(&w.commits[o]); }
            "b" => { let t: Target = f[2].split(',').map(|x| if x == "x" { None } else { Some(x.parse().unwrap()) }).collect(); tx.repo_mut().set_local_bookmark_target(RefName::new(&bm_name(f[1].parse().unwrap())), to_ref_target(w, &t)); }
            "w" => { tx.repo_mut().set_wc_commit(ws_name(f[1].parse().unwrap()), w.cid(f[2].parse().unwrap())).unwrap(); }
            "x" => { let _ = tx.repo_mut().remove_workspace(&ws_name(f[1].parse().unwrap())).block_on(); }
            _ => panic!("bad script op {op}"),
        }
    }
    if !matches!(guard(|| tx.repo_mut().rebase_descendants().block_on()), Ok(Ok(_))) { return None; }
    let side = tx.commit("side").block_on().unwrap();
    sync_world(w, &side);
    Some(side)
}

/// fixed scenario: base commits `parents/desc/tree;…`, bookmarks `name=id;…`, workspaces `ws=id;…`, sides
struct Script { commits: &'static str, bms: &'static str, wcs: &'static str, sides: &'static [&'static [&'static str]] }

const FIXED: &[Script] = &[
    // disjoint work: A adds a child of 2, B adds a child of 1 and moves bookmark 1
    Script { commits: "0/1/1;1/2/1,2", bms: "1=1", wcs: "1=2", sides: &[&["n:2:11:1,2,11"], &["n:1:12:1,12", "b:1:4"]] },
    // A rewrites 1 (2 follows), B adds a child on the old 2 and moves the wc there: child and wc are rebased
    Script { commits: "0/1/1;1/2/1,2", bms: "1=2", wcs: "1=2", sides: &[&["r:1:0:21:1"], &["n:2:22:1,2,22", "w:1:5"]] },
    // A abandons 2, B moves bookmark 1 to 2: the bookmark ends on 2's parent
    Script { commits: "0/1/1;1/2/1,2", bms: "1=1", wcs: "1=1", sides: &[&["a:2"], &["b:1:2"]] },
    // both sides move the same bookmark differently: conflict; same move: kept
    Script { commits: "0/1/1;0/2/2;0/3/3", bms: "1=1;2=1", wcs: "1=1", sides: &[&["b:1:2", "b:2:3"], &["b:1:3", "b:2:3"]] },
    // both sides rewrite the same commit: divergent change, both kept
    Script { commits: "0/1/1;1/2/1,2", bms: "1=1", wcs: "1=2", sides: &[&["r:1:0:31:1"], &["r:1:0:32:1"]] },
    // working copy: moved by A only / removed by B / moved by both
    Script { commits: "0/1/1;0/2/2;0/3/3", bms: "-", wcs: "1=1;2=1", sides: &[&["w:1:2", "w:2:2"], &["x:1", "w:2:3"]] },
    // three sides
    Script { commits: "0/1/1;1/2/1,2", bms: "1=2", wcs: "1=2", sides: &[&["n:2:41:1,2,41"], &["r:2:1:42:1,2"], &["a:1"]] },
    // KNOWN FINDING opmerge:cyclic-concurrent-rebases — A moves 1 onto 2, B moves 2 onto 1
    Script { commits: "0/1/-;0/2/2", bms: "-", wcs: "1=2", sides: &[&["r:1:2:103:-"], &["r:2:1:104:2"]] },
    // KNOWN FINDING opmerge:cyclic-concurrent-rebases-panic — 1, 2←3←4; A: 4 onto 2 (+ new commits);
    // B: 1 onto 4 and a child of 1; C: 2 onto 1
    Script { commits: "0/0/1;0/2/2;2/0/2,3;3/4/2,3,4", bms: "-", wcs: "1=4;2=3",
             sides: &[&["n:0:103:103", "r:4:2:4:2,4", "n:2:0:2", "w:1:6", "w:2:7"], &["r:1:4:104:1", "n:1:106:1", "w:1:2"], &["r:2:1:108:2"]] },
];

fn run_side(r: &mut Rng, w: &mut World, base: &Arc<ReadonlyRepo>, base_n: usize, counter: &mut u64) -> Option<Arc<ReadonlyRepo>> {
    let mut tx = base.start_transaction();
    let mut own: Vec<usize> = vec![];           // commits written by this side
    let mut touched: BTreeSet<usize> = BTreeSet::new();
    let base_vis: Vec<usize> = visible(w, base).into_iter().collect();
    for _ in 0..r.range(1, 3) {
        *counter += 1;
        let cands: Vec<usize> = base_vis.iter().copied().chain(own.iter().copied()).collect();
        let nonroot: Vec<usize> = cands.iter().copied().filter(|c| *c != 0 && !touched.contains(c)).collect();
        match r.below(100) {
            0..=24 => { // new commit on top of one or two commits
                let mut ps = vec![*r.pick(&cands)];
                if r.chance(1, 5) { let q = *r.pick(&cands); if q != ps[0] && q != 0 && ps[0] != 0 { ps.push(q); } }
                let cs: Vec<Commit> = ps.iter().map(|p| w.commits[*p].clone()).collect();
                let mut tree = tree_files(&merge_commit_trees(tx.repo(), &cs).block_on().unwrap()).unwrap_or_default();
                if r.chance(2, 3) { tree.push(*counter); }
                let t = make_tree(tx.repo_mut(), &tree);
                let c = tx.repo_mut().new_commit(ps.iter().map(|p| w.cid(*p)).collect(), t).set_description(desc_str(if r.chance(1, 4) { 0 } else { *counter })).write().block_on().unwrap();
                own.push(w.add(c));
            }
            25..=54 => { // rewrite: new description, sometimes new parents (never onto own descendants)
                if nonroot.is_empty() { continue; }
                let o = *r.pick(&nonroot);
                let new_tree = if r.chance(1, 5) { let mut tree = tree_files(&w.commits[o].tree()).unwrap_or_default(); tree.push(*counter); Some(make_tree(tx.repo_mut(), &tree)) } else { None };
                let mut b = tx.repo_mut().rewrite_commit(&w.commits[o]).set_description(desc_str(*counter));
                if r.chance(1, 4) {
                    let ok: Vec<usize> = base_vis.iter().copied().filter(|c| !w.is_anc(o, *c) && !touched.contains(c)).collect();
                    if !ok.is_empty() { b = b.set_parents(vec![w.cid(*r.pick(&ok))]); }
                }
                if let Some(t) = new_tree { b = b.set_tree(t); }
                let c = b.write().block_on().unwrap();
                touched.insert(o);
                own.push(w.add(c));
            }
            55..=69 => { if nonroot.is_empty() { continue; } let o = *r.pick(&nonroot); tx.repo_mut().record_abandoned_commit(&w.commits[o]); touched.insert(o); }
            70..=87 => { // bookmark set / delete
                let b = r.range(1, 2);
                let t: Target = if r.chance(1, 5) { vec![None] } else { vec![Some(*r.pick(&cands))] };
                tx.repo_mut().set_local_bookmark_target(RefName::new(&bm_name(b)), to_ref_target(w, &t));
            }
            88..=95 => { let k = r.range(1, 2); let c = *r.pick(&cands); if c != 0 { tx.repo_mut().set_wc_commit(ws_name(k), w.cid(c)).unwrap(); } }
            _ => { let k = r.range(1, 2); let _ = tx.repo_mut().remove_workspace(&ws_name(k)).block_on(); }
        }
    }
    let _ = base_n;
    // (a side that trips over the C11 finding `rewrite:panic-wc-edit-root` is discarded)
    if !matches!(guard(|| tx.repo_mut().rebase_descendants().block_on()), Ok(Ok(_))) { return None; }
    let side = tx.commit("side").block_on().unwrap();
    sync_world(w, &side);
    Some(side)
}

/// Cases are chained in one test repository (creating one costs more than a case): every case
/// starts from the single operation head the previous case left, with the view reset to the root.
struct Chain { _test_repo: TestRepo, prev: Arc<ReadonlyRepo>, used: usize }
impl Chain { fn fresh() -> Self { FLOOR.with(|f| f.borrow_mut().clear()); let t = TestRepo::init(); let prev = t.repo.clone(); Chain { _test_repo: t, prev, used: 0 } } }

fn one(out: &mut Out, r: &mut Rng, cap: usize, chain: &mut Option<Chain>, script: Option<&Script>) {
    if chain.as_ref().is_none_or(|c| c.used >= 48) { *chain = Some(Chain::fresh()); }
    // taken out: an early return (discarded case) leaves several operation heads behind, so the
    // next case must start in a fresh repository
    let mut ch = chain.take().unwrap();
    let repo0 = ch.prev.clone();
    let mut w = World::new(repo0.store().root_commit());
    let mut tx = repo0.start_transaction();
    tx.repo_mut().set_view(jj_lib::op_store::View::make_root(repo0.store().root_commit_id().clone()));
    let script_commits: Vec<&str> = script.map_or(vec![], |sc| sc.commits.split(';').collect());
    let n = if script.is_some() { script_commits.len() } else { r.range(1, cap) };
    for c in &script_commits {
        let f: Vec<&str> = c.split('/').collect();
        let list = |s: &str| -> Vec<u64> { if s == "-" { vec![] } else { s.split(',').map(|x| x.parse().unwrap()).collect() } };
        let t = make_tree(tx.repo_mut(), &list(f[2]));
        let c = tx.repo_mut().new_commit(list(f[0]).iter().map(|p| w.cid(*p as usize)).collect(), t).set_description(desc_str(f[1].parse().unwrap())).write().block_on().unwrap();
        w.add(c);
    }
    for i in 1..=(if script.is_some() { 0 } else { n }) {
        let mut ps: Vec<usize> = vec![if r.chance(1, 2) { i - 1 } else { r.below(i) }];
        if r.chance(1, 6) && i >= 3 { let q = r.range(1, i - 1); if q != ps[0] && ps[0] != 0 { ps.push(q); } }
        let cs: Vec<Commit> = ps.iter().map(|p| w.commits[*p].clone()).collect();
        let mut tree = tree_files(&merge_commit_trees(tx.repo(), &cs).block_on().unwrap()).unwrap_or_default();
        if r.chance(3, 4) { tree.push(i as u64); }
        let t = make_tree(tx.repo_mut(), &tree);
        let c = tx.repo_mut().new_commit(ps.iter().map(|p| w.cid(*p)).collect(), t).set_description(desc_str(if r.chance(1, 4) { 0 } else { i as u64 })).write().block_on().unwrap();
        w.add(c);
    }
    if let Some(sc) = script {
        let pairs = |s: &str| -> Vec<(usize, usize)> { if s == "-" { vec![] } else { s.split(';').map(|x| { let (a, b) = x.split_once('=').unwrap(); (a.parse().unwrap(), b.parse().unwrap()) }).collect() } };
        for (b, c) in pairs(sc.bms) { tx.repo_mut().set_local_bookmark_target(RefName::new(&bm_name(b)), to_ref_target(&w, &vec![Some(c)])); }
        for (k, c) in pairs(sc.wcs) { tx.repo_mut().set_wc_commit(ws_name(k), w.cid(c)).unwrap(); }
    } else {
        for b in 1..=r.below(3) { let t: Target = vec![Some(r.range(1, n))]; tx.repo_mut().set_local_bookmark_target(RefName::new(&bm_name(b)), to_ref_target(&w, &t)); }
        for k in 1..=r.range(1, 2) { let c = if r.chance(1, 2) { n } else { r.range(1, n) }; tx.repo_mut().set_wc_commit(ws_name(k), w.cid(c)).unwrap(); }
    }
    let base = tx.commit("base").block_on().unwrap();
    let base_info = side_info(&w, &base);
    let (bh, bb, bw) = view_strings(&w, &base);
    let mut req = format!("merge {} {bh} {bb} {bw}", (1..=n).map(|i| commit_req(&w, i)).collect::<Vec<_>>().join(";"));

    let nsides = if let Some(sc) = script { sc.sides.len() } else if r.chance(3, 4) { 2 } else { 3 };
    let mut counter = 100u64;
    let mut sides: Vec<SideInfo> = vec![];
    for k in 0..nsides {
        let from = w.commits.len();
        let side = if let Some(sc) = script { run_scripted_side(sc.sides[k], &mut w, &base) } else { run_side(r, &mut w, &base, n, &mut counter) };
        let Some(side) = side else { out.tally("result", "side-discarded"); out.impl_only(); return; };
        let (h, b, wc) = view_strings(&w, &side);
        let cs: Vec<String> = (from..w.commits.len()).map(|i| commit_req(&w, i)).collect();
        req += &format!(" {} {h} {b} {wc}", if cs.is_empty() { "-".into() } else { cs.join(";") });
        sides.push(side_info(&w, &side));
        std::thread::sleep(std::time::Duration::from_millis(2));
    }
    let known = w.commits.len();
    // (same loader = same settings = same RNG stream as the transactions above: a fresh
    // `user_settings()` restarts the seeded test RNG and hands out the base commits' change ids again)
    let cyclic = is_cyclic(&w, &base_info, &sides);
    let merged = guard(|| base.loader().load_at_head().block_on().unwrap());
    out.tally("sides", &nsides.to_string());
    let resp = match merged {
        Err(msg) => { out.tally("result", "panic");
            let sig = if cyclic && msg.contains("graph has cycle") { "opmerge:cyclic-concurrent-rebases-panic" } else { "opmerge:panic" };
            fail_once(out, sig, format!("{msg} | C13 {req}")); "panic".to_string() }
        Ok(m) => {
            // the sides must have been merged in the order they were committed
            let parents: Vec<_> = m.operation().parent_ids().to_vec();
            let expect: Vec<_> = sides.iter().map(|s| s.repo.op_id().clone()).collect();
            if parents != expect { out.tally("result", "op-order-differs"); out.impl_only(); return; }
            sync_world(&mut w, &m);
            let order: Vec<usize> = by_position(&m, all_indexed(&m).into_iter().filter(|c| !below_floor(c)).collect()).iter().map(|c| w.id(c).unwrap()).filter(|i| *i > n).collect();
            let news: Vec<String> = (known..w.commits.len()).map(|i| super::c11::show_commit(&w, i, m.operation().predecessors_for_commit(w.commits[i].id()))).collect();
            let (h, b, wc) = view_strings(&w, &m);
            out.tally("result", "ok");
            out.tally("rebased_by_merge", &(w.commits.len() - known).min(5).to_string());
            oracle(out, &w, &base_info, &sides, &m, &req, cyclic);
            if w.commits.len() > known || b.contains(',') { out.nontrivial(&req); }
            FLOOR.with(|f| { let mut f = f.borrow_mut(); for c in &w.commits { f.insert(c.id().clone()); } });
            ch.prev = m.clone(); ch.used += 1; *chain = Some(ch);
            format!("ok order={} new={} heads={h} bm={b} wc={wc}", show_ids(&order), if news.is_empty() { "-".into() } else { news.join(";") })
        }
    };
    out.case(&req, &resp);
}

fn is_cyclic(w: &World, base: &SideInfo, sides: &[SideInfo]) -> bool {
    // Two sides that rebase commits onto each other's commits (A: 1 onto 2, B: 2 onto 1) have no
    // consistent reconciliation: the graph child→parent ∪ old→rewrite (rewrites of all sides) is cyclic.
    {
        let nn = w.commits.len();
        let mut adj: Vec<Vec<usize>> = w.parents.iter().map(|p| p.iter().copied().filter(|x| *x != usize::MAX).collect()).collect();
        for s in sides { for c in &base.vis { if !s.vis.contains(c) { for x in &s.vis { if w.change(*x) == w.change(*c) { adj[*c].push(*x); } } } } }
        let mut state = vec![0u8; nn];
        fn dfs(u: usize, adj: &[Vec<usize>], st: &mut [u8]) -> bool { st[u] = 1; for &v in &adj[u] { if st[v] == 1 { return false; } if st[v] == 0 && !dfs(v, adj, st) { return false; } } st[u] = 2; true }
        !(0..nn).all(|u| state[u] != 0 || dfs(u, &adj, &mut state))
    }
}

fn oracle(out: &mut Out, w: &World, base: &SideInfo, sides: &[SideInfo], m: &Arc<ReadonlyRepo>, req: &str, cyclic: bool) {
    let mv = side_info(w, m);
    let vis_changes: BTreeSet<usize> = mv.vis.iter().map(|c| w.change(*c)).collect();
    let mut fails: Vec<(&str, String)> = vec![];
    // (1) commits_kept
    for (k, s) in sides.iter().enumerate() { for c in &s.vis { if !base.vis.contains(c) && !vis_changes.contains(&w.change(*c)) {
        fails.push(("opmerge:created-change-lost", format!("side {k}: commit {c} (change {}) visible in its result, change not visible after the merge", w.change(*c)))); } } }
    // (2) hidden_stay_hidden.  Exception made by the source: a commit whose change is divergent (two
    // visible rewrites — made by one side alone or by two sides independently) is recorded as
    // `Divergent`; its descendants, hence the commit itself and its ancestors, are left in place.
    let divergent_kept: Vec<usize> = base.vis.iter().copied().filter(|c| mv.vis.contains(c) && {
        let in_merge = mv.vis.iter().filter(|x| *x != c && w.change(**x) == w.change(*c)).count();
        let in_side = sides.iter().map(|s| if s.vis.contains(c) { 0 } else { s.vis.iter().filter(|x| w.change(**x) == w.change(*c)).count() }).max().unwrap_or(0);
        in_merge >= 2 || in_side >= 2 }).collect();
    for (k, s) in sides.iter().enumerate() { for c in &base.vis { if !s.vis.contains(c) && mv.vis.contains(c) {
        if !divergent_kept.iter().any(|d| w.is_anc(*c, *d)) { fails.push(("opmerge:hidden-commit-resurrected", format!("side {k} hid commit {c}, it is visible after the merge"))); } } } }
    // (3) refs_from_changer
    let stable = |t: &Target| t.iter().flatten().all(|c| mv.vis.contains(c) && sides.iter().all(|s| s.vis.contains(c) || !base.vis.contains(c)));
    let names: BTreeSet<String> = base.bms.keys().chain(sides.iter().flat_map(|s| s.bms.keys())).cloned().collect();
    for name in names {
        let absent: Target = vec![None];
        let b0 = base.bms.get(&name).unwrap_or(&absent);
        let vals: Vec<&Target> = sides.iter().map(|s| s.bms.get(&name).unwrap_or(&absent)).collect();
        let changed: Vec<&Target> = vals.iter().copied().filter(|v| *v != b0).collect();
        let got = mv.bms.get(&name).unwrap_or(&absent);
        let distinct: BTreeSet<&Target> = changed.iter().copied().collect();
        if !stable(b0) || !vals.iter().all(|v| stable(v)) { continue; }
        match distinct.len() {
            0 => if got != b0 { fails.push(("opmerge:unchanged-bookmark-moved", format!("{name}: nobody changed {b0:?}, merged {got:?}"))); },
            1 => { let v = *distinct.iter().next().unwrap(); if got != v { fails.push(("opmerge:bookmark-change-lost", format!("{name}: base {b0:?}, changed to {v:?}, merged {got:?}"))); } }
            _ => {
                // different values: never a silent drop — every value is still an add of the result or
                // was fast-forwarded to a descendant that is (C12: an ancestor add is replaced by its
                // descendant, absent base counts as the root); delete-vs-move must stay a conflict
                let adds: BTreeSet<usize> = got.iter().step_by(2).flatten().copied().collect();
                let wanted: BTreeSet<usize> = distinct.iter().flat_map(|t| t.iter().step_by(2).flatten().copied()).collect();
                let covered = wanted.iter().all(|x| adds.iter().any(|a| w.is_anc(*x, *a)));
                let deleted_vs_moved = distinct.iter().any(|t| **t == absent);
                if !covered || (deleted_vs_moved && got.len() == 1) {
                    fails.push(("opmerge:conflicting-bookmark-change-dropped", format!("{name}: base {b0:?}, sides {vals:?}, merged {got:?}"))); }
            }
        }
    }
    // (4) wc_rule
    let wnames: BTreeSet<String> = base.wcs.keys().chain(sides.iter().flat_map(|s| s.wcs.keys())).cloned().collect();
    for name in wnames {
        let b0 = base.wcs.get(&name).copied();
        let vals: Vec<Option<usize>> = sides.iter().map(|s| s.wcs.get(&name).copied()).collect();
        let got = mv.wcs.get(&name).copied();
        let st = |c: &Option<usize>| c.map_or(true, |c| mv.vis.contains(&c) && sides.iter().all(|s| s.vis.contains(&c) || !base.vis.contains(&c)));
        let changed: Vec<Option<usize>> = vals.iter().copied().filter(|v| *v != b0).collect();
        if b0.is_some() && changed.iter().any(|v| v.is_none()) { if got.is_some() { fails.push(("opmerge:removed-workspace-back", format!("{name}: removed by a side, merged {got:?}"))); } continue; }
        if !st(&b0) || !vals.iter().all(st) { continue; }
        let distinct: BTreeSet<Option<usize>> = changed.iter().copied().collect();
        match distinct.len() {
            0 => if got != b0 { fails.push(("opmerge:unchanged-wc-moved", format!("{name}: {b0:?} merged {got:?}"))); },
            1 => if got != *distinct.iter().next().unwrap() { fails.push(("opmerge:wc-change-lost", format!("{name}: base {b0:?} sides {vals:?} merged {got:?}"))); },
            _ => if !distinct.contains(&got) { fails.push(("opmerge:wc-invented", format!("{name}: base {b0:?} sides {vals:?} merged {got:?}"))); },
        }
    }
    if cyclic { out.tally("shape", "cyclic-concurrent-rebases"); }
    if fails.is_empty() { out.oracle_ok(); } else { let (sig0, d) = &fails[0]; let sig = &(if cyclic { "opmerge:cyclic-concurrent-rebases" } else { *sig0 }); fail_once(out, sig, format!("{d} | all: {:?} | C13 {req}", fails.iter().map(|f| f.0).collect::<Vec<_>>())); }
}

pub fn run(cfg: &Cfg, out: &mut Out) {
    use_fast_tmp();
    let mut r = cfg.rng(13);
    let total = cfg.n(1000, 12_000);
    let mut chain: Option<Chain> = None;
    for sc in FIXED { one(out, &mut r, 0, &mut chain, Some(sc)); }
    for k in 0..total {
        let cap = if k < total / 8 { 2 } else if k < total / 3 { 4 } else { 6 };
        one(out, &mut r, cap, &mut chain, None);
    }
    out.note("random base repositories (≤6 commits) × 2–3 concurrent transactions from the same base (new/rewrite/abandon/bookmark/wc/workspace-removal ops) reconciled by load_at_head; criss-cross operation graphs are not generated".into());
}
