//! Shared machinery of the working-copy properties C23, C24, C25, C27: a real `TestWorkspace` in a
//! temp dir, direct directory scans, and one correspondence case per real
//! `snapshot` / `check_out` / `set_sparse_patterns` call (the request carries the whole pre-state,
//! see `lean/JjModel/Drv/WorkingCopy.lean` for the line protocol).
#![allow(dead_code)]
use crate::rt::*;
use jj_lib::backend::TreeValue;
use jj_lib::conflicts::{
    ConflictMarkerStyle, ConflictMaterializeOptions, MaterializedTreeValue, choose_materialized_conflict_marker_len,
    materialize_merge_result_to_bytes, materialize_tree_value,
};
use jj_lib::gitignore::GitIgnoreFile;
use jj_lib::local_working_copy::LocalWorkingCopy;
use jj_lib::matchers::{EverythingMatcher, NothingMatcher};
use jj_lib::merged_tree::MergedTree;
use jj_lib::repo::Repo;
use jj_lib::repo_path::{RepoPath, RepoPathBuf};
use jj_lib::working_copy::{CheckoutStats, SnapshotOptions};
use pollster::FutureExt as _;
use std::collections::{BTreeMap, BTreeSet};
use std::hash::{Hash, Hasher};
use std::os::unix::fs::PermissionsExt as _;
use std::path::{Path, PathBuf};
use std::sync::{Mutex, Once};
use testutils::{TestThreeWayMergeTreeBuilder, TestWorkspace, commit_with_tree, repo_path};

/// path = component list; `Vec<String>` order is `RepoPath` order (component-wise, prefix first)
pub type P = Vec<String>;
pub fn p(s: &str) -> P { if s.is_empty() || s == "." { vec![] } else { s.split('/').map(String::from).collect() } }
pub fn show_p(p: &P) -> String { if p.is_empty() { ".".into() } else { p.join("/") } }
pub fn is_prefix(a: &P, b: &P) -> bool { a.len() <= b.len() && a[..] == b[..a.len()] }
pub fn is_strict_prefix(a: &P, b: &P) -> bool { a.len() < b.len() && is_prefix(a, b) }
pub fn in_sparse(pats: &[P], q: &P) -> bool { pats.iter().any(|s| is_prefix(s, q)) }

#[derive(Clone, Debug, PartialEq, Eq, Hash)]
pub enum Ent { File(Vec<u8>, bool), Link(String), Dir }
#[derive(Clone, Debug, PartialEq, Eq, Hash)]
pub enum TV { File(Vec<u8>, bool), Link(String), Conflict { id: String, mat: Vec<u8>, exec: bool } }
pub type Disk = BTreeMap<P, Ent>;
pub type TreeM = BTreeMap<P, TV>;

/// generator-side description of a tree value
#[derive(Clone, Debug, PartialEq, Eq, Hash)]
pub enum GenV { File(Vec<u8>, bool), Link(String), Conflict(Vec<u8>, Vec<u8>, Vec<u8>) }
pub type GenTree = BTreeMap<P, GenV>;

impl TV {
    /// what a checkout writes for this value (conflicts: the marker file)
    pub fn on_disk(&self) -> Ent {
        match self {
            TV::File(c, x) => Ent::File(c.clone(), *x),
            TV::Link(t) => Ent::Link(t.clone()),
            TV::Conflict { mat, exec, .. } => Ent::File(mat.clone(), *exec),
        }
    }
}

pub fn show_ent(e: &Ent) -> String {
    match e {
        Ent::File(c, x) => format!("f:{}:{}", hex(c), *x as u8),
        Ent::Link(t) => format!("l:{}", hex(t.as_bytes())),
        Ent::Dir => "d".into(),
    }
}
pub fn show_tv(v: &TV) -> String {
    match v {
        TV::File(c, x) => format!("f:{}:{}", hex(c), *x as u8),
        TV::Link(t) => format!("l:{}", hex(t.as_bytes())),
        TV::Conflict { id, mat, exec } => format!("c:{id}:{}:{}", hex(mat), *exec as u8),
    }
}
fn joined(v: Vec<String>) -> String { if v.is_empty() { "-".into() } else { v.join(";") } }
pub fn show_disk(d: &Disk) -> String { joined(d.iter().map(|(k, e)| format!("{}={}", show_p(k), show_ent(e))).collect()) }
pub fn show_tree(t: &TreeM) -> String { joined(t.iter().map(|(k, v)| format!("{}={}", show_p(k), show_tv(v))).collect()) }
pub fn show_set(s: &BTreeSet<P>) -> String { joined(s.iter().map(show_p).collect()) }
pub fn show_seq(s: &[P]) -> String { joined(s.iter().map(show_p).collect()) }

/// direct scan of a directory: every entry below `root` (the top-level `.jj` excluded)
pub fn scan(root: &Path) -> Disk {
    fn rec(root: &Path, dir: &Path, out: &mut Disk) {
        for e in std::fs::read_dir(dir).unwrap() {
            let e = e.unwrap();
            let path = e.path();
            if dir == root && e.file_name() == ".jj" { continue; }
            let rel = p(path.strip_prefix(root).unwrap().to_str().unwrap());
            let md = std::fs::symlink_metadata(&path).unwrap();
            if md.file_type().is_symlink() {
                out.insert(rel, Ent::Link(std::fs::read_link(&path).unwrap().to_str().unwrap().into()));
            } else if md.is_dir() {
                out.insert(rel, Ent::Dir);
                rec(root, &path, out);
            } else {
                out.insert(rel, Ent::File(std::fs::read(&path).unwrap(), md.permissions().mode() & 0o111 != 0));
            }
        }
    }
    let mut out = Disk::new();
    rec(root, root, &mut out);
    out
}
pub fn leaves(d: &Disk) -> Disk { d.iter().filter(|(_, e)| **e != Ent::Dir).map(|(k, e)| (k.clone(), e.clone())).collect() }

// ---------------------------------------------------------------------------------------------
// hook trace (`wc.remove`, `wc.create` in /repo/lib/src/local_working_copy.rs, cfg jj_vcs_jj_verif)

static TRACE: Mutex<Vec<(String, String)>> = Mutex::new(Vec::new());
static HOOK: Once = Once::new();
fn install_hook() {
    HOOK.call_once(|| {
        jj_lib::verif_hooks::set_hook(Some(Box::new(|kind, detail| {
            if kind == "wc.remove" || kind == "wc.create" {
                TRACE.lock().unwrap().push((kind.to_string(), detail.to_string()));
            }
        })));
    });
}

// ---------------------------------------------------------------------------------------------
// ignore rules: a small pattern language evaluated here, independently of jj's gitignore code

/// patterns: `/a/b/` `/a/b` (anchored), `name/` `name` (any depth); a trailing `/` = directories only
pub fn pattern_matches(pat: &str, base: &P, q: &P, is_dir: bool) -> bool {
    let dir_only = pat.ends_with('/');
    if dir_only && !is_dir { return false; }
    let body = pat.trim_end_matches('/');
    if !is_prefix(base, q) || q.len() == base.len() { return false; }
    let rel = &q[base.len()..];
    if let Some(anch) = body.strip_prefix('/') {
        rel.join("/") == anch
    } else {
        rel.last().map(|s| s.as_str()) == Some(body)
    }
}

/// the ignore files in force: (directory they live in, patterns)
pub type Ignores = Vec<(P, Vec<String>)>;

/// git semantics without negation: a path is ignored iff it or one of its parent directories matches
pub fn is_ignored(ign: &Ignores, q: &P, is_dir: bool) -> bool {
    (1..=q.len()).any(|n| {
        let anc: P = q[..n].to_vec();
        let anc_is_dir = n < q.len() || is_dir;
        ign.iter().any(|(base, pats)| pats.iter().any(|pat| pattern_matches(pat, base, &anc, anc_is_dir)))
    })
}

// ---------------------------------------------------------------------------------------------

/// tree paths whose every suffix is mirrored into the canary directory (directories for the proper
/// prefixes, a file at the end): a superset of the path alphabets of C23/C24/C25/C27
pub const CANARY_SKELETON: &[&str] = &["f", "g", "d/x", "d/y", "d/e/z", "h/i", "ig/a", "ig/b/c", "d/ig/q", "y", "d/c",
                                       "d/e/w/v", "ig/b/k/m", "h/j/n"];

pub struct Env {
    pub tw: TestWorkspace,
    pub root: PathBuf,
    /// out-of-workspace directory that nothing may touch
    pub canary: PathBuf,
    pub canary_before: Disk,
}

pub struct Pre { pub tree: TreeM, pub states: BTreeSet<P>, pub sparse: Vec<P>, pub disk: Disk }

pub struct SnapResult {
    pub pre: Pre, pub ign_set: BTreeSet<P>, pub result: Result<(TreeM, BTreeSet<P>), String>, pub tree: Option<MergedTree>,
    /// the snapshot failed in the known class F-C23-1 (see notes/C23.md): a tracked path below an
    /// ignored directory whose parent on disk is no longer a directory (ENOTDIR is not NotFound)
    pub known_enotdir: bool,
    /// the snapshot hit the known class F-C23-2: a file (or symlink) on disk replaces a directory
    /// that holds a conflicted path; `write_path_to_store` keeps the old (tree-valued) conflict, so
    /// the file gets a file state but no tree entry (debug builds: `assert_eq!(state_paths, tree_paths)`)
    pub known_conflict_dir: bool,
    /// known class F-C23-3: below an ignored directory `visit_tracked_files` stats the tracked path
    /// *through* a symlinked intermediate directory and records whatever the link leads to
    pub known_symlink_follow: bool,
}
pub struct UpdResult { pub pre: Pre, pub new_tree: TreeM, pub result: Result<(Disk, BTreeSet<P>, CheckoutStats), String>, pub trace: Vec<P>, pub escaped: Vec<String>,
    /// the update panicked in the known class F-C25-1 (`changed_file_states` not sorted, see notes/C25.md)
    pub known_unsorted: bool }

fn conflict_id<T: std::fmt::Debug>(v: &T) -> String {
    let mut h = std::collections::hash_map::DefaultHasher::new();
    format!("{v:?}").hash(&mut h);
    format!("{:08x}", h.finish() as u32)
}

/// flat view of a merged tree; conflicts carry their materialisation (computed with the same
/// library calls `TreeState::update` uses — an opaque byte string for the model)
pub fn read_tree(tree: &MergedTree) -> TreeM {
    let store = tree.store();
    let mut out = TreeM::new();
    for (path, value) in tree.entries() {
        let value = value.unwrap();
        let key = p(path.as_internal_file_string());
        let tv = match value.clone().into_resolved() {
            Ok(Some(TreeValue::File { id, executable, .. })) => TV::File(testutils::read_file(store, &path, &id), executable),
            Ok(Some(TreeValue::Symlink(id))) => TV::Link(store.read_symlink(&path, &id).block_on().unwrap()),
            Ok(other) => panic!("unexpected tree value {other:?}"),
            Err(conflict) => {
                let id = conflict_id(&conflict);
                match materialize_tree_value(store, &path, conflict, tree.labels()).block_on().unwrap() {
                    MaterializedTreeValue::FileConflict(file) => {
                        let marker_len = choose_materialized_conflict_marker_len(&file.contents);
                        let options = ConflictMaterializeOptions {
                            marker_style: ConflictMarkerStyle::Diff,
                            marker_len: Some(marker_len),
                            merge: store.merge_options().clone(),
                        };
                        let mat = materialize_merge_result_to_bytes(&file.contents, &file.labels, &options);
                        TV::Conflict { id, mat: mat.to_vec(), exec: file.executable.unwrap_or(false) }
                    }
                    MaterializedTreeValue::OtherConflict { id: v, labels } => {
                        TV::Conflict { id, mat: v.describe(&labels).into_bytes(), exec: false }
                    }
                    _ => panic!("unexpected materialisation"),
                }
            }
        };
        out.insert(key, tv);
    }
    out
}

pub fn rp(q: &P) -> RepoPathBuf { if q.is_empty() { RepoPathBuf::root() } else { repo_path(&q.join("/")).to_owned() } }

impl Env {
    pub fn new() -> Env { Self::from_tw(TestWorkspace::init()) }
    pub fn with_settings(settings: &jj_lib::settings::UserSettings) -> Env { Self::from_tw(TestWorkspace::init_with_settings(settings)) }
    fn from_tw(tw: TestWorkspace) -> Env {
        install_hook();
        let root = tw.workspace.workspace_root().to_owned();
        let canary = tw.env.root().join("canary");
        std::fs::create_dir_all(canary.join("sub")).unwrap();
        std::fs::write(canary.join("x"), b"canary-x").unwrap();
        std::fs::write(canary.join("sub").join("z"), b"canary-z").unwrap();
        std::fs::write(canary.join("f"), b"canary-f").unwrap();
        // mirror of the generators' directory skeleton (strengthened after seed C25): whatever
        // directory component of a tree path is replaced by a symlink to the canary, the deeper
        // directories (and a file at the path itself) already exist behind the link
        for pass in 0..2 {
            for s in CANARY_SKELETON {
                let q = p(s);
                for n in 0..q.len() {
                    let suffix = &q[n..];
                    if pass == 0 {
                        if suffix.len() > 1 { std::fs::create_dir_all(suffix[..suffix.len() - 1].iter().fold(canary.clone(), |a, c| a.join(c))).unwrap(); }
                    } else {
                        let f = suffix.iter().fold(canary.clone(), |a, c| a.join(c));
                        if std::fs::symlink_metadata(&f).is_err() { std::fs::write(&f, format!("canary {}\n", suffix.join("/"))).unwrap(); }
                    }
                }
            }
        }
        let canary_before = scan(&canary);
        Env { tw, root, canary, canary_before }
    }
    pub fn canary_intact(&self) -> bool { scan(&self.canary) == self.canary_before }
    /// the entries of the canary directory that differ from its initial state (`path: before -> now`)
    pub fn canary_diff(&self) -> String {
        let now = scan(&self.canary);
        let keys: BTreeSet<&P> = now.keys().chain(self.canary_before.keys()).collect();
        keys.into_iter().filter(|k| now.get(*k) != self.canary_before.get(*k))
            .map(|k| format!("{}: {} -> {}", show_p(k), self.canary_before.get(k).map_or("absent".into(), show_ent), now.get(k).map_or("absent".into(), show_ent)))
            .collect::<Vec<_>>().join(", ")
    }

    /// builds a (possibly conflicted) tree in the store
    pub fn build_tree(&self, t: &GenTree) -> MergedTree {
        let store = self.tw.repo.store().clone();
        let mut b = TestThreeWayMergeTreeBuilder::new(store);
        for (q, v) in t {
            let path = rp(q);
            match v {
                GenV::File(c, x) => {
                    let _ = b.base().file(&path, c).executable(*x);
                    let _ = b.parent1().file(&path, c).executable(*x);
                    let _ = b.parent2().file(&path, c).executable(*x);
                }
                GenV::Link(t) => { b.base().symlink(&path, t); b.parent1().symlink(&path, t); b.parent2().symlink(&path, t); }
                GenV::Conflict(base, l, r) => {
                    let _ = b.base().file(&path, base);
                    let _ = b.parent1().file(&path, l);
                    let _ = b.parent2().file(&path, r);
                }
            }
        }
        b.write_merged_tree().resolve().block_on().unwrap()
    }

    pub fn wc(&self) -> &LocalWorkingCopy { self.tw.workspace.working_copy().downcast_ref::<LocalWorkingCopy>().unwrap() }
    pub fn states(&self) -> BTreeSet<P> {
        self.wc().file_states().unwrap().paths().map(|q| p(q.as_internal_file_string())).collect()
    }
    pub fn sparse(&self) -> Vec<P> {
        use jj_lib::working_copy::WorkingCopy as _;
        self.wc().sparse_patterns().unwrap().iter().map(|q| p(q.as_internal_file_string())).collect()
    }
    pub fn current_tree(&self) -> MergedTree {
        use jj_lib::working_copy::WorkingCopy as _;
        self.wc().tree().unwrap().clone()
    }
    pub fn pre(&self) -> Pre {
        Pre { tree: read_tree(&self.current_tree()), states: self.states(), sparse: self.sparse(), disk: scan(&self.root) }
    }

    /// ignore files in force for a snapshot: the base patterns plus every `.gitignore` on disk
    pub fn ignores(&self, base: &[String], disk: &Disk) -> Ignores {
        let mut v: Ignores = vec![(vec![], base.to_vec())];
        for (q, e) in disk {
            if q.last().map(|s| s.as_str()) == Some(".gitignore")
                && let Ent::File(c, _) = e
            {
                let pats = String::from_utf8_lossy(c).lines().filter(|l| !l.is_empty()).map(String::from).collect();
                v.push((q[..q.len() - 1].to_vec(), pats));
            }
        }
        v
    }

    /// the real snapshot; emits one correspondence case
    pub fn snapshot(&mut self, out: &mut Out, base_ignores: &[String]) -> SnapResult {
        let pre = self.pre();
        let ign = self.ignores(base_ignores, &pre.disk);
        // decisions for every disk path (`matches_dir` for directories, `matches_file` otherwise)
        let ign_set: BTreeSet<P> = pre.disk.iter().filter(|(q, e)| is_ignored(&ign, q, **e == Ent::Dir)).map(|(q, _)| q.clone()).collect();
        let base = if base_ignores.is_empty() { GitIgnoreFile::empty() } else {
            GitIgnoreFile::empty().chain(RepoPath::root(), Path::new("base"), (base_ignores.join("\n") + "\n").as_bytes()).unwrap()
        };
        let options = SnapshotOptions {
            base_ignores: base,
            progress: None,
            start_tracking_matcher: &EverythingMatcher,
            force_tracking_matcher: &NothingMatcher,
            max_new_file_size: u64::MAX,
        };
        let got = guard(|| self.tw.snapshot_with_options(&options));
        let (result, tree) = match got {
            Ok(Ok((tree, _stats))) => (Ok((read_tree(&tree), self.states())), Some(tree)),
            Ok(Err(e)) => (Err(format!("err:{}", err_kind(&format!("{e}")))), None),
            Err(m) => { note_panic(&m); (Err("panic".to_string()), None) }
        };
        let req = format!("snap {} {} {} {} {}", show_tree(&pre.tree), show_set(&pre.states), show_seq(&pre.sparse),
                          show_disk(&pre.disk), show_set(&ign_set));
        let resp = match &result { Ok((t, s)) => format!("{} {}", show_tree(t), show_set(s)), Err(e) => e.clone() };
        let known_enotdir = result.as_ref().err().map(|e| e.as_str()) == Some("err:stat")
            && pre.states.iter().any(|q| in_sparse(&pre.sparse, q) && (1..q.len()).any(|n| {
                let anc = q[..n].to_vec();
                matches!(pre.disk.get(&anc), Some(Ent::File(..)) | Some(Ent::Link(_)))
                    && (1..n).any(|m| { let a2 = q[..m].to_vec(); pre.disk.get(&a2) == Some(&Ent::Dir) && ign_set.contains(&a2) })
            }));
        let dl = leaves(&pre.disk);
        let known_conflict_dir = result.as_ref().err().map(|e| e.as_str()) == Some("panic")
            && dl.keys().any(|q| in_sparse(&pre.sparse, q)
                && pre.tree.iter().any(|(k, v)| is_strict_prefix(q, k) && matches!(v, TV::Conflict { .. })));
        // a tracked path that is not on disk (an intermediate component is a symlink) but whose
        // path-following stat finds a file, below an ignored directory
        let known_symlink_follow = result.is_ok() && pre.states.iter().any(|q| in_sparse(&pre.sparse, q) && !pre.disk.contains_key(q)
            && (1..q.len()).any(|n| matches!(pre.disk.get(&q[..n].to_vec()), Some(Ent::Link(_)))
                && (1..n).any(|m| { let a2 = q[..m].to_vec(); pre.disk.get(&a2) == Some(&Ent::Dir) && ign_set.contains(&a2) }))
            && std::fs::symlink_metadata(self.fs(q)).is_ok_and(|m| !m.is_dir()));
        if known_enotdir || known_conflict_dir || known_symlink_follow {
            // the model describes the intended decision (the path is removed); the code fails instead.
            // Known finding: evaluated on the implementation only, reported by the oracle.
            out.impl_only();
        } else {
            out.case(&req, &resp);
        }
        SnapResult { pre, ign_set, result, tree, known_enotdir, known_conflict_dir, known_symlink_follow }
    }

    fn take_trace(&self) -> (Vec<P>, Vec<String>) {
        let raw: Vec<(String, String)> = std::mem::take(&mut *TRACE.lock().unwrap());
        let mut seq: Vec<P> = vec![];
        let mut escaped = vec![];
        for (_, d) in raw {
            match Path::new(&d).strip_prefix(&self.root) {
                Ok(rel) => { let q = p(rel.to_str().unwrap()); if seq.last() != Some(&q) { seq.push(q); } }
                Err(_) => escaped.push(d),
            }
        }
        (seq, escaped)
    }

    /// the real check_out of a tree; emits one correspondence case
    pub fn check_out(&mut self, out: &mut Out, tree: &MergedTree) -> UpdResult {
        let pre = self.pre();
        let new_tree = read_tree(tree);
        let commit = commit_with_tree(self.tw.repo.store(), tree.clone());
        TRACE.lock().unwrap().clear();
        *LAST_PANIC.lock().unwrap() = None;
        let op = self.tw.repo.op_id().clone();
        let got = guard(|| self.tw.workspace.check_out(op, None, &commit).block_on());
        let (trace, escaped) = self.take_trace();
        let result = match got {
            Ok(Ok(stats)) => Ok((scan(&self.root), self.states(), stats)),
            Ok(Err(e)) => Err(format!("err:{}", err_kind(&format!("{e}")))),
            Err(m) => { note_panic(&m); Err("panic".to_string()) }
        };
        let known_unsorted = LAST_PANIC.lock().unwrap().take().is_some_and(|m| m.contains("changed_file_states must be sorted"));
        let req = format!("co {} {} {} {} {}", show_tree(&pre.tree), show_set(&pre.states), show_seq(&pre.sparse),
                          show_disk(&pre.disk), show_tree(&new_tree));
        let resp = match &result {
            Ok((d, s, st)) => format!("{} {} {},{},{},{} {}", show_disk(d), show_set(s), st.updated_files, st.added_files,
                                      st.removed_files, st.skipped_files, show_seq(&trace)),
            Err(e) => e.clone(),
        };
        if known_unsorted { out.impl_only(); } else { out.case(&req, &resp); }
        UpdResult { pre, new_tree, result, trace, escaped, known_unsorted }
    }

    /// the real set_sparse_patterns; emits one correspondence case
    pub fn set_sparse(&mut self, out: &mut Out, pats: &[P]) -> UpdResult {
        let pre = self.pre();
        TRACE.lock().unwrap().clear();
        let op = self.tw.repo.op_id().clone();
        let pats_rp: Vec<RepoPathBuf> = pats.iter().map(rp).collect();
        let got = guard(|| {
            let mut lws = self.tw.workspace.start_working_copy_mutation().block_on().unwrap();
            let r = lws.locked_wc().set_sparse_patterns(pats_rp).block_on();
            if r.is_ok() { lws.finish(op).block_on().unwrap(); }
            r
        });
        let (trace, escaped) = self.take_trace();
        let result = match got {
            Ok(Ok(stats)) => Ok((scan(&self.root), self.states(), stats)),
            Ok(Err(e)) => Err(format!("err:{}", err_kind(&format!("{e}")))),
            Err(m) => { note_panic(&m); Err("panic".to_string()) }
        };
        let req = format!("sparse {} {} {} {} {}", show_tree(&pre.tree), show_set(&pre.states), show_seq(&pre.sparse),
                          show_disk(&pre.disk), show_seq(pats));
        let resp = match &result {
            Ok((d, s, st)) => format!("{} {} {},{},{} {}", show_disk(d), show_set(s), st.added_files, st.removed_files,
                                      st.skipped_files, show_seq(&trace)),
            Err(e) => e.clone(),
        };
        out.case(&req, &resp);
        let new_tree = pre.tree.clone();
        UpdResult { pre, new_tree, result, trace, escaped, known_unsorted: false }
    }

    // ---- edits of the real directory ------------------------------------------------------
    pub fn fs(&self, q: &P) -> PathBuf { q.iter().fold(self.root.clone(), |a, c| a.join(c)) }
    /// removes whatever is at `q` (file, symlink or directory tree)
    pub fn rm(&self, q: &P) {
        let f = self.fs(q);
        match std::fs::symlink_metadata(&f) {
            Ok(m) if m.is_dir() => { std::fs::remove_dir_all(&f).unwrap(); }
            Ok(_) => { std::fs::remove_file(&f).unwrap(); }
            Err(_) => {}
        }
    }
    /// makes sure the parents of `q` are real directories (removing files/symlinks in the way)
    pub fn mk_parents(&self, q: &P) {
        for n in 1..q.len() {
            let anc = q[..n].to_vec();
            let f = self.fs(&anc);
            match std::fs::symlink_metadata(&f) {
                Ok(m) if m.is_dir() => {}
                Ok(_) => { std::fs::remove_file(&f).unwrap(); std::fs::create_dir(&f).unwrap(); }
                Err(_) => { std::fs::create_dir(&f).unwrap(); }
            }
        }
    }
    pub fn put(&self, q: &P, e: &Ent) {
        self.rm(q);
        self.mk_parents(q);
        let f = self.fs(q);
        match e {
            Ent::File(c, x) => {
                std::fs::write(&f, c).unwrap();
                std::fs::set_permissions(&f, std::fs::Permissions::from_mode(if *x { 0o755 } else { 0o644 })).unwrap();
            }
            Ent::Link(t) => std::os::unix::fs::symlink(t, &f).unwrap(),
            Ent::Dir => std::fs::create_dir(&f).unwrap(),
        }
    }
    /// in-place modification keeping the size (same inode, only the bytes change)
    pub fn overwrite_same_size(&self, q: &P, c: &[u8]) {
        use std::io::{Seek, Write};
        let mut f = std::fs::OpenOptions::new().write(true).open(self.fs(q)).unwrap();
        f.seek(std::io::SeekFrom::Start(0)).unwrap();
        f.write_all(c).unwrap();
    }
    pub fn chmod(&self, q: &P, x: bool) {
        std::fs::set_permissions(self.fs(q), std::fs::Permissions::from_mode(if x { 0o755 } else { 0o644 })).unwrap();
    }
}

pub static PANICS: Mutex<Vec<String>> = Mutex::new(Vec::new());
pub static LAST_PANIC: Mutex<Option<String>> = Mutex::new(None);
pub fn note_panic(m: &str) {
    *LAST_PANIC.lock().unwrap() = Some(m.to_string()); let mut v = PANICS.lock().unwrap(); if v.len() < 50 { v.push(m.chars().take(300).collect()); } }

pub fn err_kind(msg: &str) -> &'static str {
    if msg.contains("Failed to stat") { "stat" }
    else if msg.contains("Failed to read directory") { "readdir" }
    else if msg.contains("Failed to open") { "open" }
    else if msg.contains("reserved") || msg.contains("Reserved") { "reserved" }
    else { "other" }
}


/// oracle failure, also tallied per signature (the failure list itself is capped at 25 entries)
pub fn ofail(out: &mut Out, sig: &str, detail: String) {
    out.tally("oracle-failure", sig);
    out.oracle_fail(sig, detail);
}
