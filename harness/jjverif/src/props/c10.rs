//! C10 — visible heads are normalized and cover everything referenced.
//!
//! One case = one random operation sequence on a real `TestRepo` (several transactions); the
//! request carries the whole sequence, the answer the canonical view (heads, local bookmarks,
//! working-copy commits as creation-order integers, 0 = root) after every `Transaction::commit`.
//!
//! Ops (token syntax, fields separated by `:`):
//!   new:<parents>            `MutableRepo::new_commit(parents).write()`            (new id = next number)
//!   rw:<c>                   `rewrite_commit(c).set_description(..).write()`        (new id = next number)
//!   ab:<c>                   `record_abandoned_commit(c)`
//!   rebase                   `rebase_descendants_with_options(none, default)`; rebased commits are
//!                            numbered by ascending old number, then re-created working-copy commits
//!                            in workspace-name order
//!   bm:<name>:<target>       `set_local_bookmark_target`
//!   edit:<ws>:<c>  co:<ws>:<c>  rmws:<ws>  setwc:<ws>:<c>   working-copy ops (`co` creates a commit)
//!   addhead:<c>  rmhead:<c>  low-level head ops (`rmhead`/`setwc` only in the normalisation stream)
//!   commit                   `tx.commit()`, then a new transaction is started
//!
//! Oracle (from the property text; independent walk over the parents recorded by the harness):
//! after every commit — heads non-empty, no head an ancestor of another, root only alone, every
//! add-term of every local bookmark and every working-copy commit an ancestor-or-equal of a head.
use crate::rt::*;
use jj_lib::backend::CommitId;
use jj_lib::commit::Commit;
use jj_lib::merge::Merge;
use jj_lib::op_store::RefTarget;
use jj_lib::ref_name::{RefNameBuf, WorkspaceNameBuf};
use jj_lib::repo::{ReadonlyRepo, Repo as _};
use jj_lib::revset::RevsetExpression;
use jj_lib::rewrite::{RebaseOptions, RebasedCommit};
use jj_lib::transaction::Transaction;
use pollster::FutureExt as _;
use std::collections::{BTreeSet, HashMap};
use std::sync::Arc;
use testutils::TestRepo;

type T = Vec<Option<usize>>;

fn show_t(t: &T) -> String {
    t.iter().map(|x| match x { None => "n".to_string(), Some(i) => i.to_string() }).collect::<Vec<_>>().join(",")
}
fn show_ids(l: &[usize]) -> String {
    if l.is_empty() { "-".into() } else { l.iter().map(|x| x.to_string()).collect::<Vec<_>>().join(",") }
}

struct Sim {
    commits: Vec<Commit>,
    parents: Vec<Vec<usize>>,
    num: HashMap<CommitId, usize>,
}
impl Sim {
    fn register(&mut self, c: &Commit) -> usize {
        if let Some(&k) = self.num.get(c.id()) { return k; }
        let k = self.commits.len();
        self.commits.push(c.clone());
        self.num.insert(c.id().clone(), k);
        self.parents.push(vec![]); // filled by fix_parents
        k
    }
    fn fix_parents(&mut self) {
        for k in 0..self.commits.len() {
            if self.parents[k].is_empty() && k != 0 {
                self.parents[k] = self.commits[k].parent_ids().iter().map(|p| self.num[p]).collect();
            }
        }
    }
    fn n(&self, id: &CommitId) -> usize { *self.num.get(id).unwrap_or(&usize::MAX) }
    /// ancestors-or-self by graph walk (oracle side)
    fn ancestors(&self, from: &[usize]) -> BTreeSet<usize> {
        let mut seen = BTreeSet::new();
        let mut stack: Vec<usize> = from.to_vec();
        while let Some(x) = stack.pop() {
            if x == usize::MAX || !seen.insert(x) { continue; }
            stack.extend(self.parents[x].iter().cloned());
        }
        seen
    }
}

fn view_string(sim: &Sim, repo: &ReadonlyRepo) -> (String, Vec<usize>, Vec<T>, Vec<usize>) {
    let view = repo.view();
    let mut heads: Vec<usize> = view.heads().iter().map(|h| sim.n(h)).collect();
    heads.sort();
    let mut bms = vec![];
    let mut bm_s = vec![];
    for (name, target) in view.local_bookmarks() {
        let t: T = target.as_merge().iter().map(|x| x.as_ref().map(|id| sim.n(id))).collect();
        bm_s.push(format!("{}:{}", &name.as_str()[1..], show_t(&t)));
        bms.push(t);
    }
    let mut wcs = vec![];
    let mut wc_s = vec![];
    for (name, id) in view.wc_commit_ids() {
        wc_s.push(format!("{}:{}", &name.as_str()[1..], sim.n(id)));
        wcs.push(sim.n(id));
    }
    let s = format!("h={}|b={}|w={}", show_ids(&heads), if bm_s.is_empty() { "-".into() } else { bm_s.join(";") },
                    if wc_s.is_empty() { "-".into() } else { wc_s.join(";") });
    (s, heads, bms, wcs)
}

/// the property, evaluated on one committed view
fn check_inv(sim: &Sim, heads: &[usize], bms: &[T], wcs: &[usize], coverage: bool) -> Option<(&'static str, String)> {
    if heads.is_empty() { return Some(("heads:empty", "no heads".into())); }
    if heads.contains(&usize::MAX) { return Some(("heads:unknown-commit", format!("{heads:?}"))); }
    if heads.contains(&0) && heads.len() > 1 { return Some(("heads:root-among-other-heads", format!("heads={heads:?}"))); }
    for &h in heads {
        let anc = sim.ancestors(&[h]);
        for &g in heads { if g != h && anc.contains(&g) { return Some(("heads:head-is-ancestor-of-head", format!("{g} is an ancestor of {h}; heads={heads:?}"))); } }
    }
    if coverage {
        let vis = sim.ancestors(heads);
        for t in bms { for x in t.iter().step_by(2).flatten() {
            if !vis.contains(x) { return Some(("heads:bookmark-target-not-visible", format!("bookmark target {t:?} names hidden commit {x}; heads={heads:?}"))); } } }
        for w in wcs { if !vis.contains(w) { return Some(("heads:wc-commit-not-visible", format!("wc commit {w} hidden; heads={heads:?}"))); } }
    }
    None
}

fn bname(i: usize) -> RefNameBuf { RefNameBuf::from(format!("b{i}")) }
fn wname(i: usize) -> WorkspaceNameBuf { WorkspaceNameBuf::from(format!("w{i}")) }

struct Run<'a> {
    sim: Sim,
    tx: Option<Transaction>,
    repo: Arc<ReadonlyRepo>,
    ops: Vec<String>,
    trace: Vec<String>,
    keys: BTreeSet<usize>,       // commits recorded as rewritten/abandoned since the last rebase
    batch_floor: usize,          // commits with number >= this were created in the current batch
    failure: Option<(&'static str, String)>,
    low_level: bool,
    foreign: BTreeSet<usize>,    // commits created on a concurrent branch (op-merge stream)
    aborted: Option<String>,
    views: usize,
    out: &'a mut Out,
}

impl Run<'_> {
    fn txm(&mut self) -> &mut jj_lib::repo::MutableRepo { self.tx.as_mut().unwrap().repo_mut() }
    fn to_target(&self, t: &T) -> RefTarget {
        RefTarget::from_merge(Merge::from_vec(t.iter().map(|x| x.map(|i| self.sim.commits[i].id().clone())).collect::<Vec<_>>()))
    }
    fn visible(&self) -> Vec<usize> {
        let heads: Vec<usize> = self.tx.as_ref().unwrap().repo().view().heads().iter().map(|h| self.sim.n(h)).collect();
        self.sim.ancestors(&heads).into_iter().collect()
    }
    /// number of the working-copy commit of workspace `w` (before a working-copy op)
    fn wc_of(&self, w: usize) -> Option<usize> {
        self.tx.as_ref().unwrap().repo().view().get_wc_commit_id(wname(w).as_ref()).map(|id| self.sim.n(id))
    }
    /// `edit`/`check_out`/`remove_workspace` may record the old working-copy commit as abandoned;
    /// the harness cannot read `parent_mapping`, so it over-approximates its key set
    fn note_wc_abandon(&mut self, old: Option<usize>) {
        if let Some(o) = old { if self.tx.as_ref().unwrap().repo().has_rewrites() { self.keys.insert(o); } }
    }
    fn do_new(&mut self, ps: &[usize]) {
        let ids: Vec<CommitId> = ps.iter().map(|&p| self.sim.commits[p].id().clone()).collect();
        let tree = self.sim.commits[ps[0]].tree();
        let k = self.sim.commits.len();
        let c = self.txm().new_commit(ids, tree).set_description(format!("c{k}")).write().block_on().unwrap();
        self.sim.register(&c); self.sim.fix_parents();
        self.ops.push(format!("new:{}", show_ids(ps)));
    }
    fn do_rewrite(&mut self, c: usize) {
        let old = self.sim.commits[c].clone();
        let k = self.sim.commits.len();
        let new = self.txm().rewrite_commit(&old).set_description(format!("rw{k}")).write().block_on().unwrap();
        self.sim.register(&new); self.sim.fix_parents();
        self.keys.insert(c);
        self.ops.push(format!("rw:{c}"));
    }
    fn do_abandon(&mut self, c: usize) {
        let old = self.sim.commits[c].clone();
        self.txm().record_abandoned_commit(&old);
        self.keys.insert(c);
        self.ops.push(format!("ab:{c}"));
    }
    fn do_rebase(&mut self) {
        let mut rebased: Vec<(usize, Commit)> = vec![];
        let mut odd = false;
        let res = {
            let sim = &self.sim;
            let tx = self.tx.as_mut().unwrap();
            tx.repo_mut().rebase_descendants_with_options(&RevsetExpression::none(), &RebaseOptions::default(), |old, r| {
                match r { RebasedCommit::Rewritten(c) => rebased.push((sim.n(old.id()), c)), RebasedCommit::Abandoned { .. } => odd = true }
            }).block_on()
        };
        // A commit that was hidden by an earlier rebase and made visible again can be rebased to
        // byte-identical content within the same millisecond ("Newly-created commit … already
        // exists"): an artefact of the generator, the sequence is discarded.
        if let Err(e) = res { self.aborted = Some(format!("{e}")); return; }
        if odd { self.failure = Some(("harness:unexpected-abandon-in-rebase", "default options abandoned a commit".into())); }
        rebased.sort_by_key(|(o, _)| *o);
        for (_, c) in &rebased { self.sim.register(c); }
        // re-created working-copy commits, in workspace-name order
        let wcs: Vec<CommitId> = self.tx.as_ref().unwrap().repo().view().wc_commit_ids().values().cloned().collect();
        for id in wcs {
            if !self.sim.num.contains_key(&id) {
                let c = self.tx.as_ref().unwrap().repo().store().get_commit(&id).unwrap();
                self.sim.register(&c);
            }
        }
        self.sim.fix_parents();
        self.keys.clear();
        self.batch_floor = self.sim.commits.len();
        self.ops.push("rebase".into());
    }
    fn do_commit(&mut self) {
        if !self.keys.is_empty() || self.tx.as_ref().unwrap().repo().has_rewrites() { self.do_rebase(); }
        if self.aborted.is_some() { return; }
        let tx = self.tx.take().unwrap();
        let repo = tx.commit("c10").block_on().unwrap();
        self.ops.push("commit".into());
        let (s, heads, bms, wcs) = view_string(&self.sim, &repo);
        self.trace.push(s);
        self.views += 1;
        if self.failure.is_none() {
            if let Some(f) = check_inv(&self.sim, &heads, &bms, &wcs, !self.low_level) {
                self.failure = Some((f.0, format!("after commit #{}: {}", self.views, f.1)));
            }
        }
        self.out.tally("heads", &heads.len().min(6).to_string());
        self.repo = repo.clone();
        self.tx = Some(repo.start_transaction());
        self.batch_floor = self.sim.commits.len();
    }
}

/// which commits may be recorded as rewritten/abandoned now: existed before the batch, not the
/// root, not already a key, and not adjacent (parent/child) to a key — see notes/C10.md
fn key_candidates(run: &Run) -> Vec<usize> {
    (1..run.batch_floor.min(run.sim.commits.len())).filter(|&c| {
        !run.keys.contains(&c)
            && !run.sim.parents[c].iter().any(|p| run.keys.contains(p))
            && !run.keys.iter().any(|&k| run.sim.parents[k].contains(&c))
    }).collect()
}

fn gen_target(r: &mut Rng, pool: &[usize]) -> T {
    let term = |r: &mut Rng| if r.chance(1, 8) { None } else { Some(*r.pick(pool)) };
    match r.below(10) {
        0 => vec![None],
        1..=6 => vec![Some(*r.pick(pool))],
        7..=8 => (0..3).map(|_| term(r)).collect(),
        _ => (0..5).map(|_| term(r)).collect(),
    }
}

#[derive(Clone, Debug)]
enum Op { New(Vec<usize>), Rw(usize), Ab(usize), Rebase, Bm(usize, T), Edit(usize, usize), Co(usize, usize), RmWs(usize),
          SetWc(usize, usize), AddHead(usize), RmHead(usize), Commit }

fn parse_op(s: &str) -> Option<Op> {
    let f: Vec<&str> = s.split(':').collect();
    let n = |x: &str| x.parse::<usize>().ok();
    let list = |x: &str| -> Option<Vec<usize>> { if x == "-" { Some(vec![]) } else { x.split(',').map(|y| y.parse().ok()).collect() } };
    let target = |x: &str| -> Option<T> { x.split(',').map(|y| if y == "n" { Some(None) } else { y.parse().ok().map(Some) }).collect() };
    Some(match f.as_slice() {
        ["new", ps] => Op::New(list(ps)?), ["rw", c] => Op::Rw(n(c)?), ["ab", c] => Op::Ab(n(c)?), ["rebase"] => Op::Rebase,
        ["bm", b, t] => Op::Bm(n(b)?, target(t)?), ["edit", w, c] => Op::Edit(n(w)?, n(c)?), ["co", w, c] => Op::Co(n(w)?, n(c)?),
        ["rmws", w] => Op::RmWs(n(w)?), ["setwc", w, c] => Op::SetWc(n(w)?, n(c)?), ["addhead", c] => Op::AddHead(n(c)?),
        ["rmhead", c] => Op::RmHead(n(c)?), ["commit"] => Op::Commit, _ => return None,
    })
}

impl Run<'_> {
    fn apply(&mut self, op: &Op) {
        match op {
            Op::New(ps) => self.do_new(ps),
            Op::Rw(c) => self.do_rewrite(*c),
            Op::Ab(c) => self.do_abandon(*c),
            Op::Rebase => self.do_rebase(),
            Op::Commit => self.do_commit(),
            Op::Bm(name, t) => {
                let target = self.to_target(t);
                self.txm().set_local_bookmark_target(bname(*name).as_ref(), target);
                self.ops.push(format!("bm:{name}:{}", show_t(t)));
            }
            Op::Edit(w, c) => {
                let commit = self.sim.commits[*c].clone();
                let old = self.wc_of(*w);
                let e = self.txm().edit(wname(*w), &commit).block_on();
                self.ops.push(format!("edit:{w}:{c}"));
                if e.is_err() { self.trace.push(format!("err@{}", self.ops.len() - 1)); }
                self.note_wc_abandon(old);
            }
            Op::Co(w, c) => {
                let commit = self.sim.commits[*c].clone();
                let old = self.wc_of(*w);
                let newc = self.txm().check_out(wname(*w), &commit).block_on().unwrap();
                self.sim.register(&newc); self.sim.fix_parents();
                self.ops.push(format!("co:{w}:{c}"));
                self.note_wc_abandon(old);
            }
            Op::RmWs(w) => {
                let old = self.wc_of(*w);
                self.txm().remove_workspace(wname(*w).as_ref()).block_on().unwrap();
                self.ops.push(format!("rmws:{w}"));
                self.note_wc_abandon(old);
            }
            Op::AddHead(c) => {
                let commit = self.sim.commits[*c].clone();
                self.txm().add_head(&commit).block_on().unwrap();
                self.ops.push(format!("addhead:{c}"));
            }
            Op::RmHead(c) => {
                let id = self.sim.commits[*c].id().clone();
                self.txm().remove_head(&id);
                self.ops.push(format!("rmhead:{c}"));
            }
            Op::SetWc(w, c) => {
                let id = self.sim.commits[*c].id().clone();
                let e = self.txm().set_wc_commit(wname(*w), id);
                self.ops.push(format!("setwc:{w}:{c}"));
                if e.is_err() { self.trace.push(format!("err@{}", self.ops.len() - 1)); }
            }
        }
    }
}

/// next random operation (may inspect the real state to stay inside the intended op set)
fn gen_op(run: &Run, r: &mut Rng, last: bool, low_level: bool, probe_root: bool) -> Option<Op> {
    // commits this transaction may refer to (commits created on a concurrent branch are not indexed here)
    let pool: Vec<usize> = (0..run.sim.commits.len()).filter(|c| !run.foreign.contains(c)).collect();
    let nonroot: Vec<usize> = pool.iter().cloned().filter(|&c| c != 0).collect();
    let n = pool.len();
    let pick_nonroot = |r: &mut Rng| if nonroot.is_empty() { 0 } else { *r.pick(&nonroot) };
    let choice = r.below(100);
    if n < 3 || choice < 28 {
        // new commit: on root, on one commit, or a merge of 2–3 non-root commits
        // (no children on commits recorded as rewritten/abandoned in the open batch, see notes)
        let free: Vec<usize> = nonroot.iter().cloned().filter(|c| !run.keys.contains(c)).collect();
        Some(Op::New(if free.is_empty() || r.chance(1, 8) { vec![0] }
            else if r.chance(3, 4) { vec![*r.pick(&free)] }
            else { let mut v = vec![]; for _ in 0..r.range(2, 3) { let p = *r.pick(&free); if !v.contains(&p) { v.push(p); } } v }))
    } else if choice < 40 {
        let cands: Vec<usize> = key_candidates(run).into_iter().filter(|c| !run.foreign.contains(c)).collect();
        if cands.is_empty() { None } else { let c = *r.pick(&cands); Some(if r.chance(1, 2) { Op::Rw(c) } else { Op::Ab(c) }) }
    } else if choice < 46 {
        if run.keys.is_empty() { None } else { Some(Op::Rebase) }
    } else if choice < 62 {
        Some(Op::Bm(r.below(3), gen_target(r, &pool)))
    } else if choice < 72 {
        Some(Op::Edit(r.below(2), if probe_root && r.chance(1, 6) { 0 } else { pick_nonroot(r) }))
    } else if choice < 80 {
        let w = r.below(2);
        let free: Vec<usize> = pool.iter().cloned().filter(|c| !run.keys.contains(c)).collect();
        Some(Op::Co(w, *r.pick(&free)))
    } else if choice < 83 {
        Some(Op::RmWs(r.below(2)))
    } else if choice < 88 {
        Some(Op::AddHead(if probe_root && r.chance(1, 4) { 0 } else { pick_nonroot(r) }))
    } else if choice < 92 && low_level {
        Some(Op::RmHead(*r.pick(&pool)))
    } else if choice < 94 {
        // raw set_wc_commit: visible commits only unless low_level
        let vis = run.visible();
        Some(Op::SetWc(r.below(2), if low_level { *r.pick(&pool) } else { *r.pick(&vis) }))
    } else if !last { Some(Op::Commit) } else { None }
}

enum Source<'s> { Random { len: usize, low_level: bool, probe_root: bool }, Script(&'s [Op]) }

fn one_sequence(test_repo: &TestRepo, out: &mut Out, r: &mut Rng, src: Source, stream: &str, coverage: bool) {
    // every sequence starts from the initial operation of a shared repo (heads = {root}, empty index)
    let repo = test_repo.repo.clone();
    let root = repo.store().root_commit();
    let mut sim = Sim { commits: vec![], parents: vec![], num: HashMap::new() };
    sim.register(&root);
    let tx = repo.start_transaction();
    let mut run = Run { sim, tx: Some(tx), repo, ops: vec![], trace: vec![], keys: BTreeSet::new(), batch_floor: 1,
                        failure: None, low_level: !coverage, foreign: BTreeSet::new(), aborted: None, views: 0, out };
    let res = guard(|| {
        match src {
            Source::Random { len, low_level, probe_root } => {
                for step in 0..len {
                    if run.aborted.is_some() { break; }
                    if let Some(op) = gen_op(&run, r, step + 1 == len, low_level, probe_root) { run.apply(&op); }
                }
            }
            Source::Script(ops) => for op in ops { if run.aborted.is_some() { break; } run.apply(op); },
        }
        if run.aborted.is_none() && run.ops.last().map(|s| s.as_str()) != Some("commit") { run.do_commit(); }
    });
    if std::env::var_os("C10_DEBUG").is_some() {
        eprintln!("ops: {}\nparents: {:?}\ntrace: {}", run.ops.join(" "), run.sim.parents, run.trace.join(" "));
    }
    if let Some(e) = &run.aborted {
        if !e.contains("already exists") { run.out.oracle_fail("heads:rebase-error", format!("{e}; ops={}", run.ops.join(" "))); }
        run.out.tally("discarded", "commit-id-collision");
        return;
    }
    // `runlow`: the driver does not monitor the premise of `rebase_inv_partial` (the low-level stream
    // breaks coverage on purpose)
    let req = format!("{} {}", if coverage { "run" } else { "runlow" }, run.ops.join(" "));
    let resp = match &res { Ok(()) => run.trace.join(" "), Err(_) => format!("{} panic", run.trace.join(" ")).trim().to_string() };
    run.out.case(&req, &resp);
    run.out.tally("stream", stream);
    run.out.tally("commits", &format!("{:02}", (run.sim.commits.len() / 5) * 5));
    if run.ops.iter().any(|o| o == "rebase") { run.out.tally("has", "rebase"); }
    if run.sim.commits.len() >= 4 && run.views >= 2 { let key = run.ops.clone(); run.out.nontrivial(key); }
    match (res, run.failure.take()) {
        (Err(e), _) => run.out.oracle_fail("heads:panic", format!("{e}; ops={}", run.ops.join(" "))),
        (Ok(()), Some((sig, detail))) => {
            let ops = run.ops.join(" ");
            // the root-probe stream is the only one that passes the root commit to `add_head`/`edit`;
            // its failures get their own signature: that of the finding repaired by the guard
            // `!head.parent_ids().is_empty()` in `MutableRepo::add_heads` (listed as `fixed` in
            // known_findings.json, which suppresses nothing — a return of the defect is a VIOLATION)
            let root_op = run.ops.iter().any(|o| o == "addhead:0" || (o.starts_with("edit:") && o.ends_with(":0")));
            // (a root left among the heads also defeats later fast-path updates: `add_head(child of root)`)
            let sig = if root_op && (sig == "heads:root-among-other-heads" || sig == "heads:head-is-ancestor-of-head") {
                "heads:not-normalized:after-add-head-of-root" } else { sig };
            run.out.oracle_fail(sig, format!("{detail}; ops={ops}"))
        }
        (Ok(()), None) => run.out.oracle_ok(),
    }
}

/// Operation merges (oracle only — `merge_operations` is not modelled): a base transaction, 2–3
/// concurrent transactions on top of it, `RepoLoader::merge_operations` (which also rebases), then
/// one more transaction on the merged repo.  The property is evaluated on every committed view.
fn merge_sequence(test_repo: &TestRepo, out: &mut Out, r: &mut Rng) {
    let repo = test_repo.repo.clone();
    let root = repo.store().root_commit();
    let mut sim = Sim { commits: vec![], parents: vec![], num: HashMap::new() };
    sim.register(&root);
    let tx = repo.start_transaction();
    let mut run = Run { sim, tx: Some(tx), repo, ops: vec![], trace: vec![], keys: BTreeSet::new(), batch_floor: 1,
                        failure: None, low_level: false, foreign: BTreeSet::new(), aborted: None, views: 0, out };
    let res = guard(|| {
        let phase = |run: &mut Run, r: &mut Rng, len: usize| {
            for _ in 0..len { if run.aborted.is_some() { return; } if let Some(op) = gen_op(run, r, true, false, false) { run.apply(&op); } }
            if run.aborted.is_none() { run.do_commit(); }
        };
        let l = r.range(4, 12); phase(&mut run, r, l);
        if run.aborted.is_some() { return; }
        let base = run.repo.clone();
        let base_floor = run.sim.commits.len();
        let mut branches: Vec<Arc<ReadonlyRepo>> = vec![];
        for _ in 0..r.range(2, 3) {
            run.tx = Some(base.start_transaction());
            run.repo = base.clone();
            run.keys.clear();
            run.batch_floor = base_floor;
            run.foreign = (base_floor..run.sim.commits.len()).collect();
            run.ops.push("|branch|".into());
            let l = r.range(2, 10); phase(&mut run, r, l);
            if run.aborted.is_some() { return; }
            branches.push(run.repo.clone());
        }
        run.foreign.clear();
        let ops: Vec<_> = branches.iter().map(|b| b.operation().clone()).collect();
        let merged = match base.loader().merge_operations(ops, None, None, []).block_on() {
            Ok((m, _)) => m,
            // same millisecond, same content: see `do_rebase`
            Err(e) if format!("{e:?}").contains("already exists") => { run.aborted = Some("already exists".into()); return; }
            Err(e) => panic!("merge_operations: {e:?}"),
        };
        run.ops.push("|merge|".into());
        // commits created by the merge's rebase: discover from everything the view references
        let mut stack: Vec<CommitId> = merged.view().heads().iter().cloned().collect();
        stack.extend(merged.view().wc_commit_ids().values().cloned());
        for (_, t) in merged.view().local_bookmarks() { stack.extend(t.added_ids().cloned()); }
        let mut unknown: Vec<Commit> = vec![];
        while let Some(id) = stack.pop() {
            if run.sim.num.contains_key(&id) || unknown.iter().any(|c| c.id() == &id) { continue; }
            let c = merged.store().get_commit(&id).unwrap();
            stack.extend(c.parent_ids().iter().cloned());
            unknown.push(c);
        }
        for c in unknown.iter().rev() { run.sim.register(c); }
        run.sim.fix_parents();
        let (s, heads, bms, wcs) = view_string(&run.sim, &merged);
        run.trace.push(s);
        run.views += 1;
        if run.failure.is_none() {
            if let Some(f) = check_inv(&run.sim, &heads, &bms, &wcs, true) { run.failure = Some((f.0, format!("after operation merge: {}", f.1))); }
        }
        // continue on the merged repo
        run.tx = Some(merged.start_transaction());
        run.repo = merged;
        run.keys.clear();
        run.batch_floor = run.sim.commits.len();
        let l = r.range(2, 8); phase(&mut run, r, l);
    });
    if run.aborted.is_some() { run.out.tally("discarded", "commit-id-collision"); return; }
    run.out.impl_only();
    run.out.tally("stream", "op-merge(oracle only)");
    if run.sim.commits.len() >= 4 { let key = run.ops.clone(); run.out.nontrivial(key); }
    let ops = run.ops.join(" ");
    match (res, run.failure.take()) {
        (Err(e), _) => run.out.oracle_fail("heads:panic-in-op-merge", format!("{e}; ops={ops}")),
        (Ok(()), Some((sig, detail))) => run.out.oracle_fail(&format!("{sig}:op-merge"), format!("{detail}; ops={ops}; views={}", run.trace.join(" "))),
        (Ok(()), None) => run.out.oracle_ok(),
    }
}

pub fn run(cfg: &Cfg, out: &mut Out) {
    // the op store / index fsync a lot: keep the scratch repos on tmpfs when available
    if std::env::var_os("TMPDIR").is_none() && std::path::Path::new("/dev/shm").is_dir() {
        unsafe { std::env::set_var("TMPDIR", "/dev/shm") };
    }
    let mut r = cfg.rng(10);
    let mut test_repo = TestRepo::init();
    // `jjverif C10 --out DIR script <op> <op> …` replays one scripted sequence (debugging aid)
    if cfg.extra.first().map(|s| s.as_str()) == Some("script") {
        let ops: Vec<Op> = cfg.extra[1..].iter().map(|s| parse_op(s).expect("bad op")).collect();
        one_sequence(&test_repo, out, &mut r, Source::Script(&ops), "script", true);
        return;
    }
    let n = cfg.n(4000, 100_000);
    // one RNG per sequence: a sequence discarded for a (timing dependent) id collision does not
    // shift the inputs of the following ones
    for i in 0..n {
        if i % 100 == 99 { test_repo = TestRepo::init(); }
        let mut r = cfg.rng(100_000 + i);
        let len = if i < 50 { 4 + (i as usize) / 5 } else { r.range(8, 40) };
        one_sequence(&test_repo, out, &mut r, Source::Random { len, low_level: false, probe_root: false }, "main", true);
    }
    let mut r2 = cfg.rng(1010);
    for i in 0..cfg.n(800, 20_000) {
        if i % 100 == 99 { test_repo = TestRepo::init(); }
        let mut r2 = cfg.rng(10_000_000 + i);
        let len = r2.range(6, 30);
        one_sequence(&test_repo, out, &mut r2, Source::Random { len, low_level: true, probe_root: false }, "normalisation-only", false);
    }
    // root probe: `add_head(root)` / `edit(ws, root)`.  The first two scripts are the reproducers of the
    // repaired finding `heads:not-normalized:after-add-head-of-root` (see notes/C10.md): they used to
    // commit heads {0,1} and must now commit {1}; model and oracle are checked on them like on any
    // other sequence.
    for script in ["new:0 commit addhead:0 commit", "new:0 commit edit:0:0 commit", "new:0 addhead:0 commit",
                   "new:0 new:1 bm:0:2 commit edit:1:0 new:2 commit", "new:0 commit bm:0:0 commit", "new:0 commit co:0:0 commit"] {
        let ops: Vec<Op> = script.split(' ').map(|s| parse_op(s).unwrap()).collect();
        one_sequence(&test_repo, out, &mut r2, Source::Script(&ops), "root-probe", true);
    }
    for i in 0..cfg.n(300, 5_000) {
        if i % 100 == 99 { test_repo = TestRepo::init(); }
        let mut r3 = cfg.rng(20_000_000 + i);
        let len = r3.range(4, 16);
        one_sequence(&test_repo, out, &mut r3, Source::Random { len, low_level: false, probe_root: true }, "root-probe", true);
    }
    for i in 0..cfg.n(600, 15_000) {
        if i % 100 == 99 { test_repo = TestRepo::init(); }
        let mut r4 = cfg.rng(30_000_000 + i);
        merge_sequence(&test_repo, out, &mut r4);
    }
    out.note(format!("{n} op sequences (main stream: full invariant) + normalisation-only stream with remove_head / raw set_wc_commit"));
}
