//! C02 — `trivial_merge` is exactly the cancellation rule.
//! Cases: exhaustive odd arities 1..=7 over 4 symbols × {keep, accept}; random arity ≤ 21.
//! Oracle (from the property text, independent of the model): recount signed occurrences.
use crate::rt::*;
use jj_lib::merge::{SameChange, trivial_merge};
use std::collections::BTreeMap;

fn spec(vs: &[u64], accept: bool) -> Option<u64> {
    let mut c: BTreeMap<u64, i64> = BTreeMap::new();
    for (i, v) in vs.iter().enumerate() { *c.entry(*v).or_default() += if i % 2 == 0 { 1 } else { -1 }; }
    let nz: Vec<(u64, i64)> = c.into_iter().filter(|(_, n)| *n != 0).collect();
    match nz.as_slice() {
        [(v, 1)] => Some(*v),
        // same-change rule: after cancellation every remaining side is `v` and every remaining base is one other value
        [(a, x), (b, y)] if accept => if *x > 0 && *y < 0 { Some(*a) } else if *y > 0 && *x < 0 { Some(*b) } else { None },
        _ => None,
    }
}

fn one(out: &mut Out, vs: &[u64], accept: bool) {
    let sc = if accept { SameChange::Accept } else { SameChange::Keep };
    let got = guard(|| trivial_merge(vs, sc).copied());
    let resp = match &got { Ok(r) => show_opt(*r), Err(_) => "panic".to_string() };
    out.case(&format!("trivial {} {}", if accept { "accept" } else { "keep" }, show_list(vs)), &resp);
    out.tally("arity", &vs.len().to_string());
    out.tally("result", if resp.starts_with("some") { "some" } else { &resp });
    let distinct_vals = vs.iter().collect::<std::collections::BTreeSet<_>>().len();
    if vs.len() >= 3 && distinct_vals >= 2 { out.nontrivial((vs.to_vec(), accept)); }
    match got {
        Ok(r) if r == spec(vs, accept) => out.oracle_ok(),
        Ok(r) => out.oracle_fail(
            if r.is_some() && spec(vs, accept).is_none() { "trivial-merge:resolved-without-cancellation" }
            else if r.is_none() { "trivial-merge:unresolved-despite-cancellation" } else { "trivial-merge:wrong-value" },
            format!("trivial_merge({vs:?}, accept={accept}) = {r:?}, cancellation rule gives {:?}", spec(vs, accept))),
        Err(e) => out.oracle_fail("trivial-merge:panic", format!("trivial_merge({vs:?}) panicked: {e}")),
    }
}

pub fn run(cfg: &Cfg, out: &mut Out) {
    let max_exh = if cfg.tier == Tier::Quick { 5 } else { 7 };
    for len in (1..=max_exh).step_by(2) {
        for accept in [false, true] {
            all_seqs(len, 4, |vs| one(out, vs, accept));
        }
    }
    out.set_exhaustive(true);
    out.note(format!("exhaustive: all odd arities ≤ {max_exh} over 4 symbols × 2 settings; then random arity ≤ 21"));
    let mut r = cfg.rng(2);
    for _ in 0..cfg.n(4000, 200_000) {
        let len = 2 * r.range(1, 10) + 1;
        let k = r.range(2, 5) as u64;
        let vs: Vec<u64> = (0..len).map(|_| r.below(k as usize) as u64).collect();
        one(out, &vs, r.chance(1, 2));
    }
}
