//! Shared by the tree properties (C07, C08, …): a harness-side picture of backend trees, the text
//! codec of `lean/JjModel/Drv/TreeCodec.lean`, generators, and conversion to/from a real store.
//!
//! File contents: content id `3a+b` (a,b<3) is the file `0:a\n--\n1:b\n`; symlink id `k` targets `t<k>`.
//! Names are the single digits `0..=2` (bytewise order = numeric order).
use crate::rt::*;
use jj_lib::backend::{FileId, TreeId, TreeValue};
use jj_lib::merge::Merge;
use jj_lib::merged_tree::MergedTree;
use jj_lib::repo_path::{RepoPath, RepoPathBuf, RepoPathComponent};
use jj_lib::store::Store;
use jj_lib::tree_builder::TreeBuilder;
use pollster::FutureExt as _;
use std::collections::{BTreeMap, BTreeSet, HashMap};
use std::sync::Arc;

#[derive(Clone, Debug, PartialEq, Eq, PartialOrd, Ord, Hash)]
pub enum V {
    F(u64, bool),
    S(u64),
    T(MTree),
}
/// sorted by name, no empty subtrees
pub type MTree = Vec<(u64, V)>;
pub type OV = Option<V>;

pub fn content(id: u64) -> String { format!("0:{}\n--\n1:{}\n", id / 3, id % 3) }
pub fn decode_content(c: &[u8]) -> Option<u64> {
    let s = std::str::from_utf8(c).ok()?;
    let mut it = s.split('\n');
    let a = it.next()?.strip_prefix("0:")?.parse::<u64>().ok()?;
    if it.next()? != "--" { return None; }
    let b = it.next()?.strip_prefix("1:")?.parse::<u64>().ok()?;
    if it.next()? != "" || it.next().is_some() || a >= 3 || b >= 3 { return None; }
    Some(3 * a + b)
}

pub fn show_v(v: &V) -> String {
    match v {
        V::F(id, x) => format!("f{id}{}", if *x { "x" } else { "-" }),
        V::S(id) => format!("s{id}"),
        V::T(t) => show_tree(t),
    }
}
pub fn show_tree(t: &MTree) -> String {
    let mut s = String::from("(");
    for (n, v) in t { s += &format!("{n}:{};", show_v(v)); }
    s + ")"
}
pub fn show_ov(v: &OV) -> String { match v { None => "~".into(), Some(v) => show_v(v) } }
pub fn show_trees(ts: &[MTree]) -> String { ts.iter().map(show_tree).collect::<Vec<_>>().join("/") }
pub fn show_mval(vs: &[OV]) -> String { vs.iter().map(show_ov).collect::<Vec<_>>().join("/") }
pub fn show_path(p: &[u64]) -> String {
    if p.is_empty() { "-".into() } else { p.iter().map(|n| n.to_string()).collect::<Vec<_>>().join(".") }
}

pub fn lookup<'a>(t: &'a MTree, n: u64) -> Option<&'a V> { t.iter().find(|(m, _)| *m == n).map(|(_, v)| v) }
/// value at a non-root path of one tree
pub fn get(t: &MTree, p: &[u64]) -> OV {
    let (n, rest) = p.split_first()?;
    let v = lookup(t, *n)?;
    if rest.is_empty() { return Some(v.clone()); }
    match v { V::T(s) => get(s, rest), _ => None }
}
/// all non-root paths (directories and leaves)
pub fn all_paths(t: &MTree, prefix: &mut Vec<u64>, out: &mut BTreeSet<Vec<u64>>) {
    for (n, v) in t {
        prefix.push(*n);
        out.insert(prefix.clone());
        if let V::T(s) = v { all_paths(s, prefix, out); }
        prefix.pop();
    }
}
pub fn height(t: &MTree) -> usize {
    t.iter().map(|(_, v)| match v { V::T(s) => 1 + height(s), _ => 1 }).max().unwrap_or(0)
}

/// set / remove the value at `p`, creating directories (and overwriting files) on the way; prunes empties
pub fn set(t: &mut MTree, p: &[u64], v: OV) {
    let (n, rest) = p.split_first().unwrap();
    let pos = t.iter().position(|(m, _)| m == n);
    if rest.is_empty() {
        match (pos, v) {
            (Some(i), Some(v)) => t[i].1 = v,
            (Some(i), None) => { t.remove(i); }
            (None, Some(v)) => { t.push((*n, v)); t.sort_by_key(|e| e.0); }
            (None, None) => {}
        }
        return;
    }
    let mut sub = match pos { Some(i) => match &t[i].1 { V::T(s) => s.clone(), _ => vec![] }, None => vec![] };
    set(&mut sub, rest, v);
    let newv = if sub.is_empty() { None } else { Some(V::T(sub)) };
    set(t, &[*n], newv);
}

pub struct Palette { pub ids: Vec<u64>, pub max_depth: usize }
impl Palette {
    pub fn new(r: &mut Rng) -> Self {
        let k = r.range(2, 5);
        Palette { ids: (0..k).map(|_| r.below(9) as u64).collect(), max_depth: r.range(1, 3) }
    }
    pub fn leaf(&self, r: &mut Rng) -> V {
        match r.below(10) {
            0 => V::S(r.below(2) as u64),
            1 | 2 => V::F(*r.pick(&self.ids), true),
            _ => V::F(*r.pick(&self.ids), false),
        }
    }
    pub fn tree(&self, r: &mut Rng, depth: usize) -> MTree {
        let mut t = vec![];
        for n in 0..3u64 {
            match r.below(10) {
                0..=3 => {}
                4..=6 => t.push((n, self.leaf(r))),
                _ => {
                    if depth > 1 { let s = self.tree(r, depth - 1); if !s.is_empty() { t.push((n, V::T(s))); } }
                    else { t.push((n, self.leaf(r))); }
                }
            }
        }
        t
    }
    pub fn path(&self, r: &mut Rng) -> Vec<u64> {
        (0..r.range(1, self.max_depth)).map(|_| r.below(3) as u64).collect()
    }
    /// a few random edits of `t`
    pub fn mutate(&self, r: &mut Rng, t: &MTree) -> MTree {
        let mut t = t.clone();
        for _ in 0..r.range(1, 3) {
            // mostly edit a path that exists (so that sides touch the same entries)
            let mut existing = BTreeSet::new();
            all_paths(&t, &mut vec![], &mut existing);
            let p = if !existing.is_empty() && r.chance(2, 3) { existing.iter().nth(r.below(existing.len())).unwrap().clone() } else { self.path(r) };
            let v = match r.below(10) {
                0 | 1 => None,
                2 => { let s = self.tree(r, 1); if s.is_empty() { None } else { Some(V::T(s)) } }
                3 => match get(&t, &p) { Some(V::F(id, x)) => Some(V::F(id, !x)), _ => Some(self.leaf(r)) },
                // change one slot of the file's content (these are the edits a content merge can combine)
                4..=7 => match get(&t, &p) {
                    Some(V::F(id, x)) => { let (a, b) = (id / 3, id % 3); Some(if r.chance(1, 2) { V::F(3 * ((a + 1 + r.below(2) as u64) % 3) + b, x) } else { V::F(3 * a + (b + 1 + r.below(2) as u64) % 3, x) }) }
                    _ => Some(self.leaf(r)),
                },
                _ => Some(self.leaf(r)),
            };
            set(&mut t, &p, v);
        }
        t
    }
    /// `n` related trees: each a copy / mutation of an earlier one, or fresh
    pub fn family(&self, r: &mut Rng, n: usize) -> Vec<MTree> {
        let mut ts: Vec<MTree> = vec![self.tree(r, self.max_depth)];
        while ts.len() < n {
            let t = match r.below(8) {
                0 => self.tree(r, self.max_depth),
                1 | 2 => r.pick(&ts).clone(),
                _ => { let b = r.pick(&ts).clone(); self.mutate(r, &b) }
            };
            ts.push(t);
        }
        // shuffle so that the base is not always term 0
        for i in (1..ts.len()).rev() { let j = r.below(i + 1); ts.swap(i, j); }
        ts
    }
}

pub fn comp(n: u64) -> String { n.to_string() }
pub fn repo_path_of(p: &[u64]) -> RepoPathBuf {
    RepoPathBuf::from_internal_string(p.iter().map(|n| comp(*n)).collect::<Vec<_>>().join("/")).unwrap()
}

/// Conversion between harness trees and a real store (caches file / symlink ids).
pub struct Conv {
    pub store: Arc<Store>,
    file_ids: HashMap<FileId, u64>,
    tree_cache: HashMap<(RepoPathBuf, TreeId), MTree>,
}
impl Conv {
    pub fn new(store: Arc<Store>) -> Self { Conv { store, file_ids: HashMap::new(), tree_cache: HashMap::new() } }

    fn put(&self, b: &mut TreeBuilder, prefix: &mut Vec<u64>, t: &MTree) {
        for (n, v) in t {
            prefix.push(*n);
            let path = repo_path_of(prefix);
            match v {
                V::F(id, x) => {
                    let fid = self.store.write_file(&path, &mut content(*id).as_bytes()).block_on().unwrap();
                    b.set(path, TreeValue::File { id: fid, executable: *x, copy_id: jj_lib::backend::CopyId::placeholder() });
                }
                V::S(k) => {
                    let sid = self.store.write_symlink(&path, &format!("t{k}")).block_on().unwrap();
                    b.set(path, TreeValue::Symlink(sid));
                }
                V::T(s) => self.put(b, prefix, s),
            }
            prefix.pop();
        }
    }
    /// write `t` into the store, returning the root tree id
    pub fn write(&self, t: &MTree) -> TreeId {
        let mut b = TreeBuilder::new(self.store.clone(), self.store.empty_tree_id().clone());
        self.put(&mut b, &mut vec![], t);
        b.write_tree().block_on().unwrap()
    }
    pub fn merged(&self, ts: &[MTree]) -> MergedTree {
        let ids: Vec<TreeId> = ts.iter().map(|t| self.write(t)).collect();
        MergedTree::new(self.store.clone(), Merge::from_vec(ids), jj_lib::conflict_labels::ConflictLabels::unlabeled())
    }
    pub fn value(&mut self, path: &RepoPath, v: &TreeValue) -> Result<V, String> {
        Ok(match v {
            TreeValue::File { id, executable, .. } => {
                if let Some(k) = self.file_ids.get(id) { return Ok(V::F(*k, *executable)); }
                let c = {
                    use futures::AsyncReadExt as _;
                    let mut reader = self.store.read_file(path, id).block_on().map_err(|e| e.to_string())?;
                    let mut c = vec![];
                    reader.read_to_end(&mut c).block_on().map_err(|e| e.to_string())?;
                    c
                };
                let k = decode_content(&c).ok_or_else(|| format!("undecodable file content {:?}", String::from_utf8_lossy(&c)))?;
                self.file_ids.insert(id.clone(), k);
                V::F(k, *executable)
            }
            TreeValue::Symlink(id) => {
                let t = self.store.read_symlink(path, id).block_on().map_err(|e| e.to_string())?;
                V::S(t.strip_prefix('t').and_then(|k| k.parse().ok()).ok_or("bad symlink")?)
            }
            TreeValue::Tree(id) => V::T(self.read(path, id)?),
            TreeValue::GitSubmodule(_) => return Err("submodule".into()),
        })
    }
    /// decode the real tree `id` at `dir`
    pub fn read(&mut self, dir: &RepoPath, id: &TreeId) -> Result<MTree, String> {
        let key = (dir.to_owned(), id.clone());
        if let Some(t) = self.tree_cache.get(&key) { return Ok(t.clone()); }
        let tree = self.store.get_tree(dir.to_owned(), id).block_on().map_err(|e| e.to_string())?;
        let mut out = vec![];
        let entries: Vec<(String, TreeValue)> = tree.entries_non_recursive().map(|e| (e.name().as_internal_str().to_string(), e.value().clone())).collect();
        for (name, v) in entries {
            let n: u64 = name.parse().map_err(|_| format!("bad name {name}"))?;
            let path = dir.join(RepoPathComponent::new(&name).unwrap());
            out.push((n, self.value(&path, &v)?));
        }
        self.tree_cache.insert(key, out.clone());
        Ok(out)
    }
    pub fn read_merged(&mut self, t: &MergedTree) -> Result<Vec<MTree>, String> {
        t.tree_ids().iter().map(|id| self.read(RepoPath::root(), id)).collect()
    }
    pub fn mval(&mut self, path: &RepoPath, m: &Merge<Option<TreeValue>>) -> Result<Vec<OV>, String> {
        m.iter().map(|v| match v { None => Ok(None), Some(v) => self.value(path, v).map(Some) }).collect()
    }
}

/// `trivial_merge` restated from the C02 property text (signed counts), independent of jj's code
pub fn spec_trivial<T: Clone + Ord>(vs: &[T], accept: bool) -> Option<T> {
    let mut c: BTreeMap<T, i64> = BTreeMap::new();
    for (i, v) in vs.iter().enumerate() { *c.entry(v.clone()).or_default() += if i % 2 == 0 { 1 } else { -1 }; }
    let nz: Vec<(T, i64)> = c.into_iter().filter(|(_, n)| *n != 0).collect();
    match nz.as_slice() {
        [(v, 1)] => Some(v.clone()),
        [(a, x), (b, y)] if accept => if *x > 0 && *y < 0 { Some(a.clone()) } else if *y > 0 && *x < 0 { Some(b.clone()) } else { None },
        _ => None,
    }
}
pub fn counts<T: Clone + Ord>(vs: &[T]) -> BTreeMap<T, i64> {
    let mut c: BTreeMap<T, i64> = BTreeMap::new();
    for (i, v) in vs.iter().enumerate() { *c.entry(v.clone()).or_default() += if i % 2 == 0 { 1 } else { -1 }; }
    c.retain(|_, n| *n != 0);
    c
}
pub fn is_tree_or_none(v: &OV) -> bool { matches!(v, None | Some(V::T(_))) }

/// `NoClashAbove`: no proper prefix of `p` is an unresolved merge that mixes trees with non-trees
pub fn no_clash_above(terms: &[MTree], p: &[u64], accept: bool) -> bool {
    for k in 1..p.len() {
        let vals: Vec<OV> = terms.iter().map(|t| get(t, &p[..k])).collect();
        if spec_trivial(&vals, accept).is_none() && !vals.iter().all(is_tree_or_none) { return false; }
    }
    true
}
