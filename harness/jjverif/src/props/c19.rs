//! C19 — revset evaluation matches set semantics.
//!
//! Cases: random DAGs (6–14 commits + root, merges, duplicate timestamps, a hidden
//! descendant-closed part so that `all()` ≠ everything) written into a real `TestRepo` in one
//! transaction; random expression trees over the covered operators, built with the
//! `RevsetExpression` API (arbitrary generation ranges, first-parent ancestry, the
//! optimizer-internal `Range{generation}` / `HeadsRange` / `VisibleHeadsOrReferenced` nodes too),
//! evaluated by the real default index engine both through `evaluate` (optimized) and
//! `evaluate_unoptimized`.  Where the tree is expressible in revset *text* it is also printed,
//! parsed, resolved and evaluated.
//!
//! Position mapping: all commits of a graph are written in one transaction, the mutable index
//! appends them in write order, so index position = creation order (root = 0).  This is checked
//! on every graph by streaming `commits(all ids)` (oracle signature `index-order`).
//!
//! Correspondence: `eval` / `evalopt` requests answered by the Lean model's `evalTop` /
//! `evalTopOpt`.
//! Oracle (from the property text + docs/revsets.md, independent of the model): a brute-force
//! set evaluator over the parent relation; the stream must be strictly descending in position
//! (newest first, no duplicates), equal as a set to the brute-force result, and optimized ==
//! unoptimized (== text where applicable).  `latest` ties are unspecified by the docs: the
//! oracle accepts any selection of the right size that respects the timestamp order.
use crate::rt::*;
use futures::TryStreamExt as _;
use jj_lib::backend::{CommitId, MillisSinceEpoch, Signature, Timestamp};
use jj_lib::commit::Commit;
use jj_lib::fileset::FilesetAliasesMap;
use jj_lib::object_id::ObjectId as _;
use jj_lib::repo::{ReadonlyRepo, Repo};
use jj_lib::revset::{
    self, PARENTS_RANGE_FULL, ResolvedRevsetExpression, RevsetAliasesMap, RevsetDiagnostics, RevsetExpression,
    RevsetExtensions, RevsetParseContext, SymbolResolver, SymbolResolverExtension,
};
use pollster::FutureExt as _;
use std::collections::{BTreeSet, HashMap};
use std::sync::Arc;
use testutils::TestRepo;

type S = BTreeSet<usize>;

// ---------------------------------------------------------------------------------------------
// graph
// ---------------------------------------------------------------------------------------------

struct G {
    n: usize,
    parents: Vec<Vec<usize>>,
    children: Vec<Vec<usize>>,
    ts: Vec<u64>,
    /// visible heads (positions)
    heads: Vec<usize>,
    /// heads of the earlier operation in which every commit was still visible (for scopes)
    heads1: Vec<usize>,
}

impl G {
    /// for every node the set of path lengths (≤ n) from any source, going to parents
    fn gens_up(&self, from: &S, first_only: bool) -> Vec<BTreeSet<u64>> {
        let mut gens: Vec<BTreeSet<u64>> = vec![BTreeSet::new(); self.n];
        let mut frontier: Vec<(usize, u64)> = from.iter().map(|s| (*s, 0)).collect();
        while let Some((c, g)) = frontier.pop() {
            if g > self.n as u64 + 1 || !gens[c].insert(g) { continue; }
            let ps: &[usize] = if first_only { &self.parents[c][..self.parents[c].len().min(1)] } else { &self.parents[c] };
            for p in ps { frontier.push((*p, g + 1)); }
        }
        gens
    }
    fn gens_down(&self, from: &S) -> Vec<BTreeSet<u64>> {
        let mut gens: Vec<BTreeSet<u64>> = vec![BTreeSet::new(); self.n];
        let mut frontier: Vec<(usize, u64)> = from.iter().map(|s| (*s, 0)).collect();
        while let Some((c, g)) = frontier.pop() {
            if g > self.n as u64 + 1 || !gens[c].insert(g) { continue; }
            for p in &self.children[c] { frontier.push((*p, g + 1)); }
        }
        gens
    }
    fn in_range(g: &BTreeSet<u64>, lo: u64, hi: Option<u64>) -> bool { g.iter().any(|x| *x >= lo && hi.is_none_or(|h| *x < h)) }
    fn anc_gen(&self, s: &S, lo: u64, hi: Option<u64>, fp: bool) -> S {
        self.gens_up(s, fp).iter().enumerate().filter(|(_, g)| Self::in_range(g, lo, hi)).map(|(i, _)| i).collect()
    }
    fn desc_gen(&self, s: &S, lo: u64, hi: Option<u64>) -> S {
        self.gens_down(s).iter().enumerate().filter(|(_, g)| Self::in_range(g, lo, hi)).map(|(i, _)| i).collect()
    }
    fn anc(&self, s: &S) -> S { self.anc_gen(s, 0, None, false) }
    fn desc(&self, s: &S) -> S { self.desc_gen(s, 0, None) }
    fn one(c: usize) -> S { [c].into_iter().collect() }
    fn heads_of(&self, s: &S) -> S {
        s.iter().filter(|c| { let d = self.desc(&Self::one(**c)); !s.iter().any(|x| x != *c && d.contains(x)) }).cloned().collect()
    }
    fn roots_of(&self, s: &S) -> S {
        s.iter().filter(|c| { let a = self.anc(&Self::one(**c)); !s.iter().any(|x| x != *c && a.contains(x)) }).cloned().collect()
    }
}

// ---------------------------------------------------------------------------------------------
// expressions
// ---------------------------------------------------------------------------------------------

#[derive(Clone, Debug, Hash, PartialEq, Eq)]
enum E {
    None, All, VisibleHeads, Vhor, Root,
    Commits(Vec<usize>),
    Anc(Box<E>, u64, Option<u64>, bool),
    Desc(Box<E>, u64, Option<u64>),
    Range(Box<E>, Box<E>, u64, Option<u64>, bool),
    Dag(Box<E>, Box<E>),
    Reach(Box<E>, Box<E>),
    Heads(Box<E>),
    HeadsRange(Box<E>, Box<E>, bool, Box<E>),
    Roots(Box<E>),
    Fork(Box<E>),
    Latest(Box<E>, usize),
    Coal(Box<E>, Box<E>),
    Not(Box<E>),
    Un(Box<E>, Box<E>),
    In(Box<E>, Box<E>),
    Mi(Box<E>, Box<E>),
    Merge(Box<E>),
    Forks,
    // --- not modelled in Lean: checked by the oracle only ---
    /// `at_operation(op1, x)` / `x.within_visibility(repo1)`: symbols and visibility of the earlier operation
    Scope(Box<E>),
}

fn bx(e: E) -> Box<E> { Box::new(e) }

fn gen_range(r: &mut Rng) -> (u64, Option<u64>) {
    match r.below(8) {
        0 | 1 => (0, None),
        2 => (1, Some(2)),
        3 => { let a = r.below(4) as u64; (a, Some(a + 1)) }
        4 => (0, Some(1 + r.below(4) as u64)),
        5 => (1 + r.below(3) as u64, None),
        6 => { let a = r.below(3) as u64; (a, Some(a + 1 + r.below(4) as u64)) }
        _ => { let a = r.below(4) as u64; (a, Some(r.below(4) as u64)) } // possibly empty range
    }
}

fn gen_leaf(r: &mut Rng, n: usize) -> E {
    match r.below(16) {
        0 => E::All,
        1 => E::None,
        2 => E::VisibleHeads,
        3 => E::Root,
        4 => E::Commits((0..r.below(2)).map(|_| r.below(n)).collect()), // sometimes empty
        5 => E::Vhor,
        6 if r.chance(1, 2) => E::Forks,
        _ => E::Commits((0..1 + r.below(3)).map(|_| r.below(n)).collect()), // may contain duplicates
    }
}

fn gen_e(r: &mut Rng, d: usize, n: usize) -> E {
    if d == 0 || r.below(5) == 0 { return gen_leaf(r, n); }
    let sub = |r: &mut Rng| bx(gen_e(r, d - 1, n));
    match r.below(44) {
        0..=4 => { let (a, b) = gen_range(r); E::Anc(sub(r), a, b, false) }
        5 | 6 => { let (a, b) = gen_range(r); E::Anc(sub(r), a, b, true) }
        7..=10 => { let (a, b) = gen_range(r); E::Desc(sub(r), a, b) }
        11 | 12 => E::Heads(sub(r)),
        13 | 14 => E::Roots(sub(r)),
        15 | 16 => E::Range(sub(r), sub(r), 0, None, false),
        17 => { let (a, b) = gen_range(r); E::Range(sub(r), sub(r), a, b, r.chance(1, 3)) }
        18 | 19 => E::Dag(sub(r), sub(r)),
        20 => { let x = sub(r); E::Dag(x.clone(), x) } // connected(x)
        21 | 22 => E::Reach(sub(r), sub(r)),
        23 | 24 => E::Fork(sub(r)),
        25..=28 => E::Un(sub(r), sub(r)),
        29..=31 => E::In(sub(r), sub(r)),
        32 | 33 => E::Mi(sub(r), sub(r)),
        34 | 35 => E::Not(sub(r)),
        36 => E::Coal(sub(r), sub(r)),
        37 => E::Latest(sub(r), r.below(4)),
        38 => E::HeadsRange(sub(r), sub(r), r.chance(1, 4), if r.chance(1, 3) { bx(E::All) } else { sub(r) }),
        39 => E::Anc(sub(r), 0, None, false),
        40 | 41 => E::Merge(sub(r)),
        _ => E::Scope(sub(r)),
    }
}

fn refs_of(g: &G, e: &E, out: &mut Vec<usize>) {
    match e {
        E::Commits(l) => out.extend(l),
        E::None | E::All | E::VisibleHeads | E::Vhor | E::Root | E::Forks => {}
        E::Anc(x, ..) | E::Desc(x, ..) | E::Heads(x) | E::Roots(x) | E::Fork(x) | E::Latest(x, _) | E::Not(x) | E::Merge(x) => refs_of(g, x, out),
        E::Range(a, b, ..) | E::Dag(a, b) | E::Reach(a, b) | E::Coal(a, b) | E::Un(a, b) | E::In(a, b) | E::Mi(a, b) => { refs_of(g, a, out); refs_of(g, b, out); }
        E::HeadsRange(a, b, _, c) => { refs_of(g, a, out); refs_of(g, b, out); refs_of(g, c, out); }
        // the outer scope must not filter out the inner scope's heads and referenced commits
        E::Scope(x) => { out.extend(&g.heads1); refs_of(g, x, out); }
    }
}

/// brute-force set semantics; `heads` = visible heads of the current scope, `vh` = those ∪ the commits referenced in
/// the scope; counts (sub-expressions, non-empty ones)
fn brute(g: &G, heads: &[usize], vh: &S, e: &E, cnt: &mut (u64, u64)) -> S {
    let all = || g.anc(vh);
    let r: S = match e {
        E::None => S::new(),
        E::All => all(),
        E::VisibleHeads => heads.iter().cloned().collect(),
        E::Vhor => vh.clone(),
        E::Root => G::one(0),
        E::Commits(l) => l.iter().cloned().collect(),
        E::Anc(x, lo, hi, fp) => g.anc_gen(&brute(g, heads, vh, x, cnt), *lo, *hi, *fp),
        E::Desc(x, lo, hi) => g.desc_gen(&brute(g, heads, vh, x, cnt), *lo, *hi).intersection(&all()).cloned().collect(),
        E::Range(rt, h, lo, hi, fp) => {
            let a = g.anc_gen(&brute(g, heads, vh, h, cnt), *lo, *hi, *fp);
            let b = g.anc(&brute(g, heads, vh, rt, cnt));
            a.difference(&b).cloned().collect()
        }
        E::Dag(rt, h) => {
            let a = g.desc(&brute(g, heads, vh, rt, cnt));
            let b = g.anc(&brute(g, heads, vh, h, cnt));
            a.intersection(&b).cloned().collect()
        }
        E::Reach(src, dom) => {
            let s = brute(g, heads, vh, src, cnt);
            let d = brute(g, heads, vh, dom, cnt);
            let mut seen: S = s.intersection(&d).cloned().collect();
            let mut st: Vec<usize> = seen.iter().cloned().collect();
            while let Some(c) = st.pop() {
                for nb in g.parents[c].iter().chain(g.children[c].iter()) {
                    if d.contains(nb) && seen.insert(*nb) { st.push(*nb); }
                }
            }
            seen
        }
        E::Heads(x) => g.heads_of(&brute(g, heads, vh, x, cnt)),
        E::HeadsRange(rt, h, fp, f) => {
            let a = g.anc_gen(&brute(g, heads, vh, h, cnt), 0, None, *fp);
            let b = g.anc(&brute(g, heads, vh, rt, cnt));
            let fl = brute(g, heads, vh, f, cnt);
            let s: S = a.difference(&b).filter(|c| fl.contains(c)).cloned().collect();
            g.heads_of(&s)
        }
        E::Roots(x) => g.roots_of(&brute(g, heads, vh, x, cnt)),
        E::Fork(x) => {
            let s = brute(g, heads, vh, x, cnt);
            if s.is_empty() { S::new() } else {
                let mut common: S = (0..g.n).collect();
                for c in &s { common = common.intersection(&g.anc(&G::one(*c))).cloned().collect(); }
                g.heads_of(&common)
            }
        }
        E::Latest(x, k) => {
            // canonical choice among ties = the engine's documented-in-code tie-break (position);
            // the oracle proper (`latest_ok`) does not rely on it
            let s = brute(g, heads, vh, x, cnt);
            let mut v: Vec<usize> = s.into_iter().collect();
            v.sort_by_key(|c| std::cmp::Reverse((g.ts[*c], *c)));
            v.truncate(*k);
            v.into_iter().collect()
        }
        E::Coal(a, b) => { let s = brute(g, heads, vh, a, cnt); let t = brute(g, heads, vh, b, cnt); if s.is_empty() { t } else { s } }
        E::Not(x) => { let s = brute(g, heads, vh, x, cnt); all().difference(&s).cloned().collect() }
        E::Un(a, b) => brute(g, heads, vh, a, cnt).union(&brute(g, heads, vh, b, cnt)).cloned().collect(),
        E::In(a, b) => brute(g, heads, vh, a, cnt).intersection(&brute(g, heads, vh, b, cnt)).cloned().collect(),
        E::Mi(a, b) => brute(g, heads, vh, a, cnt).difference(&brute(g, heads, vh, b, cnt)).cloned().collect(),
        E::Merge(x) => {
            // docs: roots(x_1:: & ... & x_N::), descendants taken inside all()
            let s = brute(g, heads, vh, x, cnt);
            if s.is_empty() { S::new() } else {
                let mut common: S = all();
                for c in &s { common = common.intersection(&g.desc(&G::one(*c))).cloned().collect(); }
                g.roots_of(&common)
            }
        }
        E::Forks => { let a = all(); a.iter().filter(|p| g.children[**p].iter().filter(|c| a.contains(c)).count() >= 2).cloned().collect() }
        E::Scope(x) => {
            let mut refs = vec![];
            refs_of(g, x, &mut refs);
            let inner: S = refs.iter().cloned().chain(g.heads1.iter().cloned()).collect();
            brute(g, &g.heads1, &inner, x, cnt)
        }
    };
    cnt.0 += 1;
    if !r.is_empty() { cnt.1 += 1; }
    r
}

fn has_latest(e: &E) -> bool {
    match e {
        E::Latest(..) => true,
        E::None | E::All | E::VisibleHeads | E::Vhor | E::Root | E::Commits(_) | E::Forks => false,
        E::Anc(x, ..) | E::Desc(x, ..) | E::Heads(x) | E::Roots(x) | E::Fork(x) | E::Not(x) | E::Merge(x) | E::Scope(x) => has_latest(x),
        E::Range(a, b, ..) | E::Dag(a, b) | E::Reach(a, b) | E::Coal(a, b) | E::Un(a, b) | E::In(a, b) | E::Mi(a, b) => has_latest(a) || has_latest(b),
        E::HeadsRange(a, b, _, c) => has_latest(a) || has_latest(b) || has_latest(c),
    }
}

/// does some `latest(x, k)` node cut through a group of equal timestamps (then the docs leave the result open)?
fn latest_tie(g: &G, heads: &[usize], vh: &S, e: &E) -> bool {
    let mut c = (0, 0);
    let rec = |x: &E| latest_tie(g, heads, vh, x);
    match e {
        E::Latest(x, k) => {
            if rec(x) { return true; }
            let s = brute(g, heads, vh, x, &mut c);
            let mut v: Vec<u64> = s.iter().map(|p| g.ts[*p]).collect();
            v.sort_by_key(|t| std::cmp::Reverse(*t));
            *k > 0 && *k < v.len() && v[*k - 1] == v[*k]
        }
        E::None | E::All | E::VisibleHeads | E::Vhor | E::Root | E::Commits(_) | E::Forks => false,
        E::Anc(x, ..) | E::Desc(x, ..) | E::Heads(x) | E::Roots(x) | E::Fork(x) | E::Not(x) | E::Merge(x) => rec(x),
        E::Scope(x) => {
            let mut refs = vec![];
            refs_of(g, x, &mut refs);
            let inner: S = refs.iter().cloned().chain(g.heads1.iter().cloned()).collect();
            latest_tie(g, &g.heads1, &inner, x)
        }
        E::Range(a, b, ..) | E::Dag(a, b) | E::Reach(a, b) | E::Coal(a, b) | E::Un(a, b) | E::In(a, b) | E::Mi(a, b) => rec(a) || rec(b),
        E::HeadsRange(a, b, _, c) => rec(a) || rec(b) || rec(c),
    }
}

fn show_hi(h: &Option<u64>) -> String { h.map_or("i".into(), |x| x.to_string()) }
fn b01(b: bool) -> &'static str { if b { "1" } else { "0" } }

/// the model's request syntax (lean/JjModel/Drv/C19.lean)
fn show(e: &E) -> String {
    match e {
        E::None => "n".into(), E::All => "a".into(), E::VisibleHeads => "v".into(), E::Vhor => "w".into(), E::Root => "r".into(),
        E::Commits(l) => format!("c[{}]", l.iter().map(|x| x.to_string()).collect::<Vec<_>>().join(".")),
        E::Anc(x, lo, hi, fp) => format!("A({},{lo},{},{})", show(x), show_hi(hi), b01(*fp)),
        E::Desc(x, lo, hi) => format!("D({},{lo},{})", show(x), show_hi(hi)),
        E::Range(a, b, lo, hi, fp) => format!("R({},{},{lo},{},{})", show(a), show(b), show_hi(hi), b01(*fp)),
        E::Dag(a, b) => format!("G({},{})", show(a), show(b)),
        E::Reach(a, b) => format!("E({},{})", show(a), show(b)),
        E::Heads(x) => format!("H({})", show(x)),
        E::HeadsRange(a, b, fp, f) => format!("Q({},{},{},{})", show(a), show(b), b01(*fp), show(f)),
        E::Roots(x) => format!("O({})", show(x)),
        E::Fork(x) => format!("F({})", show(x)),
        E::Latest(x, k) => format!("L({},{k})", show(x)),
        E::Coal(a, b) => format!("K({},{})", show(a), show(b)),
        E::Not(x) => format!("N({})", show(x)),
        E::Un(a, b) => format!("U({},{})", show(a), show(b)),
        E::In(a, b) => format!("I({},{})", show(a), show(b)),
        E::Mi(a, b) => format!("M({},{})", show(a), show(b)),
        E::Merge(x) => format!("P({})", show(x)),
        E::Forks => "f".into(),
        E::Scope(x) => format!("scope({})", show(x)),
    }
}

/// contains an operator outside the Lean model (then only the oracle is consulted)
fn unmodelled(e: &E) -> bool {
    match e {
        E::Scope(_) => true,
        E::None | E::All | E::VisibleHeads | E::Vhor | E::Root | E::Commits(_) | E::Forks => false,
        E::Anc(x, ..) | E::Desc(x, ..) | E::Heads(x) | E::Roots(x) | E::Fork(x) | E::Latest(x, _) | E::Not(x) | E::Merge(x) => unmodelled(x),
        E::Range(a, b, ..) | E::Dag(a, b) | E::Reach(a, b) | E::Coal(a, b) | E::Un(a, b) | E::In(a, b) | E::Mi(a, b) => unmodelled(a) || unmodelled(b),
        E::HeadsRange(a, b, _, c) => unmodelled(a) || unmodelled(b) || unmodelled(c),
    }
}

fn gen_u64(lo: u64, hi: Option<u64>) -> std::ops::Range<u64> { lo..hi.unwrap_or(u64::MAX) }
fn pr(fp: bool) -> std::ops::Range<u32> { if fp { 0..1 } else { PARENTS_RANGE_FULL } }

/// the same tree through the `RevsetExpression` API
fn build(e: &E, real: &Real) -> Arc<ResolvedRevsetExpression> {
    let ids = &real.ids;
    let b = |x: &E| build(x, real);
    match e {
        E::None => RevsetExpression::none(),
        E::All => RevsetExpression::all(),
        E::VisibleHeads => RevsetExpression::visible_heads(),
        E::Vhor => Arc::new(RevsetExpression::VisibleHeadsOrReferenced),
        E::Root => RevsetExpression::root(),
        E::Commits(l) => RevsetExpression::commits(l.iter().map(|i| ids[*i].clone()).collect()),
        E::Anc(x, lo, hi, false) => b(x).ancestors_range(gen_u64(*lo, *hi)),
        E::Anc(x, lo, hi, true) => b(x).first_ancestors_range(gen_u64(*lo, *hi)),
        E::Desc(x, lo, hi) => b(x).descendants_range(gen_u64(*lo, *hi)),
        E::Range(a, c, 0, None, false) => b(a).range(&b(c)),
        E::Range(a, c, lo, hi, fp) => Arc::new(RevsetExpression::Range { roots: b(a), heads: b(c), generation: gen_u64(*lo, *hi), parents_range: pr(*fp) }),
        E::Dag(a, c) => b(a).dag_range_to(&b(c)),
        E::Reach(a, c) => b(a).reachable(&b(c)),
        E::Heads(x) => b(x).heads(),
        E::HeadsRange(a, c, fp, f) => Arc::new(RevsetExpression::HeadsRange { roots: b(a), heads: b(c), parents_range: pr(*fp), filter: b(f) }),
        E::Roots(x) => b(x).roots(),
        E::Fork(x) => b(x).fork_point(),
        E::Latest(x, k) => b(x).latest(*k),
        E::Coal(a, c) => RevsetExpression::coalesce(&[b(a), b(c)]),
        E::Not(x) => b(x).negated(),
        E::Un(a, c) => b(a).union(&b(c)),
        E::In(a, c) => b(a).intersection(&b(c)),
        E::Mi(a, c) => b(a).minus(&b(c)),
        E::Merge(x) => b(x).merge_point(),
        E::Forks => RevsetExpression::forks(),
        E::Scope(x) => b(x).within_visibility(real.repo1.as_ref()),
    }
}

/// revset text, when the tree is expressible (`None` otherwise)
fn text(e: &E, real: &Real) -> Option<String> {
    let ids = &real.ids;
    let t = |x: &E| text(x, real);
    Some(match e {
        E::None => "none()".into(), E::All => "all()".into(), E::VisibleHeads => "visible_heads()".into(), E::Root => "root()".into(),
        E::Vhor => return None,
        E::Commits(l) if l.is_empty() => return None,
        E::Commits(l) => format!("({})", l.iter().map(|i| ids[*i].hex()).collect::<Vec<_>>().join("|")),
        E::Anc(x, 0, None, false) => format!("::({})", t(x)?),
        E::Anc(x, 1, Some(2), false) => format!("({})-", t(x)?),
        E::Anc(x, 0, Some(d), false) => format!("ancestors({}, {d})", t(x)?),
        E::Anc(x, lo, Some(hi), false) if *hi == lo + 1 => format!("parents({}, {lo})", t(x)?),
        E::Anc(x, 0, None, true) => format!("first_ancestors({})", t(x)?),
        E::Anc(x, 0, Some(d), true) => format!("first_ancestors({}, {d})", t(x)?),
        E::Anc(x, lo, Some(hi), true) if *hi == lo + 1 => format!("first_parent({}, {lo})", t(x)?),
        E::Anc(..) => return None,
        E::Desc(x, 0, None) => format!("({})::", t(x)?),
        E::Desc(x, 1, Some(2)) => format!("({})+", t(x)?),
        E::Desc(x, 0, Some(d)) => format!("descendants({}, {d})", t(x)?),
        E::Desc(x, lo, Some(hi)) if *hi == lo + 1 => format!("children({}, {lo})", t(x)?),
        E::Desc(..) => return None,
        E::Range(a, b, 0, None, false) => format!("({})..({})", t(a)?, t(b)?),
        E::Range(..) | E::HeadsRange(..) => return None,
        E::Dag(a, b) if a == b => format!("connected({})", t(a)?),
        E::Dag(a, b) => format!("({})::({})", t(a)?, t(b)?),
        E::Reach(a, b) => format!("reachable({}, {})", t(a)?, t(b)?),
        E::Heads(x) => format!("heads({})", t(x)?),
        E::Roots(x) => format!("roots({})", t(x)?),
        E::Fork(x) => format!("fork_point({})", t(x)?),
        E::Latest(x, k) => format!("latest({}, {k})", t(x)?),
        E::Coal(a, b) => format!("coalesce({}, {})", t(a)?, t(b)?),
        E::Not(x) => format!("~({})", t(x)?),
        E::Un(a, b) => format!("(({})|({}))", t(a)?, t(b)?),
        E::In(a, b) => format!("(({})&({}))", t(a)?, t(b)?),
        E::Mi(a, b) => format!("(({})~({}))", t(a)?, t(b)?),
        E::Merge(x) => format!("merge_point({})", t(x)?),
        E::Forks => "forks()".into(),
        E::Scope(x) => format!("at_operation({}, {})", real.op1, t(x)?),
    })
}

fn parse_text(repo: &dyn Repo, s: &str) -> Result<Arc<ResolvedRevsetExpression>, String> {
    let context = RevsetParseContext {
        aliases_map: &RevsetAliasesMap::default(),
        local_variables: HashMap::new(),
        user_email: "",
        date_pattern_context: chrono::DateTime::UNIX_EPOCH.fixed_offset().into(),
        default_ignored_remote: None,
        fileset_aliases_map: &FilesetAliasesMap::new(),
        extensions: &RevsetExtensions::default(),
        workspace: None,
    };
    let expression = revset::parse(&mut RevsetDiagnostics::new(), s, &context).map_err(|e| format!("parse: {e}"))?;
    let resolver = SymbolResolver::new(repo, &([] as [&Box<dyn SymbolResolverExtension>; 0]));
    expression.resolve_user_expression(repo, &resolver).map_err(|e| format!("resolve: {e}"))
}

// ---------------------------------------------------------------------------------------------
// real repo
// ---------------------------------------------------------------------------------------------

struct Real { _test_repo: TestRepo, repo: Arc<ReadonlyRepo>, repo1: Arc<ReadonlyRepo>, op1: String, ids: Vec<CommitId>, pos: HashMap<CommitId, usize> }

fn sig(ts: u64) -> Signature {
    Signature { name: "n".into(), email: "e".into(), timestamp: Timestamp { timestamp: MillisSinceEpoch(ts as i64 * 1000), tz_offset: 0 } }
}

fn make_graph(r: &mut Rng, n: usize) -> (G, Real) {
    let test_repo = TestRepo::init();
    let repo0 = test_repo.repo.clone();
    let root = repo0.store().root_commit();
    let tree = repo0.store().empty_merged_tree();
    let mut tx = repo0.start_transaction();
    let mut cs: Vec<Commit> = vec![root];
    let mut parents: Vec<Vec<usize>> = vec![vec![]];
    let mut ts: Vec<u64> = vec![0];
    for i in 1..n {
        let np = match r.below(10) { 0..=5 => 1, 6..=8 => 2, _ => 3 };
        let mut ps: Vec<usize> = vec![];
        for _ in 0..np {
            // prefer recent commits so that chains get long enough for generation ranges
            let k = if r.chance(2, 3) { i - 1 - r.below(i.min(3)) } else { r.below(i) };
            if !ps.contains(&k) { ps.push(k); }
        }
        if ps.len() > 1 { ps.retain(|k| *k != 0); } // the root commit cannot be a merge parent
        let t = 1 + r.below(5) as u64;
        let c = tx.repo_mut()
            .new_commit(ps.iter().map(|k| cs[*k].id().clone()).collect(), tree.clone())
            .set_description(format!("c{i}"))
            .set_committer(sig(t))
            .write().block_on().unwrap();
        cs.push(c);
        parents.push(ps);
        ts.push(t);
    }
    let mut children = vec![vec![]; n];
    for (c, ps) in parents.iter().enumerate() { for p in ps { children[*p].push(c); } }
    // hidden part: a few seeds and everything above them
    // operation 1: everything visible
    let repo1 = tx.commit("c19 all visible").block_on().unwrap();
    let op1 = repo1.op_id().hex();
    let mut tx = repo1.start_transaction();
    let mut g = G { n, parents, children, ts, heads: vec![], heads1: vec![] };
    let mut seeds = S::new();
    if r.chance(4, 5) { for c in 1..n { if r.chance(1, 7) { seeds.insert(c); } } }
    let hidden = g.desc(&seeds);
    let visible: S = (0..n).filter(|c| !hidden.contains(c)).collect();
    let vheads = g.heads_of(&visible);
    let cur: Vec<CommitId> = tx.repo().view().heads().iter().cloned().collect();
    for h in &cur { tx.repo_mut().remove_head(h); }
    let hc: Vec<Commit> = vheads.iter().map(|k| cs[*k].clone()).collect();
    tx.repo_mut().add_heads(&hc).block_on().unwrap();
    let repo = tx.commit("c19").block_on().unwrap();
    let ids: Vec<CommitId> = cs.iter().map(|c| c.id().clone()).collect();
    let pos: HashMap<CommitId, usize> = ids.iter().cloned().enumerate().map(|(i, c)| (c, i)).collect();
    let mut hs: Vec<usize> = repo.view().heads().iter().map(|h| pos[h]).collect();
    hs.sort_by_key(|x| std::cmp::Reverse(*x));
    g.heads = hs;
    let mut hs1: Vec<usize> = repo1.view().heads().iter().map(|h| pos[h]).collect();
    hs1.sort_by_key(|x| std::cmp::Reverse(*x));
    g.heads1 = hs1;
    (g, Real { _test_repo: test_repo, repo, repo1, op1, ids, pos })
}

fn stream(real: &Real, expr: &Arc<ResolvedRevsetExpression>, optimized: bool) -> Result<Vec<usize>, String> {
    let repo: &dyn Repo = real.repo.as_ref();
    let rs = if optimized { expr.clone().evaluate(repo) } else { expr.evaluate_unoptimized(repo) }.map_err(|e| format!("err:{e}"))?;
    let v: Vec<CommitId> = rs.stream().try_collect().block_on().map_err(|e| format!("err:{e}"))?;
    Ok(v.iter().map(|c| real.pos[c]).collect())
}

fn show_pos(r: &Result<Result<Vec<usize>, String>, String>) -> String {
    match r {
        Ok(Ok(v)) => show_list(&v.iter().map(|x| *x as u64).collect::<Vec<_>>()),
        Ok(Err(_)) => "err".into(),
        Err(_) => "panic".into(),
    }
}

fn graph_req(g: &G) -> String {
    let ps = g.parents.iter().map(|p| show_list(&p.iter().map(|x| *x as u64).collect::<Vec<_>>())).collect::<Vec<_>>().join(";");
    format!("{ps} {} {}", show_list(&g.heads.iter().map(|x| *x as u64).collect::<Vec<_>>()), show_list(&g.ts))
}

fn kind(e: &E) -> &'static str {
    match e {
        E::None => "none", E::All => "all", E::VisibleHeads => "visible_heads", E::Vhor => "vhor", E::Root => "root", E::Commits(_) => "commits",
        E::Anc(_, 0, None, false) => "ancestors", E::Anc(_, _, _, false) => "ancestors-gen", E::Anc(_, _, _, true) => "first-ancestors",
        E::Desc(_, 0, None) => "descendants", E::Desc(_, 1, Some(2)) => "children", E::Desc(..) => "descendants-gen",
        E::Range(_, _, 0, None, false) => "range", E::Range(..) => "range-gen", E::Dag(..) => "dag-range", E::Reach(..) => "reachable",
        E::Heads(_) => "heads", E::HeadsRange(..) => "heads-range", E::Roots(_) => "roots", E::Fork(_) => "fork-point", E::Latest(..) => "latest",
        E::Coal(..) => "coalesce", E::Not(_) => "not", E::Un(..) => "union", E::In(..) => "intersection", E::Mi(..) => "difference",
        E::Merge(_) => "merge-point", E::Forks => "forks", E::Scope(_) => "at-operation scope (oracle only)",
    }
}

fn check_one(out: &mut Out, g: &G, real: &Real, greq: &str, e: &E, sub: &mut (u64, u64)) {
    let expr = build(e, real);
    let unopt = guard(|| stream(real, &expr, false));
    let opt = guard(|| stream(real, &expr, true));
    let es = show(e);
    if unmodelled(e) {
        // outside the Lean model: evaluated and judged by the oracle only
        out.impl_only(); out.impl_only();
        out.tally("model", "oracle-only (at_operation scope inside)");
    } else {
        out.case(&format!("eval {greq} {es}"), &show_pos(&unopt));
        out.case(&format!("evalopt {greq} {es}"), &show_pos(&opt));
        out.tally("model", "compared with the Lean model");
    }
    out.tally("top-operator", kind(e));

    // ---- oracle ----
    let mut refs = vec![];
    refs_of(g, e, &mut refs);
    let vh: S = refs.iter().cloned().chain(g.heads.iter().cloned()).collect();
    let want = brute(g, &g.heads, &vh, e, sub);
    out.tally("result", if want.is_empty() { "empty" } else if want.len() == g.n { "everything" } else { "proper-subset" });
    if !want.is_empty() && !matches!(e, E::Commits(_) | E::All) { out.nontrivial((greq.to_string(), es.clone())); }
    let tie = has_latest(e) && latest_tie(g, &g.heads, &vh, e);
    if tie { out.tally("latest", "cuts-a-timestamp-tie (set compared modulo tie)"); }
    let detail = |got: &dyn std::fmt::Debug| format!("graph parents={:?} heads={:?} ts={:?} expr={es} got={got:?} want={want:?}", g.parents, g.heads, g.ts);
    for (name, res) in [("unoptimized", &unopt), ("optimized", &opt)] {
        match res {
            Err(p) => out.oracle_fail("revset:panic", format!("{name} evaluation panicked: {p}; {}", detail(&""))),
            Ok(Err(er)) => out.oracle_fail("revset:evaluation-error", format!("{name}: {er}; {}", detail(&""))),
            Ok(Ok(v)) => {
                let set: S = v.iter().cloned().collect();
                if !v.windows(2).all(|w| w[0] > w[1]) {
                    out.oracle_fail(if set.len() != v.len() { "revset:duplicate-in-stream" } else { "revset:not-newest-first" }, format!("{name}: {}", detail(v)));
                } else if tie {
                    // docs leave the choice among equal timestamps open: only sizes must agree
                    if set.len() != want.len() { out.oracle_fail("revset:wrong-set", format!("{name} (latest tie, size differs): {}", detail(v))); } else { out.oracle_ok(); }
                } else if set != want {
                    let sg = if set.is_subset(&want) { "revset:missing-commits" } else if want.is_subset(&set) { "revset:extra-commits" } else { "revset:wrong-set" };
                    out.oracle_fail(sg, format!("{name}: {}", detail(v)));
                } else { out.oracle_ok(); }
            }
        }
    }
    if let (Ok(Ok(a)), Ok(Ok(b))) = (&unopt, &opt) {
        if a != b { out.oracle_fail("revset:optimized-differs-from-unoptimized", format!("unopt={a:?} opt={b:?}; {}", detail(&""))); } else { out.oracle_ok(); }
    }
    // ---- text round ----
    if let Some(txt) = text(e, real) {
        out.tally("text", "expressible");
        let got = guard(|| parse_text(real.repo.as_ref(), &txt).and_then(|x| stream(real, &x, true)));
        out.impl_only();
        match (&got, &opt) {
            (Ok(Ok(a)), Ok(Ok(b))) if a == b => out.oracle_ok(),
            (Ok(Ok(a)), Ok(Ok(b))) => out.oracle_fail("revset:text-differs-from-api", format!("text `{txt}` gives {a:?}, API-built gives {b:?}; {}", detail(&""))),
            (Ok(Err(er)), _) => out.oracle_fail("revset:text-error", format!("text `{txt}`: {er}")),
            (Err(p), _) => out.oracle_fail("revset:panic", format!("text `{txt}` panicked: {p}")),
            _ => {}
        }
    } else { out.tally("text", "api-only"); }
}

pub fn run(cfg: &Cfg, out: &mut Out) {
    let mut r = cfg.rng(19);
    let graphs = cfg.n(180, 2500);
    let per_graph = 28;
    let mut sub = (0u64, 0u64);
    for gi in 0..graphs {
        // sizes small → large
        let n = 1 + if gi < 6 { 2 + gi as usize % 3 } else { r.range(6, 14) };
        let (g, real) = guard(|| make_graph(&mut r, n)).expect("graph construction");
        let greq = graph_req(&g);
        out.tally("graph", &format!("hidden={}", if g.anc(&g.heads.iter().cloned().collect()).len() < g.n { "some" } else { "none" }));
        // position mapping check
        let all_ids = RevsetExpression::commits(real.ids.clone());
        match guard(|| stream(&real, &all_ids, false)) {
            Ok(Ok(v)) if v == (0..g.n).rev().collect::<Vec<_>>() => out.oracle_ok(),
            other => out.oracle_fail("index-order", format!("commits(all) streamed {other:?}, expected creation order reversed (n={})", g.n)),
        }
        for k in 0..per_graph {
            let depth = if k < 6 { 1 } else if k < 14 { 2 } else { 3 };
            let e = gen_e(&mut r, depth, g.n);
            check_one(out, &g, &real, &greq, &e, &mut sub);
        }
    }
    out.note(format!("sub-expressions evaluated by the brute-force oracle: {} of which non-empty: {} ({:.1} %)", sub.0, sub.1, 100.0 * sub.1 as f64 / sub.0.max(1) as f64));
    out.note("every expression is evaluated unoptimized (`eval`) and optimized (`evalopt`); both are compared with the model and with the brute-force oracle".to_string());
}
