//! C18 — the commit index answers exactly as the commit graph.
//!
//! Histories: random DAGs (octopus merges up to 5 parents, few change ids shared by many commits)
//! written through real transactions into a real on-disk `DefaultIndexStore`; transaction sizes are
//! chosen so that the index ends up as a stack of several segment files (and sometimes squashes);
//! some rounds run 2–3 *concurrent* transactions from the same base which are then merged by
//! `reload_at_head` (→ `MutableCommitIndexSegment::merge_in`); sometimes the whole index is rebuilt
//! from the operation log (`build_index_at_operation`, a different position order).
//! Each state (mutable index inside a transaction / readonly index returned by commit / index
//! loaded from disk by a fresh `RepoLoader` / rebuilt index) is queried through the public `Index`
//! API.
//!
//! Tie: the *position order* of the real index is observed through the index itself
//! (`evaluate_revset(Commits(all ids))` streams ids by descending global position).  The model gets
//! the graph as "parent positions of every position" in exactly that order, and all questions and
//! answers are positions, so model and code talk about the same positions and even the *order* of
//! the returned vectors is compared.
//!
//! Oracle (written from the property text): naive reachability on the commit objects' parent ids.
use crate::rt::*;
use futures::StreamExt as _;
use jj_lib::backend::{ChangeId, CommitId};
use jj_lib::commit::Commit;
use jj_lib::default_index::{DefaultIndexStore, DefaultReadonlyIndex};
use jj_lib::index::Index;
use jj_lib::repo::{ReadonlyRepo, Repo};
use jj_lib::revset::{PARENTS_RANGE_FULL, ResolvedExpression};
use jj_lib::store::Store;
use pollster::FutureExt as _;
use std::collections::{BTreeSet, HashMap};
use std::sync::Arc;
use testutils::TestRepo;

pub(crate) struct Hist {
    /// all commits ever written, creation order (root first)
    pub(crate) commits: Vec<Commit>,
    pub(crate) by_id: HashMap<CommitId, usize>,
    /// anc[i] = creation indices of the ancestors of i (including i) — the naive graph search
    pub(crate) anc: Vec<BTreeSet<usize>>,
    /// longest path to a parentless commit
    pub(crate) depth: Vec<u32>,
    pub(crate) counter: u64,
}

impl Hist {
    pub(crate) fn push(&mut self, c: Commit) -> usize {
        let i = self.commits.len();
        let mut a = BTreeSet::new();
        a.insert(i);
        let mut d = 0;
        for p in c.parent_ids() {
            let pi = self.by_id[p];
            a.extend(self.anc[pi].iter().copied());
            d = d.max(self.depth[pi] + 1);
        }
        self.by_id.insert(c.id().clone(), i);
        self.commits.push(c);
        self.anc.push(a);
        self.depth.push(d);
        i
    }
}

pub(crate) fn eval_ids(index: &dyn Index, store: &Arc<Store>, expr: &ResolvedExpression) -> Result<Vec<CommitId>, String> {
    let rs = index.evaluate_revset(expr, store).map_err(|e| e.to_string())?;
    let v: Vec<_> = rs.stream().collect::<Vec<_>>().block_on();
    v.into_iter().map(|r| r.map_err(|e| e.to_string())).collect()
}

/// The view of one index state: which commits it contains and at which global positions.
pub(crate) struct Pos {
    /// position → creation index
    pub(crate) at: Vec<usize>,
    /// creation index → position
    pub(crate) of: HashMap<usize, usize>,
    /// the request encoding `parentsOfPos0;parentsOfPos1;…`
    pub(crate) enc: String,
}

pub(crate) fn observe_positions(out: &mut Out, h: &Hist, index: &dyn Index, store: &Arc<Store>, label: &str,
                     expected: &BTreeSet<usize>) -> Option<Pos> {
    let members: Vec<usize> = (0..h.commits.len())
        .filter(|&i| index.has_id(h.commits[i].id()).block_on().unwrap())
        .collect();
    // the index contains exactly the commits added through the transactions that led to this state
    if members.iter().copied().collect::<BTreeSet<_>>() != *expected {
        out.oracle_fail("index:membership-differs-from-history",
            format!("{label}: indexed {members:?}, history says {expected:?}"));
        return None;
    }
    let ids: Vec<CommitId> = members.iter().map(|&i| h.commits[i].id().clone()).collect();
    let desc = match guard(|| eval_ids(index, store, &ResolvedExpression::Commits(ids))) {
        Ok(Ok(v)) => v,
        Ok(Err(e)) | Err(e) => { out.oracle_fail("index:enumeration-failed", format!("{label}: {e}")); return None; }
    };
    let at: Vec<usize> = desc.iter().rev().map(|id| h.by_id[id]).collect();
    let of: HashMap<usize, usize> = at.iter().enumerate().map(|(p, &i)| (i, p)).collect();
    if at.len() != members.len() || of.len() != members.len() {
        out.oracle_fail("index:enumeration-not-a-bijection", format!("{label}: {} ids, {} positions", members.len(), at.len()));
        return None;
    }
    // every parent of an indexed commit is indexed, at a smaller position
    let mut enc = String::new();
    for (p, &i) in at.iter().enumerate() {
        if p > 0 { enc.push(';'); }
        let mut ps = vec![];
        for pid in h.commits[i].parent_ids() {
            match of.get(&h.by_id[pid]) {
                Some(&q) if q < p => ps.push(q as u64),
                other => {
                    out.oracle_fail("index:parent-not-before-child", format!("{label}: commit at pos {p} has parent at {other:?}"));
                    return None;
                }
            }
        }
        enc.push_str(&show_list(&ps));
    }
    out.oracle_ok();
    Some(Pos { at, of, enc })
}

pub(crate) fn show_pos(v: &[usize]) -> String { show_list(&v.iter().map(|&x| x as u64).collect::<Vec<_>>()) }

/// maximal elements of a set of creation indices
fn maximal(h: &Hist, s: &BTreeSet<usize>) -> BTreeSet<usize> {
    s.iter().copied().filter(|&c| !s.iter().any(|&d| d != c && h.anc[d].contains(&c))).collect()
}

fn is_desc(v: &[usize]) -> bool { v.windows(2).all(|w| w[0] > w[1]) }

#[allow(clippy::too_many_arguments)]
fn probe(out: &mut Out, r: &mut Rng, h: &Hist, index: &dyn Index, ro: Option<&DefaultReadonlyIndex>, store: &Arc<Store>,
         label: &str, budget: usize, expected: &BTreeSet<usize>) {
    let Some(pos) = observe_positions(out, h, index, store, label, expected) else { return };
    let n = pos.at.len();
    out.tally("state", label);
    out.tally("index-size", &format!("{:02}-{:02}", n / 10 * 10, n / 10 * 10 + 9));
    let id_at = |p: usize| h.commits[pos.at[p]].id().clone();
    let to_pos = |ids: &[CommitId]| -> Vec<usize> { ids.iter().map(|id| pos.of[&h.by_id[id]]).collect() };
    let anc_pos = |a: usize, d: usize| h.anc[pos.at[d]].contains(&pos.at[a]);
    let rnd_pos = |r: &mut Rng| r.below(n);

    // ---- is_ancestor ----
    let mut pairs: Vec<(usize, usize)> = vec![];
    if n <= 7 {
        for a in 0..n { for d in 0..n { pairs.push((a, d)); } }
    } else {
        for _ in 0..budget {
            let d = rnd_pos(r);
            let a = match r.below(4) {
                // a real ancestor, a descendant (mostly false), or anything
                0 | 1 => { let s: Vec<usize> = h.anc[pos.at[d]].iter().map(|i| pos.of[i]).collect(); *r.pick(&s) }
                _ => rnd_pos(r),
            };
            if r.chance(1, 4) { pairs.push((d, a)); } else { pairs.push((a, d)); }
        }
    }
    for (a, d) in pairs {
        let got = guard(|| index.is_ancestor(&id_at(a), &id_at(d)).block_on().unwrap());
        let resp = match &got { Ok(b) => if *b { "1" } else { "0" }.to_string(), Err(_) => "panic".into() };
        out.case(&format!("anc {} {a} {d}", pos.enc), &resp);
        let want = anc_pos(a, d);
        out.tally("anc", if want { if a == d { "self" } else { "true" } } else if a > d { "false-later" } else { "false-earlier" });
        if a != d && n > 3 { out.nontrivial(("anc", &pos.enc, a, d)); }
        match got {
            Ok(b) if b == want => out.oracle_ok(),
            Ok(b) => out.oracle_fail(if b { "is-ancestor:true-but-unreachable" } else { "is-ancestor:false-but-reachable" },
                format!("{label}: index {} is_ancestor({a},{d}) = {b}", pos.enc)),
            Err(e) => out.oracle_fail("is-ancestor:panic", format!("{label}: index {} ({a},{d}): {e}", pos.enc)),
        }
    }

    // ---- common_ancestors ----
    for _ in 0..budget / 2 {
        let k1 = r.range(1, 3); let k2 = r.range(1, 3);
        let mut s1: Vec<usize> = (0..k1).map(|_| rnd_pos(r)).collect();
        let s2: Vec<usize> = (0..k2).map(|_| rnd_pos(r)).collect();
        if r.chance(1, 8) { s1.push(s1[0]); } // duplicates
        let (i1, i2): (Vec<CommitId>, Vec<CommitId>) = (s1.iter().map(|&p| id_at(p)).collect(), s2.iter().map(|&p| id_at(p)).collect());
        let got = guard(|| to_pos(&index.common_ancestors(&i1, &i2).block_on().unwrap()));
        let resp = match &got { Ok(v) => show_pos(v), Err(_) => "panic".into() };
        out.case(&format!("gca {} {} {}", pos.enc, show_pos(&s1), show_pos(&s2)), &resp);
        let a1: BTreeSet<usize> = s1.iter().flat_map(|&p| h.anc[pos.at[p]].iter().copied()).collect();
        let a2: BTreeSet<usize> = s2.iter().flat_map(|&p| h.anc[pos.at[p]].iter().copied()).collect();
        let common: BTreeSet<usize> = a1.intersection(&a2).copied().collect();
        let want: BTreeSet<usize> = maximal(h, &common).iter().map(|i| pos.of[i]).collect();
        out.tally("gca-size", &want.len().to_string());
        if want.len() >= 2 || (k1 + k2 > 2 && !want.iter().any(|p| s1.contains(p) || s2.contains(p))) {
            out.nontrivial(("gca", &pos.enc, &s1, &s2));
        }
        match got {
            Ok(v) => {
                let gs: BTreeSet<usize> = v.iter().copied().collect();
                if gs != want { out.oracle_fail("common-ancestors:not-the-greatest-common-ancestors",
                    format!("{label}: index {} gca({s1:?},{s2:?}) = {v:?}, graph says {want:?}", pos.enc)); }
                else if !is_desc(&v) { out.oracle_fail("common-ancestors:not-descending", format!("{label}: {v:?}")); }
                else { out.oracle_ok(); }
            }
            Err(e) => out.oracle_fail("common-ancestors:panic", format!("{label}: index {} gca({s1:?},{s2:?}): {e}", pos.enc)),
        }
    }

    // ---- heads ----
    for _ in 0..budget / 2 {
        let k = r.below(7);
        let mut cs: Vec<usize> = (0..k).map(|_| rnd_pos(r)).collect();
        if k > 0 && r.chance(1, 3) {
            // add an ancestor / a duplicate of a candidate so that something is really removed
            let c = *r.pick(&cs);
            let s: Vec<usize> = h.anc[pos.at[c]].iter().map(|i| pos.of[i]).collect();
            cs.push(*r.pick(&s));
        }
        let ids: Vec<CommitId> = cs.iter().map(|&p| id_at(p)).collect();
        let got = guard(|| to_pos(&index.heads(&mut ids.iter()).block_on().unwrap()));
        let resp = match &got { Ok(v) => show_pos(v), Err(_) => "panic".into() };
        out.case(&format!("heads {} {}", pos.enc, show_pos(&cs)), &resp);
        let set: BTreeSet<usize> = cs.iter().map(|&p| pos.at[p]).collect();
        let want: BTreeSet<usize> = maximal(h, &set).iter().map(|i| pos.of[i]).collect();
        out.tally("heads-removed", &(set.len() - want.len()).min(4).to_string());
        if want.len() < set.len() && want.len() >= 1 && set.len() >= 3 { out.nontrivial(("heads", &pos.enc, &cs)); }
        match got {
            Ok(v) => {
                let gs: BTreeSet<usize> = v.iter().copied().collect();
                if gs != want { out.oracle_fail("heads:not-the-maximal-candidates",
                    format!("{label}: index {} heads({cs:?}) = {v:?}, graph says {want:?}", pos.enc)); }
                else if !is_desc(&v) { out.oracle_fail("heads:not-descending", format!("{label}: {v:?}")); }
                else { out.oracle_ok(); }
            }
            Err(e) => out.oracle_fail("heads:panic", format!("{label}: index {} heads({cs:?}): {e}", pos.enc)),
        }
    }

    // ---- all heads ----
    {
        let got = guard(|| to_pos(&index.all_heads_for_gc().unwrap().collect::<Vec<_>>()));
        let resp = match &got { Ok(v) => show_pos(v), Err(_) => "panic".into() };
        out.case(&format!("allheads {}", pos.enc), &resp);
        let all: BTreeSet<usize> = pos.at.iter().copied().collect();
        let want: BTreeSet<usize> = maximal(h, &all).iter().map(|i| pos.of[i]).collect();
        match got {
            Ok(v) if v.iter().copied().collect::<BTreeSet<_>>() == want && v.len() == want.len() => out.oracle_ok(),
            Ok(v) => out.oracle_fail("all-heads:not-the-childless-commits", format!("{label}: index {} all_heads = {v:?}, graph says {want:?}", pos.enc)),
            Err(e) => out.oracle_fail("all-heads:panic", format!("{label}: {e}")),
        }
    }

    // ---- generation numbers, entries through the segment stack (readonly index only) ----
    if let Some(ro) = ro {
        let stats = ro.stats();
        let sizes: Vec<u64> = stats.commit_levels.iter().map(|l| l.num_commits as u64).collect();
        out.tally("segments", &sizes.len().to_string());
        if sizes.iter().sum::<u64>() as usize != n || stats.num_commits as usize != n {
            out.oracle_fail("index:segment-sizes-do-not-add-up", format!("{label}: sizes {sizes:?}, n = {n}"));
        }
        let want_heads = maximal(h, &pos.at.iter().copied().collect()).len();
        let want_merges = pos.at.iter().filter(|&&i| h.commits[i].parent_ids().len() > 1).count();
        let want_maxgen = pos.at.iter().map(|&i| h.depth[i]).max().unwrap_or(0);
        let want_changes = pos.at.iter().map(|&i| h.commits[i].change_id().clone()).collect::<BTreeSet<_>>().len();
        if (stats.num_heads as usize, stats.num_merges as usize, stats.max_generation_number, stats.num_changes as usize)
            != (want_heads, want_merges, want_maxgen, want_changes) {
            out.oracle_fail("index:stats-disagree-with-graph", format!("{label}: {stats:?}"));
        } else { out.oracle_ok(); }
        let ps: Vec<usize> = if n <= 12 { (0..n).collect() } else { (0..budget / 3).map(|_| rnd_pos(r)).collect() };
        for p in ps {
            let gen_ = guard(|| ro.generation_number(&id_at(p)));
            let resp = match &gen_ { Ok(Some(g)) => g.to_string(), Ok(None) => "none".into(), Err(_) => "panic".into() };
            out.case(&format!("gen {} {p}", pos.enc), &resp);
            if h.depth[pos.at[p]] >= 2 { out.nontrivial(("gen", &pos.enc, p)); }
            match &gen_ {
                Ok(Some(g)) if *g == h.depth[pos.at[p]] => out.oracle_ok(),
                other => out.oracle_fail("generation:not-longest-path-to-root", format!("{label}: index {} gen({p}) = {other:?}, graph says {}", pos.enc, h.depth[pos.at[p]])),
            }
            // the entry as read through the segment stack: parents (via the index's own parent walk) and generation
            let expr = ResolvedExpression::Ancestors {
                heads: Box::new(ResolvedExpression::Commits(vec![id_at(p)])), generation: 1..2, parents_range: PARENTS_RANGE_FULL };
            let par = guard(|| eval_ids(index, store, &expr).map(|v| to_pos(&v)));
            let resp = match (&par, &gen_) {
                (Ok(Ok(v)), Ok(Some(g))) => format!("{}|{g}", show_pos(v)),
                _ => "panic".into(),
            };
            out.case(&format!("seg {} {} {p}", pos.enc, show_list(&sizes)), &resp);
            let want: BTreeSet<usize> = h.commits[pos.at[p]].parent_ids().iter().map(|id| pos.of[&h.by_id[id]]).collect();
            match par {
                Ok(Ok(v)) if v.iter().copied().collect::<BTreeSet<_>>() == want => out.oracle_ok(),
                other => out.oracle_fail("entry:parents-disagree-with-commit", format!("{label}: index {} parents({p}) = {other:?}, commit says {want:?}", pos.enc)),
            }
        }
    }
}

fn write_commits(r: &mut Rng, h: &mut Hist, mut_repo: &mut jj_lib::repo::MutableRepo, visible: &[usize], count: usize,
                 change_pool: &[ChangeId], octopus: usize) -> Vec<usize> {
    // `visible`: creation indices this transaction may use as parents (indexed in its base)
    let mut avail: Vec<usize> = visible.to_vec();
    let mut new = vec![];
    let tree = mut_repo.store().empty_merged_tree();
    for _ in 0..count {
        let np = match r.below(10) { 0..=4 => 1, 5..=7 => 2, _ => r.range(3, octopus.max(3)) };
        let mut ps: Vec<usize> = vec![];
        for _ in 0..np {
            // prefer recent commits so that the graph is deep, not a star
            let c = if r.chance(2, 3) && avail.len() > 4 { avail[avail.len() - 1 - r.below(4)] } else { *r.pick(&avail) };
            if !ps.contains(&c) { ps.push(c); }
        }
        if ps.len() > 1 { ps.retain(|&c| c != 0); } // the root commit cannot be a merge parent
        if ps.is_empty() { ps.push(0); }
        let parents: Vec<CommitId> = ps.iter().map(|&c| h.commits[c].id().clone()).collect();
        h.counter += 1;
        let mut b = mut_repo.new_commit(parents, tree.clone()).set_description(format!("c{}", h.counter));
        if r.chance(2, 3) { b = b.set_change_id(r.pick(change_pool).clone()); }
        let c = b.write().block_on().unwrap();
        let i = h.push(c);
        avail.push(i);
        new.push(i);
    }
    new
}

/// `(local sizes, file ids)` of the segment files of a readonly index, oldest first
fn levels_of(repo: &ReadonlyRepo, file_ids: &mut HashMap<String, u64>) -> (Vec<u64>, Vec<u64>) {
    let ro: &DefaultReadonlyIndex = repo.readonly_index().downcast_ref().unwrap();
    let st = ro.stats();
    let n = file_ids.len() as u64;
    let mut next = n;
    let ids = st.commit_levels.iter().map(|l| *file_ids.entry(l.name.clone()).or_insert_with(|| { next += 1; next })).collect();
    (st.commit_levels.iter().map(|l| l.num_commits as u64).collect(), ids)
}

/// the squash rule: each saved stack keeps "a parent file has more than twice the commits of its child"
fn squash_case(out: &mut Out, before: &(Vec<u64>, Vec<u64>), n_new: usize, after: &(Vec<u64>, Vec<u64>), what: &str) {
    out.case(&format!("squash {} {n_new}", show_list(&before.0)), &show_list(&after.0));
    out.tally("squash", if after.0.len() > before.0.len() { "stacked" } else if after.0.len() == before.0.len() && n_new == 0 { "nothing-new" } else { "squashed" });
    if after.0.len() <= before.0.len() && n_new > 0 { out.nontrivial(("squash", &before.0, n_new)); }
    let total_ok = before.0.iter().sum::<u64>() + n_new as u64 == after.0.iter().sum::<u64>();
    // documented rule: a saved non-empty top segment has less than half the commits of its parent file
    let k = after.0.len();
    let log_ok = n_new == 0 || k < 2 || 2 * after.0[k - 1] < after.0[k - 2];
    if total_ok && log_ok { out.oracle_ok(); }
    else { out.oracle_fail("segments:squash-rule-violated", format!("{what}: {:?} + {n_new} → {:?}", before.0, after.0)); }
}

#[allow(clippy::too_many_arguments)]
fn merge_case(out: &mut Out, h: &Hist, store: &Arc<Store>, base: &Arc<ReadonlyRepo>, base_members: &BTreeSet<usize>,
              sides: &[(Arc<ReadonlyRepo>, BTreeSet<usize>)], merged: &Arc<ReadonlyRepo>, merged_members: &BTreeSet<usize>,
              file_ids: &mut HashMap<String, u64>) {
    // `merge_operations` starts from the first parent of the merge operation and merges the other one in
    let parents = merged.operation().parent_ids().to_vec();
    if parents.len() != 2 { return; }
    let Some(own) = sides.iter().find(|(s, _)| *s.op_id() == parents[0]) else { return };
    let Some(other) = sides.iter().find(|(s, _)| *s.op_id() == parents[1]) else { return };
    let enc = |out: &mut Out, repo: &Arc<ReadonlyRepo>, members: &BTreeSet<usize>, file_ids: &mut HashMap<String, u64>| -> Option<(String, Pos, (Vec<u64>, Vec<u64>))> {
        let pos = observe_positions(out, h, repo.index(), store, "merge-input", members)?;
        let lv = levels_of(repo, file_ids);
        Some((format!("{} {} {} {}", show_list(&lv.0), show_list(&lv.1), show_pos(&pos.at), pos.enc), pos, lv))
    };
    let (Some(a), Some(b), Some(c)) = (enc(out, &own.0, &own.1, file_ids), enc(out, base, base_members, file_ids), enc(out, &other.0, &other.1, file_ids)) else { return };
    let Some(m) = observe_positions(out, h, merged.index(), store, "merge-result", merged_members) else { return };
    out.case(&format!("merge {} {} {}", a.0, b.0, c.0), &format!("{}|{}", show_pos(&m.at), m.enc));
    out.nontrivial(("merge", &a.0, &c.0));
    // the merged index keeps the own side's positions and appends what only the other side has
    let own_prefix = m.at.len() >= a.1.at.len() && m.at[..a.1.at.len()] == a.1.at[..];
    if own_prefix { out.oracle_ok(); } else { out.oracle_fail("merge-in:own-positions-moved", format!("own {:?} merged {:?}", a.1.at, m.at)); }
    let added = m.at.len() - a.1.at.len();
    squash_case(out, &a.2, added, &levels_of(merged, file_ids), "merge");
    out.tally("merge-common-base", if a.2.1.iter().any(|f| c.2.1.contains(f)) { "shared-file" } else { "no-shared-file" });
}

fn one_history(cfg: &Cfg, out: &mut Out, r: &mut Rng, hist_no: u64) {
    let test_repo = TestRepo::init();
    let settings = testutils::user_settings();
    let mut repo: Arc<ReadonlyRepo> = test_repo.repo.clone();
    let store = repo.store().clone();
    let mut h = Hist { commits: vec![], by_id: HashMap::new(), anc: vec![], depth: vec![], counter: hist_no * 10_000 };
    h.push(store.root_commit());
    let change_pool: Vec<ChangeId> = (0..r.range(1, 4)).map(|i| ChangeId::new(vec![0x10 + i as u8; 16])).collect();
    let rounds = r.range(1, if cfg.tier == Tier::Quick { 6 } else { 9 });
    let budget = if cfg.tier == Tier::Quick { 12 } else { 24 };
    // first transaction larger, later ones smaller ⇒ segments stack instead of squashing
    let mut size = r.range(1, 16);
    let mut max_levels = 1;
    let mut file_ids: HashMap<String, u64> = HashMap::new();
    let mut indexed: BTreeSet<usize> = [0].into_iter().collect();
    for round in 0..rounds {
        let visible: Vec<usize> = indexed.iter().copied().collect();
        let mut after = indexed.clone();
        let concurrent = if round > 0 && r.chance(1, 4) { r.range(2, 3) } else { 1 };
        let mut txs = vec![];
        let mut tx_new: Vec<Vec<usize>> = vec![];
        for _ in 0..concurrent {
            let mut tx = repo.start_transaction();
            let cnt = if concurrent > 1 { r.range(1, size.max(1)) } else { size };
            let new = write_commits(r, &mut h, tx.repo_mut(), &visible, cnt, &change_pool, 5);
            after.extend(new.iter().copied());
            tx_new.push(new.clone());
            if r.chance(1, 2) {
                let mut in_tx = indexed.clone();
                in_tx.extend(new.iter().copied());
                probe(out, r, &h, tx.repo().index(), None, &store, "mutable", budget / 2, &in_tx);
            }
            txs.push(tx);
        }
        let before_levels = levels_of(&repo, &mut file_ids);
        if concurrent == 1 {
            let n_new = after.len() - indexed.len();
            repo = txs.pop().unwrap().commit("t").block_on().unwrap();
            // segment stack after `maybe_squash_with_ancestors` + `save_in`
            squash_case(out, &before_levels, n_new, &levels_of(&repo, &mut file_ids), "commit");
        } else {
            let base = repo.clone();
            let mut sides: Vec<(Arc<ReadonlyRepo>, BTreeSet<usize>)> = vec![];
            for (tx, new) in txs.into_iter().zip(tx_new.iter()) {
                let n_new = new.len();
                let side = tx.commit("concurrent").block_on().unwrap();
                squash_case(out, &before_levels, n_new, &levels_of(&side, &mut file_ids), "commit");
                let mut members = indexed.clone();
                members.extend(new.iter().copied());
                sides.push((side, members));
            }
            repo = repo.reload_at_head().block_on().unwrap(); // merges the operations, merge_in on the index
            out.tally("merged-concurrent-ops", &concurrent.to_string());
            if concurrent == 2 {
                merge_case(out, &h, &store, &base, &indexed, &sides, &repo, &after, &mut file_ids);
            }
        }
        indexed = after;
        let ro: &DefaultReadonlyIndex = repo.readonly_index().downcast_ref().unwrap();
        max_levels = max_levels.max(ro.stats().commit_levels.len());
        probe(out, r, &h, repo.index(), Some(ro), &store, if concurrent > 1 { "readonly-merged" } else { "readonly" }, budget, &indexed);
        size = match r.below(4) { 0 => r.range(1, 12), _ => (size / 2).max(1) - r.below(2).min((size / 2).max(1) - 1) };
    }
    out.tally("max-segment-levels", &max_levels.to_string());
    // fresh loader: every segment file is parsed by the real reader
    let fresh = test_repo.env.load_repo_at_head(&settings, test_repo.repo_path());
    let ro: &DefaultReadonlyIndex = fresh.readonly_index().downcast_ref().unwrap();
    probe(out, r, &h, fresh.index(), Some(ro), &store, "reloaded-from-disk", budget * 2, &indexed);
    // rebuild from the operation log (different insertion order), then load again
    if r.chance(1, 3) {
        let dis: &DefaultIndexStore = fresh.index_store().downcast_ref().unwrap();
        dis.reinit().unwrap();
        let rebuilt = dis.build_index_at_operation(fresh.operation(), &store).block_on().unwrap();
        probe(out, r, &h, &rebuilt, Some(&rebuilt), &store, "rebuilt", budget, &indexed);
        let again = test_repo.env.load_repo_at_head(&settings, test_repo.repo_path());
        let ro: &DefaultReadonlyIndex = again.readonly_index().downcast_ref().unwrap();
        probe(out, r, &h, again.index(), Some(ro), &store, "rebuilt-reloaded", budget / 2, &indexed);
    }
}

pub fn run(cfg: &Cfg, out: &mut Out) {
    let mut r = cfg.rng(18);
    let n = cfg.n(120, 600);
    for hist_no in 0..n {
        one_history(cfg, out, &mut r, hist_no);
    }
    out.note(format!("{n} histories; per history 1–6 (quick) / 1–9 (thorough) rounds of transactions, 1/4 of later rounds concurrent (2–3 ops merged)"));
}
