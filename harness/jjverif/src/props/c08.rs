//! C08 — rebasing carries a commit's changes and nothing else.
//!
//! Real code: `rewrite::rebase_commit`, `rewrite::merge_commit_trees`, `find_recursive_merge_commits`
//! on random small histories (linear, merges, criss-cross, conflicted commit trees) in an in-memory
//! repo, both `merge.same-change` settings.
//! Model requests: `rebase` (tree of the rebased commit by structure), `mct`, `frmc`.
//! Oracle (from the property text): at every path with no file/directory clash above it,
//!   * untouched by the commit (commit == old parents' merge) ⇒ the rebased commit has the new parents' value,
//!   * old and new parents agree ⇒ the rebased commit keeps the commit's value,
//!   * same parent trees ⇒ identical tree ids,
//!   * disjoint touched paths ⇒ rebasing away and back restores the tree exactly.
use super::c07::tree_common::*;
use super::c07::{norm_actual, Env, Exp};
use crate::rt::*;
use jj_lib::backend::CommitId;
use jj_lib::commit::Commit;
use jj_lib::merge::Merge;
use jj_lib::merged_tree::MergedTree;
use jj_lib::object_id::ObjectId as _;
use jj_lib::repo::Repo as _;
use jj_lib::repo_path::RepoPath;
use jj_lib::rewrite::{find_recursive_merge_commits, merge_commit_trees, rebase_commit};
use pollster::FutureExt as _;
use std::collections::BTreeSet;

pub struct Hist {
    /// parents (indices) and tree terms of every commit; index 0 is the root
    pub commits: Vec<(Vec<usize>, Vec<MTree>)>,
}
impl Hist {
    pub fn show(&self) -> String {
        self.commits.iter().map(|(ps, ts)| {
            let p = if ps.is_empty() { "-".to_string() } else { ps.iter().map(|x| x.to_string()).collect::<Vec<_>>().join(".") };
            format!("{p}={}", show_trees(ts))
        }).collect::<Vec<_>>().join(",")
    }
}
pub fn ids(v: &[usize]) -> String { if v.is_empty() { "-".into() } else { v.iter().map(|x| x.to_string()).collect::<Vec<_>>().join(".") } }

pub fn is_debug_assert(e: &str) -> bool { e.contains("left == right") && e.contains("TreeId(") }

fn pv(env: &mut Env, t: &MergedTree, p: &[u64]) -> Result<Exp, String> {
    let rp = repo_path_of(p);
    let v = t.path_value(&rp).block_on().map_err(|e| e.to_string())?;
    let a = env.conv.mval(&rp, &v)?;
    Ok(norm_actual(&a, env.accept))
}
fn same(a: &Exp, b: &Exp) -> bool {
    match (a, b) { (Exp::Resolved(x), Exp::Resolved(y)) => x == y, (Exp::Conflict(c, _), Exp::Conflict(d, _)) => c == d, _ => false }
}

/// a random resolved-or-conflicted tree as jj would store it: conflicts come out of a real merge
fn gen_commit_tree(env: &mut Env, r: &mut Rng, pal: &Palette, fam: &[MTree]) -> Vec<MTree> {
    if r.chance(1, 6) {
        let ts: Vec<MTree> = (0..3).map(|_| { let b = r.pick(fam).clone(); pal.mutate(r, &b) }).collect();
        let trees: Vec<MergedTree> = ts.iter().map(|t| env.conv.merged(std::slice::from_ref(t))).collect();
        if let Ok(Ok(m)) = guard(|| MergedTree::merge(Merge::from_vec(trees.iter().map(|t| (t.clone(), "x".to_string())).collect::<Vec<_>>())).block_on()) {
            if let Ok(t) = env.conv.read_merged(&m) { return t; }
        }
    }
    vec![if r.chance(1, 3) { r.pick(fam).clone() } else { let b = r.pick(fam).clone(); pal.mutate(r, &b) }]
}

pub fn touched(a: &MTree, b: &MTree) -> BTreeSet<Vec<u64>> {
    let mut paths = BTreeSet::new();
    all_paths(a, &mut vec![], &mut paths);
    all_paths(b, &mut vec![], &mut paths);
    paths.into_iter().filter(|p| { let (x, y) = (get(a, p), get(b, p)); x != y && !(matches!(x, Some(V::T(_))) && matches!(y, Some(V::T(_)))) }).collect()
}
fn disjoint(a: &BTreeSet<Vec<u64>>, b: &BTreeSet<Vec<u64>>) -> bool {
    a.iter().all(|p| b.iter().all(|q| !(p.starts_with(q) || q.starts_with(p))))
}

fn one(env: &mut Env, out: &mut Out, r: &mut Rng, case_no: u64, big: bool) {
    let (h, c, new_parents) = gen_case(env, r, big);
    run_case(env, out, r, case_no, h, c, new_parents);
}

pub fn gen_case(env: &mut Env, r: &mut Rng, big: bool) -> (Hist, usize, Vec<usize>) {
    let pal = Palette::new(r);
    let fam = pal.family(r, 4);
    let n = if big { r.range(3, 7) } else { r.range(2, 4) };
    let mut h = Hist { commits: vec![(vec![], vec![vec![]])] };
    for i in 1..=n {
        let parents: Vec<usize> = if i >= 3 && r.chance(1, 3) {
            let mut ps = BTreeSet::new();
            for _ in 0..r.range(2, 3) { ps.insert(r.below(i)); }
            let mut ps: Vec<usize> = ps.into_iter().collect();
            if r.chance(1, 2) { ps.reverse(); }
            ps
        } else { vec![if r.chance(2, 3) { i - 1 } else { r.below(i) }] };
        let tree = gen_commit_tree(env, r, &pal, &fam);
        h.commits.push((parents, tree));
    }
    let c = r.range(1, n);
    let new_parents: Vec<usize> = match r.below(8) {
        0 => h.commits[c].0.clone(), // same parents
        1 | 2 => { let mut ps = BTreeSet::new(); for _ in 0..2 { let p = r.below(n + 1); if p != c { ps.insert(p); } } if ps.is_empty() { vec![0] } else { ps.into_iter().collect() } }
        _ => { let mut p = r.below(n + 1); if p == c { p = 0; } vec![p] }
    };
    (h, c, new_parents)
}

fn run_case(env: &mut Env, out: &mut Out, r: &mut Rng, case_no: u64, h: Hist, c: usize, new_parents: Vec<usize>) {
    let n = h.commits.len() - 1;
    // build the real history inside one (discarded) transaction
    let repo = env.repo.repo.clone();
    let mut tx = repo.start_transaction();
    let mut real: Vec<Commit> = vec![repo.store().root_commit()];
    for (i, (ps, ts)) in h.commits.iter().enumerate().skip(1) {
        let tree = env.conv.merged(ts);
        let pids: Vec<CommitId> = ps.iter().map(|p| real[*p].id().clone()).collect();
        let commit = tx.repo_mut().new_commit(pids, tree).set_description(format!("case {case_no} commit {i} {}", env.sc)).write().block_on().unwrap();
        real.push(commit);
    }
    let hs = h.show();

    // find_recursive_merge_commits / merge_commit_trees on the new parents (and on a random pair)
    let probe: Vec<usize> = if new_parents.len() > 1 { new_parents.clone() } else { let a = r.below(n + 1); let b = r.below(n + 1); if a == b { vec![a] } else { vec![a, b] } };
    {
        let pids: Vec<CommitId> = probe.iter().map(|p| real[*p].id().clone()).collect();
        let store = repo.store().clone();
        match guard(|| find_recursive_merge_commits(&store, tx.repo().index(), pids).block_on()) {
            Ok(Ok(m)) => {
                let idx: Vec<u64> = m.iter().map(|id| real.iter().position(|c| c.id() == id).map(|p| p as u64).unwrap_or(999)).collect();
                out.case(&format!("frmc {hs} {}", ids(&probe)), &show_list(&idx));
                out.tally("frmc.terms", &idx.len().to_string());
            }
            Ok(Err(e)) => { out.case(&format!("frmc {hs} {}", ids(&probe)), "err"); out.oracle_fail("rebase:frmc-error", e.to_string()); }
            Err(e) => { out.case(&format!("frmc {hs} {}", ids(&probe)), "panic"); out.oracle_fail("rebase:frmc-panic", e); }
        }
        let commits: Vec<Commit> = probe.iter().map(|p| real[*p].clone()).collect();
        let req = format!("mct {} {hs} {}", env.sc, ids(&probe));
        match guard(|| merge_commit_trees(tx.repo(), &commits).block_on()) {
            Ok(Ok(t)) => match env.conv.read_merged(&t) { Ok(ts) => { out.case(&req, &show_trees(&ts)); } Err(e) => { out.case(&req, "undecodable"); out.oracle_fail("rebase:undecodable", e); } },
            Ok(Err(e)) => { out.case(&req, "err"); out.oracle_fail("rebase:mct-error", e.to_string()); }
            Err(e) if is_debug_assert(&e) => { out.case(&req, "panic:resolve-debug-assert"); out.oracle_fail("tree-merge:resolve-debug-assert-remerge-differs", format!("{req}: {}", e.replace('\n', " "))); }
            Err(e) => { out.case(&req, "panic"); out.oracle_fail("rebase:mct-panic", e); }
        }
    }

    let req = format!("rebase {} {hs} {c} {}", env.sc, ids(&new_parents));
    let new_pids: Vec<CommitId> = new_parents.iter().map(|p| real[*p].id().clone()).collect();
    let old = real[c].clone();
    let rebased = match guard(|| rebase_commit(tx.repo_mut(), old.clone(), new_pids.clone()).block_on()) {
        Ok(Ok(c)) => c,
        Ok(Err(e)) => { out.case(&req, "err"); out.oracle_fail("rebase:error", format!("{req}: {e}")); return; }
        Err(e) if is_debug_assert(&e) => {
            out.case(&req, "panic:resolve-debug-assert");
            out.tally("rebase.result", "debug-assert");
            out.oracle_fail("tree-merge:resolve-debug-assert-remerge-differs", format!("{req}: {}", e.replace('\n', " ")));
            return;
        }
        Err(e) => { out.case(&req, "panic"); out.oracle_fail("rebase:panic", format!("{req}: {e}")); return; }
    };
    let rt = rebased.tree();
    let rterms = match env.conv.read_merged(&rt) { Ok(t) => t, Err(e) => { out.case(&req, "undecodable"); out.oracle_fail("rebase:undecodable", e); return; } };
    out.case(&req, &show_trees(&rterms));
    out.tally("rebase.result", if rterms.len() == 1 { "resolved" } else { "conflict" });
    out.tally("rebase.new-parents", &new_parents.len().to_string());
    out.tally("rebase.old-parents", &h.commits[c].0.len().to_string());
    out.tally("rebase.commit-tree", if h.commits[c].1.len() == 1 { "resolved" } else { "conflicted" });
    out.nontrivial((hs.clone(), c, new_parents.clone(), env.accept));

    // --- oracle ---
    let old_parents: Vec<Commit> = h.commits[c].0.iter().map(|p| real[*p].clone()).collect();
    let new_parent_commits: Vec<Commit> = new_parents.iter().map(|p| real[*p].clone()).collect();
    let same_trees = old_parents.iter().map(|p| p.tree_ids().clone()).collect::<Vec<_>>() == new_parent_commits.iter().map(|p| p.tree_ids().clone()).collect::<Vec<_>>();
    if same_trees {
        out.tally("rebase.kind", "same-parent-trees");
        if rebased.tree_ids() == old.tree_ids() { out.oracle_ok() } else { out.oracle_fail("rebase:same-parents-changed-tree", req.clone()); }
    }
    let (ob, nb) = match (guard(|| merge_commit_trees(tx.repo(), &old_parents).block_on()), guard(|| merge_commit_trees(tx.repo(), &new_parent_commits).block_on())) {
        (Ok(Ok(a)), Ok(Ok(b))) => (a, b),
        _ => return,
    };
    let ct = old.tree();
    let (obt, nbt, ctt) = match (env.conv.read_merged(&ob), env.conv.read_merged(&nb), env.conv.read_merged(&ct)) { (Ok(a), Ok(b), Ok(c)) => (a, b, c), _ => return };
    let flat: Vec<MTree> = Merge::from_vec(vec![Merge::from_vec(nbt.clone()), Merge::from_vec(obt.clone()), Merge::from_vec(ctt.clone())]).flatten().simplify().iter().cloned().collect();
    let mut paths = BTreeSet::new();
    for t in flat.iter().chain(rterms.iter()).chain(obt.iter()).chain(nbt.iter()).chain(ctt.iter()) { all_paths(t, &mut vec![], &mut paths); }
    let mut bad: Option<(&'static str, String)> = None;
    for p in &paths {
        if !(no_clash_above(&flat, p, env.accept) && no_clash_above(&obt, p, env.accept) && no_clash_above(&nbt, p, env.accept) && no_clash_above(&ctt, p, env.accept) && no_clash_above(&rterms, p, env.accept)) { out.tally("rebase.path", "below-clash"); continue; }
        let (vo, vn, vc, vr) = match (pv(env, &ob, p), pv(env, &nb, p), pv(env, &ct, p), pv(env, &rt, p)) { (Ok(a), Ok(b), Ok(c), Ok(d)) => (a, b, c, d), _ => { bad = Some(("rebase:path-value-error", format!("{req} path {}", show_path(p)))); continue; } };
        if same(&vc, &vo) {
            out.tally("rebase.path", "untouched");
            // the "equal parent trees ⇒ keep the tree" shortcut, taken although the merged parents differ (known finding)
            let sig = if same_trees && ob.tree_ids() != nb.tree_ids() { "rebase:equal-parent-trees-shortcut-ignores-merge-base" } else { "rebase:untouched-path-not-from-new-parents" };
            if !same(&vr, &vn) && bad.is_none() { bad = Some((sig, format!("{req} path {}: commit {vc:?} = old base; new base {vn:?}; rebased {vr:?}", show_path(p)))); }
        } else if same(&vo, &vn) {
            out.tally("rebase.path", "parents-agree");
            if !same(&vr, &vc) && bad.is_none() { bad = Some(("rebase:agreeing-parents-path-lost-commit-content", format!("{req} path {}: commit {vc:?}; bases {vo:?}; rebased {vr:?}", show_path(p)))); }
        } else { out.tally("rebase.path", "both-changed"); }
    }
    match bad { None => out.oracle_ok(), Some((sig, d)) => out.oracle_fail(sig, d) }

    // round trip for resolved single-parent cases
    if h.commits[c].0.len() == 1 && new_parents.len() == 1 && ctt.len() == 1 && obt.len() == 1 && nbt.len() == 1 {
        let (tc, tp) = (touched(&ctt[0], &obt[0]), touched(&obt[0], &nbt[0]));
        if disjoint(&tc, &tp) {
            out.tally("rebase.roundtrip", "disjoint");
            let old_pids: Vec<CommitId> = h.commits[c].0.iter().map(|p| real[*p].id().clone()).collect();
            match guard(|| rebase_commit(tx.repo_mut(), rebased.clone(), old_pids).block_on()) {
                Ok(Ok(back)) => {
                    if back.tree_ids() == old.tree_ids() && !rt.has_conflict() { out.oracle_ok() }
                    else { out.oracle_fail("rebase:roundtrip-disjoint-not-restored", format!("{req}: away {} back {:?}", show_trees(&rterms), env.conv.read_merged(&back.tree()).map(|t| show_trees(&t)))); }
                }
                Ok(Err(e)) => out.oracle_fail("rebase:error", e.to_string()),
                Err(e) => out.oracle_fail("rebase:panic", e),
            }
        } else { out.tally("rebase.roundtrip", "overlapping"); }
    }
    let _ = RepoPath::root();
    let _ = old.id().hex();
}

pub fn run(cfg: &Cfg, out: &mut Out) {
    std::panic::set_hook(Box::new(|_| {}));
    let mut envs = [Env::new(true), Env::new(false)];
    let mut r = cfg.rng(8);
    // fixed reproducer of the known finding: parents [2,1] and [0,1] have the same list of trees [(), A]
    // but merge to () and A respectively (1 is an ancestor of 2; 0 is an ancestor of 1)
    for env in envs.iter_mut() {
        let a: MTree = vec![(0, V::F(0, false))];
        let h = Hist { commits: vec![(vec![], vec![vec![]]), (vec![0], vec![a]), (vec![1], vec![vec![]]), (vec![2, 1], vec![vec![]])] };
        run_case(env, out, &mut r, 1_000_000, h, 3, vec![0, 1]);
        // the same without redundant parents: two sibling pairs with equal trees over different bases
        let (tx, t2, t3): (MTree, MTree, MTree) = (vec![(0, V::F(0, false))], vec![(0, V::F(1, false))], vec![(0, V::F(0, false)), (1, V::F(0, false))]);
        let merged: MTree = vec![(0, V::F(1, false)), (1, V::F(0, false))];
        let h = Hist { commits: vec![(vec![], vec![vec![]]), (vec![0], vec![tx]), (vec![1], vec![t2.clone()]), (vec![1], vec![t3.clone()]),
            (vec![0], vec![vec![(2, V::F(0, false))]]), (vec![4], vec![t2]), (vec![4], vec![t3]), (vec![2, 3], vec![merged])] };
        run_case(env, out, &mut r, 1_000_001, h, 7, vec![5, 6]);
    }
    let n = cfg.n(5_000, 100_000);
    for i in 0..n {
        let env = &mut envs[if i % 3 == 2 { 1 } else { 0 }];
        one(env, out, &mut r, i, i >= n / 3);
    }
    out.note("random histories of 2–7 commits over the root (linear / merges with 2–3 parents / criss-cross), trees from a related family, 1 in 6 commit trees conflicted (output of a real merge); rebase of a random commit onto 1–2 random other commits or its own parents; both same-change settings".to_string());
}
