//! C03 — content diffs partition their inputs deterministically.
//!
//! Implementation under test: `jj_lib::diff` (= `jj_core::diff`): `ContentDiff::{for_tokenizer,
//! by_line, by_word, unrefined, refine_changed_regions, hunk_ranges, hunks}`, `diff()`,
//! `find_{line,word,nonword}_ranges`, the three `CompareBytes` implementations.
//!
//! Request `hunks <tok:cmp,tok:cmp,…> <hex>;<hex>;…`: first step = `for_tokenizer`, further steps =
//! `refine_changed_regions`.  Answer = the whole `hunk_ranges()` stream (+ the constant ` wf=1111`:
//! the Lean driver prints there whether the hypotheses of the reconstruction / alternation /
//! matching theorems hold for the *model's* regions, so a `0` shows up as a disagreement).
//!
//! Every case is evaluated twice in-process (two `RandomState` seeds; the second time through the
//! named constructor `by_line` / `by_word` / `unrefined` / `diff()` when the steps have one).
//!
//! Oracle (property text only): per-input reconstruction from `hunks()`, `hunks()` contents are the
//! slices named by `hunk_ranges()`, matching hunks pairwise equal under the comparison (own
//! normalisers below), no hunk empty on every side, strict alternation, both runs identical.
use crate::rt::*;
use jj_lib::diff::{
    self, CompareBytes, CompareBytesExactly, CompareBytesIgnoreAllWhitespace, CompareBytesIgnoreWhitespaceAmount,
    ContentDiff, DiffHunkKind,
};
use std::ops::Range;

#[derive(Clone, Copy, PartialEq, Eq, Hash, Debug)]
pub enum Tok { Line, Word, Nonword, None }
#[derive(Clone, Copy, PartialEq, Eq, Hash, Debug, PartialOrd, Ord)]
pub enum Cmp { Exact, WsAmt, AllWs }

impl Tok {
    fn name(self) -> &'static str { match self { Tok::Line => "line", Tok::Word => "word", Tok::Nonword => "nonword", Tok::None => "none" } }
    fn run(self, t: &[u8]) -> Vec<Range<usize>> {
        match self {
            Tok::Line => diff::find_line_ranges(t),
            Tok::Word => diff::find_word_ranges(t),
            Tok::Nonword => diff::find_nonword_ranges(t),
            Tok::None => vec![],
        }
    }
}
impl Cmp {
    fn name(self) -> &'static str { match self { Cmp::Exact => "exact", Cmp::WsAmt => "wsamt", Cmp::AllWs => "allws" } }
}
const TOKS: [Tok; 4] = [Tok::Line, Tok::Word, Tok::Nonword, Tok::None];
const CMPS: [Cmp; 3] = [Cmp::Exact, Cmp::WsAmt, Cmp::AllWs];

type Hunks = Vec<(bool, Vec<Range<usize>>)>; // (is_matching, per-side ranges)

fn for_tok<'a>(inputs: &[&'a [u8]], t: Tok, c: Cmp) -> ContentDiff<'a> {
    let it = inputs.iter().copied();
    match c {
        Cmp::Exact => ContentDiff::for_tokenizer(it, |x| t.run(x), CompareBytesExactly),
        Cmp::WsAmt => ContentDiff::for_tokenizer(it, |x| t.run(x), CompareBytesIgnoreWhitespaceAmount),
        Cmp::AllWs => ContentDiff::for_tokenizer(it, |x| t.run(x), CompareBytesIgnoreAllWhitespace),
    }
}
fn refine(d: &mut ContentDiff<'_>, t: Tok, c: Cmp) {
    match c {
        Cmp::Exact => d.refine_changed_regions(|x| t.run(x), CompareBytesExactly),
        Cmp::WsAmt => d.refine_changed_regions(|x| t.run(x), CompareBytesIgnoreWhitespaceAmount),
        Cmp::AllWs => d.refine_changed_regions(|x| t.run(x), CompareBytesIgnoreAllWhitespace),
    }
}

struct Observed { hunks: Hunks, contents: Vec<Vec<Vec<u8>>> }

fn observe(d: &ContentDiff<'_>) -> Observed {
    let hunks = d.hunk_ranges().map(|h| (h.kind == DiffHunkKind::Matching, h.ranges.to_vec())).collect();
    let contents = d.hunks().map(|h| h.contents.iter().map(|c| c.to_vec()).collect()).collect();
    Observed { hunks, contents }
}

/// generic path: `for_tokenizer` + `refine_changed_regions`
fn run_generic(inputs: &[&[u8]], steps: &[(Tok, Cmp)]) -> Observed {
    let mut d = for_tok(inputs, steps[0].0, steps[0].1);
    for &(t, c) in &steps[1..] { refine(&mut d, t, c); }
    observe(&d)
}

/// the named constructor for these steps, if the public API has one
fn run_named(inputs: &[&[u8]], steps: &[(Tok, Cmp)]) -> Option<(&'static str, Observed)> {
    let it = inputs.iter().copied();
    match steps {
        [(Tok::Line, Cmp::Exact)] => Some(("by_line", observe(&ContentDiff::by_line(it)))),
        [(Tok::Word, Cmp::Exact), (Tok::Nonword, Cmp::Exact)] => Some(("by_word", observe(&ContentDiff::by_word(it)))),
        [(Tok::None, Cmp::Exact)] => Some(("unrefined", observe(&ContentDiff::unrefined(it)))),
        _ => None,
    }
}

fn show_hunks(h: &Hunks) -> String {
    if h.is_empty() { return "-".into(); }
    h.iter().map(|(m, rs)| format!("{}:{}", if *m { "M" } else { "D" },
        rs.iter().map(|r| format!("{}-{}", r.start, r.end)).collect::<Vec<_>>().join(","))).collect::<Vec<_>>().join(";")
}
fn show_ranges(rs: &[Range<usize>]) -> String {
    if rs.is_empty() { "-".into() } else { rs.iter().map(|r| format!("{}-{}", r.start, r.end)).collect::<Vec<_>>().join(",") }
}
fn show_steps(steps: &[(Tok, Cmp)]) -> String {
    steps.iter().map(|(t, c)| format!("{}:{}", t.name(), c.name())).collect::<Vec<_>>().join(",")
}

// ---- the comparison relations, written from their documentation (oracle side) ----
fn is_ws(b: u8) -> bool { matches!(b, b' ' | b'\t' | b'\n' | 0x0c | b'\r') }
fn canon(c: Cmp, t: &[u8]) -> Vec<u8> {
    match c {
        Cmp::Exact => t.to_vec(),
        Cmp::AllWs => t.iter().copied().filter(|b| !is_ws(*b)).collect(),
        Cmp::WsAmt => {
            // every maximal run of whitespace counts as one blank
            let mut out = vec![];
            let mut i = 0;
            while i < t.len() {
                if is_ws(t[i]) { out.push(b' '); while i < t.len() && is_ws(t[i]) { i += 1; } } else { out.push(t[i]); i += 1; }
            }
            out
        }
    }
}

fn oracle(out: &mut Out, inputs: &[&[u8]], steps: &[(Tok, Cmp)], a: &Observed, b: Option<&Observed>) {
    let desc = || format!("steps={} inputs={:?} hunks={}", show_steps(steps),
        inputs.iter().map(|i| String::from_utf8_lossy(i).into_owned()).collect::<Vec<_>>(), show_hunks(&a.hunks));
    // determinism (and equivalence of the named constructors)
    if let Some(b) = b {
        if b.hunks != a.hunks || b.contents != a.contents {
            return out.oracle_fail("diff:nondeterministic", format!("second run gave {} — {}", show_hunks(&b.hunks), desc()));
        }
    }
    if a.hunks.len() != a.contents.len() {
        return out.oracle_fail("diff:hunks-vs-ranges", format!("hunks() and hunk_ranges() differ in length — {}", desc()));
    }
    // contents are the slices named by the ranges
    for ((_, rs), cs) in a.hunks.iter().zip(&a.contents) {
        if rs.len() != inputs.len() || cs.len() != inputs.len() {
            return out.oracle_fail("diff:arity", format!("hunk arity differs from input count — {}", desc()));
        }
        for (i, r) in rs.iter().enumerate() {
            if r.start > r.end || r.end > inputs[i].len() || inputs[i][r.clone()] != cs[i][..] {
                return out.oracle_fail("diff:hunks-vs-ranges", format!("hunk content is not the slice at its range — {}", desc()));
            }
        }
    }
    // reconstruction
    for (i, input) in inputs.iter().enumerate() {
        let cat: Vec<u8> = a.contents.iter().flat_map(|cs| cs[i].iter().copied()).collect();
        if &cat[..] != *input {
            return out.oracle_fail("diff:reconstruction", format!("side {i} reconstructs to {:?} — {}", String::from_utf8_lossy(&cat), desc()));
        }
    }
    // matching hunks are equal under the (weakest) comparison in use
    let weakest = steps.iter().map(|s| s.1).max().unwrap();
    for ((m, _), cs) in a.hunks.iter().zip(&a.contents) {
        if *m {
            let c0 = canon(weakest, &cs[0]);
            if cs.iter().any(|c| canon(weakest, c) != c0) {
                return out.oracle_fail("diff:matching-not-equal", format!("matching hunk {:?} — {}", cs, desc()));
            }
        }
    }
    // no all-empty hunk; strict alternation
    if a.contents.iter().any(|cs| cs.iter().all(|c| c.is_empty())) {
        return out.oracle_fail("diff:empty-hunk", desc());
    }
    if a.hunks.windows(2).any(|w| w[0].0 == w[1].0) {
        return out.oracle_fail("diff:alternation", desc());
    }
    out.oracle_ok();
}

fn one(out: &mut Out, inputs: &[Vec<u8>], steps: &[(Tok, Cmp)], family: &str) {
    let refs: Vec<&[u8]> = inputs.iter().map(|v| &v[..]).collect();
    let req = format!("hunks {} {}", show_steps(steps), inputs.iter().map(|i| hex(i)).collect::<Vec<_>>().join(";"));
    let first = guard(|| run_generic(&refs, steps));
    let second = guard(|| run_named(&refs, steps).unwrap_or_else(|| ("generic", run_generic(&refs, steps))));
    out.tally("family", family);
    out.tally("inputs", &inputs.len().to_string());
    out.tally("first-step", &show_steps(&steps[..1]));
    out.tally("refinements", &(steps.len() - 1).to_string());
    out.tally("comparators", if steps.iter().all(|s| s.1 == steps[0].1) { "uniform" } else { "mixed" });
    match (&first, &second) {
        (Ok(a), Ok((via, b))) => {
            out.case(&req, &format!("{} wf=1111", show_hunks(&a.hunks)));
            out.tally("second-run-via", via);
            let nm = a.hunks.iter().filter(|h| h.0).count();
            let nd = a.hunks.len() - nm;
            out.tally("hunks", match a.hunks.len() { 0 => "0", 1 => "1", 2..=3 => "2-3", 4..=7 => "4-7", _ => "8+" });
            if inputs.len() >= 2 && nm >= 1 && nd >= 1 { out.nontrivial((show_steps(steps), inputs.to_vec())); }
            oracle(out, &refs, steps, a, Some(b));
        }
        _ => {
            out.case(&req, "panic");
            let e = first.as_ref().err().cloned().or(second.as_ref().err().cloned()).unwrap_or_default();
            out.oracle_fail("diff:panic", format!("{req}: {e}"));
        }
    }
    // `diff()` = line, then word, then nonword refinement: compare its contents with the same steps
    if steps == [(Tok::Line, Cmp::Exact), (Tok::Word, Cmp::Exact), (Tok::Nonword, Cmp::Exact)] {
        if let (Ok(a), Ok(h)) = (&first, guard(|| diff::diff(refs.iter().copied()))) {
            let got: Vec<(bool, Vec<Vec<u8>>)> = h.iter().map(|h| (h.kind == DiffHunkKind::Matching, h.contents.iter().map(|c| c.to_vec()).collect())).collect();
            let want: Vec<(bool, Vec<Vec<u8>>)> = a.hunks.iter().zip(&a.contents).map(|(h, c)| (h.0, c.clone())).collect();
            out.impl_only();
            if got == want { out.oracle_ok() } else { out.oracle_fail("diff:nondeterministic", format!("diff() differs from line/word/nonword refinement on {req}")) }
        }
    }
}

fn tok_case(out: &mut Out, t: Tok, text: &[u8]) {
    let r = guard(|| t.run(text));
    let resp = match &r { Ok(rs) => show_ranges(rs), Err(_) => "panic".into() };
    out.case(&format!("tok {} {}", t.name(), hex(text)), &resp);
    out.tally("family", "tok");
    // tokens are non-empty, sorted, disjoint, in bounds (what the diff relies on)
    match r {
        Ok(rs) => {
            let ok = rs.iter().all(|r| r.start < r.end && r.end <= text.len()) && rs.windows(2).all(|w| w[0].end <= w[1].start)
                && (t != Tok::Line || rs.iter().map(|r| r.len()).sum::<usize>() == text.len());
            if ok { out.oracle_ok() } else { out.oracle_fail("diff:bad-token-ranges", format!("{} on {:?}: {}", t.name(), text, resp)) }
        }
        Err(e) => out.oracle_fail("diff:panic", e),
    }
}

fn eq_case(out: &mut Out, c: Cmp, l: &[u8], r: &[u8]) {
    let got = guard(|| match c {
        Cmp::Exact => CompareBytesExactly.eq(l, r),
        Cmp::WsAmt => CompareBytesIgnoreWhitespaceAmount.eq(l, r),
        Cmp::AllWs => CompareBytesIgnoreAllWhitespace.eq(l, r),
    });
    out.case(&format!("eq {} {} {}", c.name(), hex(l), hex(r)), &match &got { Ok(b) => (if *b { "1" } else { "0" }).to_string(), Err(_) => "panic".into() });
    out.tally("family", "eq");
    match got {
        Ok(b) if b == (canon(c, l) == canon(c, r)) => out.oracle_ok(),
        Ok(b) => out.oracle_fail("diff:compare-eq", format!("{}.eq({l:?},{r:?}) = {b}", c.name())),
        Err(e) => out.oracle_fail("diff:panic", e),
    }
}

// ---- generators ----

const LINES: &[&[u8]] = &[
    b"a\n", b"b\n", b"c\n", b"a b\n", b"a  b\n", b"\n", b"c\r\n", b" a\n", b"\tb \n", b"\x00\xff\n", b"a_b-c\n", b"d e f\n",
    b"ab\n", b"a.b\n", b" \n", b"a\x0bb\n", b"a\x0c b\n",
];
const TAILS: &[&[u8]] = &[b"", b"", b"a", b"b", b"a b", b" ", b"\xfe", b"c\r"];

fn gen_text(r: &mut Rng, pool: usize, max_lines: usize) -> Vec<Vec<u8>> {
    let n = r.below(max_lines + 1);
    (0..n).map(|_| LINES[r.below(pool)].to_vec()).collect()
}

fn mutate(r: &mut Rng, base: &[Vec<u8>], pool: usize) -> Vec<Vec<u8>> {
    let mut v = base.to_vec();
    for _ in 0..r.below(4) {
        match r.below(5) {
            0 if !v.is_empty() => { let i = r.below(v.len()); v.remove(i); }
            1 => { let i = r.below(v.len() + 1); v.insert(i, LINES[r.below(pool)].to_vec()); }
            2 if !v.is_empty() => { let i = r.below(v.len()); v[i] = LINES[r.below(pool)].to_vec(); }
            3 if v.len() >= 2 => { let i = r.below(v.len() - 1); v.swap(i, i + 1); }
            4 if !v.is_empty() => { let i = r.below(v.len()); let l = v[i].clone(); v.insert(i, l); }
            _ => {}
        }
    }
    v
}

fn join(r: &mut Rng, lines: &[Vec<u8>]) -> Vec<u8> {
    let mut t: Vec<u8> = lines.concat();
    if r.chance(1, 4) { t.extend_from_slice(TAILS[r.below(TAILS.len())]); }
    else if r.chance(1, 8) && t.last() == Some(&b'\n') { t.pop(); }
    t
}

fn gen_steps(r: &mut Rng) -> Vec<(Tok, Cmp)> {
    match r.below(10) {
        0 => vec![(Tok::Line, Cmp::Exact)],
        1 => vec![(Tok::Word, Cmp::Exact), (Tok::Nonword, Cmp::Exact)],
        2 => vec![(Tok::Line, Cmp::Exact), (Tok::Word, Cmp::Exact), (Tok::Nonword, Cmp::Exact)],
        3 => vec![(Tok::None, Cmp::Exact)],
        _ => {
            // same comparator throughout (the usual way), sometimes mixed
            let c = CMPS[r.below(3)];
            let mut s = vec![(TOKS[r.below(4)], c)];
            for _ in 0..r.below(3) {
                s.push((TOKS[r.below(3)], if r.chance(1, 5) { CMPS[r.below(3)] } else { c }));
            }
            s
        }
    }
}

fn all_strings(alpha: &[u8], max_len: usize) -> Vec<Vec<u8>> {
    let mut res = vec![vec![]];
    let mut last = vec![vec![]];
    for _ in 0..max_len {
        let mut next = vec![];
        for s in &last { for a in alpha { let mut t: Vec<u8> = s.clone(); t.push(*a); next.push(t); } }
        res.extend(next.iter().cloned());
        last = next;
    }
    res
}

pub fn run(cfg: &Cfg, out: &mut Out) {
    // 1. tokenizers and comparators on all short strings over a tiny alphabet
    let small = all_strings(b"a \n_", 4);
    for s in &small { for t in [Tok::Line, Tok::Word, Tok::Nonword] { tok_case(out, t, s); } }
    let ws = all_strings(b"a \t\x0b", 3);
    for l in &ws { for r in &ws { for c in CMPS { eq_case(out, c, l, r); } } }

    // 2. exhaustive: all pairs of strings of length ≤ 3 over {a, space, newline}; every tokenizer × comparator,
    //    and the word→nonword refinement
    let tiny = all_strings(b"a \n", if cfg.tier == Tier::Quick { 3 } else { 4 });
    for x in &tiny {
        for y in &tiny {
            for t in TOKS { for c in CMPS {
                if t == Tok::None && c != Cmp::Exact { continue; }
                one(out, &[x.clone(), y.clone()], &[(t, c)], "exhaustive-pairs");
            } }
            one(out, &[x.clone(), y.clone()], &[(Tok::Word, Cmp::Exact), (Tok::Nonword, Cmp::Exact)], "exhaustive-pairs");
            one(out, &[x.clone(), y.clone()], &[(Tok::Line, Cmp::AllWs), (Tok::Word, Cmp::AllWs)], "exhaustive-pairs");
        }
    }
    out.note(format!("exhaustive: all {} ordered pairs of strings of length ≤ {} over {{a, space, newline}} × 12 step lists; tokenizers on all strings ≤ 4 over 4 bytes; eq on all pairs ≤ 3 over 3 bytes",
        tiny.len() * tiny.len(), if cfg.tier == Tier::Quick { 3 } else { 4 }));

    // 3. random line-structured inputs, 1–4 inputs derived from a common base
    let mut r = cfg.rng(3);
    for k in 0..cfg.n(30_000, 600_000) {
        let pool = *r.pick(&[3usize, 5, 8, LINES.len()]);
        let max_lines = if k % 3 == 0 { 4 } else { 9 };
        let base = gen_text(&mut r, pool, max_lines);
        let n = *r.pick(&[1usize, 2, 2, 2, 3, 3, 4]);
        let mut inputs = vec![];
        for i in 0..n {
            let lines = if i == 0 || r.chance(1, 10) { if i == 0 { base.clone() } else { gen_text(&mut r, pool, max_lines) } } else { mutate(&mut r, &base, pool) };
            inputs.push(if r.chance(1, 25) { vec![] } else { join(&mut r, &lines) });
        }
        let steps = gen_steps(&mut r);
        one(out, &inputs, &steps, "random-lines");
    }

    // 4. long repetitions: more than `max_occurrences` (100) copies of a line / word, to reach the give-up
    //    path, the capped-count path and the leading/trailing fallback
    let mut r = cfg.rng(4);
    for _ in 0..cfg.n(400, 6000) {
        let rep: &[u8] = *r.pick(&[&b"a\n"[..], b"x y\n", b"\n"]);
        let n = *r.pick(&[1usize, 2, 2, 3]) + 1;
        let mut inputs = vec![];
        for _ in 0..n {
            // exactly max_occurrences (100) copies ± 1 half of the time: the `> max_occurrences` boundaries
            let count = if r.chance(1, 2) { *r.pick(&[99usize, 100, 100, 101, 102]) } else { r.range(95, 125) };
            let mut lines: Vec<Vec<u8>> = vec![rep.to_vec(); count];
            for _ in 0..(if r.chance(1, 3) { 0 } else { r.below(4) }) {
                let i = r.below(lines.len() + 1);
                lines.insert(i, LINES[r.below(6)].to_vec());
            }
            if r.chance(1, 4) { let i = r.below(lines.len() + 1); lines.insert(i, b"unique\n".to_vec()); }
            inputs.push(join(&mut r, &lines));
        }
        let steps = match r.below(4) {
            0 => vec![(Tok::Line, Cmp::Exact)],
            1 => vec![(Tok::Line, CMPS[r.below(3)]), (Tok::Word, Cmp::Exact)],
            2 => vec![(Tok::Word, CMPS[r.below(3)])],
            _ => vec![(Tok::Nonword, Cmp::Exact)],
        };
        one(out, &inputs, &steps, "long-repeats");
    }
}
