//! C39 — log graph edges preserve ancestry (`RevsetGraphWalk`, `GraphEdge`).
//!
//! Cases: every DAG shape with ≤ 4 commits above the root × every shown set × both settings of
//! `skip_transitive_edges`; every shape with 5 (thorough: 6) commits × random shown sets; random
//! larger DAGs (up to 40 commits, up to 3 parents, built over several transactions = several index
//! segments) × sparse/dense random shown sets.  The real iterator is
//! `DefaultReadonlyIndexRevset::iter_graph_impl(skip)`; `Revset::stream_graph()` is cross-checked
//! against `iter_graph_impl(true)`.
//! Oracle (from the property text; ancestor sets and external paths recomputed in Rust): order,
//! direct ⇒ parent, indirect ⇒ ancestor in the set reached only through commits outside the set,
//! missing ⇒ leads outside the set, ancestry between shown commits ⇔ reachability through edges.
use super::c37::{Dag, all_dags, anc_sets, random_dag, show_dag, show_us};
use crate::rt::*;
use futures::TryStreamExt as _;
use jj_lib::backend::CommitId;
use jj_lib::commit::Commit;
use jj_lib::default_index::{DefaultReadonlyIndex, DefaultReadonlyIndexRevset};
use jj_lib::graph::{GraphEdge, GraphEdgeType};
use jj_lib::repo::{ReadonlyRepo, Repo};
use jj_lib::revset::{ResolvedExpression, RevsetExpression};
use pollster::FutureExt as _;
use std::collections::{BTreeSet, HashMap};
use std::sync::Arc;
use testutils::TestRepo;

pub struct Built { pub dag: Dag, pub commits: Vec<Commit> }

/// Materialise `dags` in `repo`, spread over `txs` transactions (each commits an index segment).
pub fn build_many(repo: &Arc<ReadonlyRepo>, dags: &[Dag], txs: usize, counter: &mut u64) -> (Arc<ReadonlyRepo>, Vec<Built>) {
    let mut repo = repo.clone();
    let root = repo.store().root_commit();
    let mut built: Vec<Built> = dags.iter().map(|d| Built { dag: d.clone(), commits: vec![root.clone()] }).collect();
    // commits are created DAG by DAG; transaction boundaries fall anywhere
    let total: usize = dags.iter().map(|d| d.len() - 1).sum();
    let per_tx = (total / txs.max(1)).max(1);
    let mut tx = repo.start_transaction();
    let mut in_tx = 0;
    for b in built.iter_mut() {
        for i in 1..b.dag.len() {
            let parents: Vec<CommitId> = b.dag[i].iter().map(|&p| b.commits[p].id().clone()).collect();
            *counter += 1;
            let store = tx.repo().store().clone();
            let c = tx.repo_mut().new_commit(parents, store.empty_merged_tree())
                .set_description(format!("g{counter}")).write().block_on().unwrap();
            b.commits.push(c);
            in_tx += 1;
            if in_tx >= per_tx {
                repo = tx.commit("build").block_on().unwrap();
                tx = repo.start_transaction();
                in_tx = 0;
            }
        }
    }
    repo = tx.commit("build").block_on().unwrap();
    (repo, built)
}

fn revset_for(repo: &ReadonlyRepo, ids: Vec<CommitId>) -> DefaultReadonlyIndexRevset {
    let index: &DefaultReadonlyIndex = repo.readonly_index().downcast_ref().unwrap();
    index.evaluate_revset_impl(&ResolvedExpression::Commits(ids), repo.store()).unwrap()
}

type Node = (usize, Vec<(char, usize)>);

fn show_nodes(nodes: &[Node]) -> String {
    if nodes.is_empty() { return "-".into(); }
    nodes.iter().map(|(c, es)| format!("{c}:{}", if es.is_empty() { "-".to_string() } else {
        es.iter().map(|(k, t)| format!("{k}{t}")).collect::<Vec<_>>().join(",") })).collect::<Vec<_>>().join(";")
}

fn localise(idx: &HashMap<CommitId, usize>, raw: Vec<(CommitId, Vec<GraphEdge<CommitId>>)>) -> Vec<Node> {
    raw.into_iter().map(|(c, es)| (idx[&c], es.into_iter().map(|e| (match e.edge_type {
        GraphEdgeType::Direct => 'd', GraphEdgeType::Indirect => 'i', GraphEdgeType::Missing => 'm' }, idx[&e.target])).collect())).collect()
}

/// targets reachable from `c` through ≥ 1 commits outside `s` (the first commit of `s` on each path)
fn external_targets(d: &Dag, s: &BTreeSet<usize>, c: usize) -> BTreeSet<usize> {
    let mut out = BTreeSet::new();
    let mut seen = BTreeSet::new();
    let mut st: Vec<usize> = d[c].iter().copied().filter(|p| !s.contains(p)).collect();
    while let Some(x) = st.pop() {
        if !seen.insert(x) { continue; }
        for &p in &d[x] { if s.contains(&p) { out.insert(p); } else { st.push(p); } }
    }
    out
}

fn oracle(d: &Dag, anc: &[BTreeSet<usize>], s: &BTreeSet<usize>, nodes: &[Node]) -> Option<(&'static str, String)> {
    // newest first, each shown commit exactly once, every commit before its ancestors
    let order: Vec<usize> = nodes.iter().map(|n| n.0).collect();
    let want: Vec<usize> = s.iter().rev().copied().collect();
    let pos: HashMap<usize, usize> = order.iter().enumerate().map(|(i, c)| (*c, i)).collect();
    if pos.len() != order.len() || order.iter().copied().collect::<BTreeSet<_>>() != *s {
        return Some(("graph:wrong-node-set", format!("nodes {order:?}, shown set {s:?}")));
    }
    for &a in s { for &b in s { if a != b && anc[b].contains(&a) && pos[&b] > pos[&a] {
        return Some(("graph:ancestor-before-descendant", format!("{a} (ancestor of {b}) is emitted first")));
    } } }
    if order != want { return Some(("graph:not-newest-first", format!("order {order:?}"))); }
    let mut reach: HashMap<usize, BTreeSet<usize>> = HashMap::new();
    for (c, es) in nodes.iter().rev() {
        let ext = external_targets(d, s, *c);
        let mut r: BTreeSet<usize> = BTreeSet::new();
        for (k, t) in es {
            match k {
                'd' => { if !d[*c].contains(t) { return Some(("graph:direct-edge-not-parent", format!("{c} -> {t}"))); }
                         if !s.contains(t) { return Some(("graph:edge-target-not-shown", format!("direct {c} -> {t}"))); } }
                'i' => { if !s.contains(t) { return Some(("graph:edge-target-not-shown", format!("indirect {c} -> {t}"))); }
                         if !anc[*c].contains(t) || t == c { return Some(("graph:indirect-edge-not-ancestor", format!("{c} -> {t}"))); }
                         if !ext.contains(t) { return Some(("graph:indirect-edge-without-external-path", format!("{c} -> {t}: no path whose interior avoids the shown set"))); } }
                _ => { if s.contains(t) { return Some(("graph:missing-edge-to-shown-commit", format!("{c} -> {t}"))); }
                       if !anc[*c].contains(t) || t == c { return Some(("graph:missing-edge-not-ancestor", format!("{c} -> {t}"))); }
                       if anc[*t].iter().any(|a| s.contains(a)) { return Some(("graph:missing-edge-leads-into-set", format!("{c} -> {t} but {t} has a shown ancestor"))); }
                       continue; }
            }
            r.insert(*t);
            if let Some(rt) = reach.get(t) { r.extend(rt.iter().copied()); }
        }
        reach.insert(*c, r);
    }
    for &c in s {
        let want: BTreeSet<usize> = anc[c].iter().copied().filter(|a| *a != c && s.contains(a)).collect();
        let got = &reach[&c];
        if let Some(a) = want.difference(got).next() { return Some(("graph:ancestry-not-implied-by-edges", format!("{a} is an ancestor of {c} but not reachable through the edges"))); }
        if let Some(a) = got.difference(&want).next() { return Some(("graph:edges-imply-false-ancestry", format!("{a} reachable from {c} through the edges but not an ancestor"))); }
    }
    None
}

/// What `jj log` shows: the stream regrouped by `TopoGroupedGraph` (oracle only, no model): the same
/// nodes with the same edges, and every commit before its ancestors.  `prio` < len prioritises that
/// node's branch (as `jj log` does for the working copy), `prio` = len prioritises nothing.
fn topo_grouped(out: &mut Out, anc: &[BTreeSet<usize>], nodes: &[Node], case_no: u64, req: &str, prio: usize) {
    use jj_lib::graph::TopoGroupedGraph;
    let input: Vec<Result<(usize, Vec<GraphEdge<usize>>), std::convert::Infallible>> = nodes.iter().map(|(c, es)| Ok((*c, es.iter().map(|(k, t)| match k {
        'd' => GraphEdge::direct(*t), 'i' => GraphEdge::indirect(*t), _ => GraphEdge::missing(*t) }).collect()))).collect();
    let res = guard(|| {
        let mut g = TopoGroupedGraph::new(futures::stream::iter(input), |c: &usize| c);
        if prio < nodes.len() { g.prioritize_branch(nodes[prio].0); }
        let v: Vec<(usize, Vec<GraphEdge<usize>>)> = Box::pin(g.stream()).try_collect().block_on().unwrap();
        v
    });
    out.impl_only();
    out.tally("topo_grouped", if prio < nodes.len() { "prioritized" } else { "plain" });
    let got = match res {
        Err(e) => { out.oracle_fail("topo:panic", format!("case {case_no} {req} prio={prio}: {e}")); return; }
        Ok(v) => v,
    };
    let back: Vec<Node> = got.iter().map(|(c, es)| (*c, es.iter().map(|e| (match e.edge_type {
        GraphEdgeType::Direct => 'd', GraphEdgeType::Indirect => 'i', GraphEdgeType::Missing => 'm' }, e.target)).collect())).collect();
    let mut a = back.clone(); a.sort();
    let mut b = nodes.to_vec(); b.sort();
    let pos: HashMap<usize, usize> = back.iter().enumerate().map(|(i, n)| (n.0, i)).collect();
    let mut fail: Option<(&'static str, String)> = None;
    if a != b { fail = Some(("topo:nodes-or-edges-changed", format!("output {}", show_nodes(&back)))); }
    else {
        'outer: for (c, _) in &back { for (d, _) in &back {
            if c != d && anc[*d].contains(c) && pos[c] < pos[d] { fail = Some(("topo:ancestor-before-descendant", format!("{c} is an ancestor of {d} but is shown first: {}", show_nodes(&back)))); break 'outer; }
        } }
    }
    match fail { None => out.oracle_ok(), Some((sig, d)) => out.oracle_fail(sig, format!("case {case_no} {req} prio={prio}: {d}")) }
}

fn one(out: &mut Out, repo: &Arc<ReadonlyRepo>, b: &Built, anc: &[BTreeSet<usize>], shown: &[usize], skip: bool, stream: &'static str) {
    let idx: HashMap<CommitId, usize> = b.commits.iter().enumerate().map(|(i, c)| (c.id().clone(), i)).collect();
    let ids: Vec<CommitId> = shown.iter().map(|&i| b.commits[i].id().clone()).collect();
    let res = guard(|| {
        let revset = revset_for(repo.as_ref(), ids.clone());
        let raw: Vec<(CommitId, Vec<GraphEdge<CommitId>>)> = revset.iter_graph_impl(skip).map(|r| r.unwrap()).collect();
        let nodes = localise(&idx, raw);
        // the public entry point is the skip=true walk
        let public: Option<Vec<Node>> = if skip {
            let rs = RevsetExpression::commits(ids.clone()).evaluate(repo.as_ref()).unwrap();
            let raw: Vec<(CommitId, Vec<GraphEdge<CommitId>>)> = rs.stream_graph().try_collect().block_on().unwrap();
            Some(localise(&idx, raw))
        } else { None };
        (nodes, public)
    });
    let req = format!("graph {} {} {}", if skip { 1 } else { 0 }, show_dag(&b.dag), show_us(shown));
    let s: BTreeSet<usize> = shown.iter().copied().collect();
    match res {
        Err(e) => { let n = out.case(&req, "panic"); out.oracle_fail("graph:panic", format!("case {n} {req}: {e}")); }
        Ok((nodes, public)) => {
            let resp = show_nodes(&nodes);
            let n = out.case(&req, &resp);
            if let Some(p) = public { if p != nodes {
                out.oracle_fail("graph:stream-graph-differs-from-iter-graph", format!("case {n} {req}: stream_graph {} vs {}", show_nodes(&p), resp));
                return;
            } }
            match oracle(&b.dag, anc, &s, &nodes) {
                None => out.oracle_ok(),
                Some((sig, det)) => out.oracle_fail(sig, format!("case {n} [{stream}] {req} -> {resp}: {det}")),
            }
            if skip && !nodes.is_empty() { topo_grouped(out, anc, &nodes, n, &req, (n as usize * 7 + shown.len()) % (nodes.len() + 1)); }
            let kinds: BTreeSet<char> = nodes.iter().flat_map(|n| n.1.iter().map(|e| e.0)).collect();
            out.tally("stream", stream);
            out.tally("skip_transitive", if skip { "1" } else { "0" });
            out.tally("edge_kinds", &kinds.iter().collect::<String>());
            out.tally("shown", &format!("{:>2}", (shown.len() / 4) * 4));
            if kinds.contains(&'i') && shown.len() >= 2 { out.nontrivial((b.dag.clone(), shown.to_vec(), skip)); }
        }
    }
}

pub fn run(cfg: &Cfg, out: &mut Out) {
    let test_repo = TestRepo::init();
    let mut repo = test_repo.repo.clone();
    let mut counter = 0u64;

    // 1. exhaustive: all DAG shapes with ≤ 4 commits × all shown sets × both settings
    let kexh = 4;
    for k in 1..=kexh {
        let mut dags: Vec<Dag> = vec![];
        all_dags(k, &mut |d| dags.push(d.clone()));
        let (r2, built) = build_many(&repo, &dags, 1 + k % 3, &mut counter);
        repo = r2;
        for b in &built {
            let anc = anc_sets(&b.dag);
            for mask in 0u32..(1 << (k + 1)) {
                let shown: Vec<usize> = (0..=k).filter(|i| mask >> i & 1 == 1).collect();
                for skip in [false, true] { one(out, &repo, b, &anc, &shown, skip, "exhaustive"); }
            }
        }
    }
    out.set_exhaustive(true);
    out.note(format!("exhaustive: every DAG shape with ≤ {kexh} commits above the root (≤ 2 parents each) × every shown set (root included) × skip_transitive_edges ∈ {{false,true}}"));

    // 2. all shapes with 5 (thorough: also 6) commits × random shown sets
    let mut r = cfg.rng(39);
    for k in 5..=(if cfg.tier == Tier::Quick { 5 } else { 6 }) {
        let mut dags: Vec<Dag> = vec![];
        all_dags(k, &mut |d| dags.push(d.clone()));
        if k == 6 { let keep = cfg.n(0, 3000) as usize; let mut i = 0; dags.retain(|_| { i += 1; r.below(9856) < keep || i == 1 }); }
        let (r2, built) = build_many(&repo, &dags, 3, &mut counter);
        repo = r2;
        for b in &built {
            let anc = anc_sets(&b.dag);
            for _ in 0..(if cfg.tier == Tier::Quick { 2 } else { 6 }) {
                let dens = r.range(1, 3);
                let shown: Vec<usize> = (0..=k).filter(|_| r.chance(dens, 4)).collect();
                for skip in [false, true] { one(out, &repo, b, &anc, &shown, skip, "all-shapes-random-sets"); }
            }
        }
    }

    // 3. random larger DAGs over several transactions
    let mut r = cfg.rng(40);
    for _ in 0..cfg.n(12, 220) {
        let dags: Vec<Dag> = (0..20).map(|_| {
            let n = r.range(6, 40);
            let local = *r.pick(&[0usize, 2, 3, 4, 8]);
            random_dag(&mut r, n, 3, local)
        }).collect();
        let txs = r.range(1, 5);
        let (r2, built) = build_many(&repo, &dags, txs, &mut counter);
        repo = r2;
        for b in &built {
            let anc = anc_sets(&b.dag);
            let n = b.dag.len() - 1;
            for _ in 0..8 {
                let (num, den) = *r.pick(&[(1usize, 8usize), (1, 4), (1, 3), (1, 2), (3, 4)]);
                let shown: Vec<usize> = (0..=n).filter(|_| r.chance(num, den)).collect();
                for skip in [false, true] { one(out, &repo, b, &anc, &shown, skip, "random"); }
            }
        }
    }
}
