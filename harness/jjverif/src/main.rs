//! `jjverif <Cxx> --tier quick|thorough --seed N --out DIR [--only K]`
//!
//! Runs the *real* jj code on generated cases for one property and writes
//!   DIR/Cxx.req    one request line per case (fed verbatim to the Lean driver `jjmodel`)
//!   DIR/Cxx.impl   the implementation's canonical answer for each request line
//!   DIR/Cxx.stats.json   counts, distribution, samples, property-oracle failures
pub mod rt;
pub mod props {
    include!(concat!(env!("OUT_DIR"), "/props_gen.rs"));
}

mod cli_main;

fn main() {
    cli_main::main_with(props::dispatch, props::ALL);
}
