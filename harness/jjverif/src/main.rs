//! `jjverif <Cxx> --tier quick|thorough --seed N --out DIR [--only K]`
//!
//! Runs the *real* jj code on generated cases for one property and writes
//!   DIR/Cxx.req    one request line per case (fed verbatim to the Lean driver `jjmodel`)
//!   DIR/Cxx.impl   the implementation's canonical answer for each request line
//!   DIR/Cxx.stats.json   counts, distribution, samples, property-oracle failures
pub mod rt;
pub mod props {
    include!(concat!(env!("OUT_DIR"), "/props_gen.rs"));
}

fn main() {
    let args: Vec<String> = std::env::args().collect();
    if args.len() < 2 {
        eprintln!("usage: jjverif <Cxx|list> --tier quick|thorough --seed N --out DIR");
        std::process::exit(2);
    }
    if args[1] == "list" {
        println!("{}", props::ALL.join(" "));
        return;
    }
    let id = args[1].clone();
    let mut cfg = rt::Cfg { tier: rt::Tier::Quick, seed: 1, only: None, scale: 1, extra: Vec::new() };
    let mut out_dir = String::from(".");
    let mut i = 2;
    while i < args.len() {
        match args[i].as_str() {
            "--tier" => { cfg.tier = if args[i + 1] == "thorough" { rt::Tier::Thorough } else { rt::Tier::Quick }; i += 2; }
            "--seed" => { cfg.seed = args[i + 1].parse().expect("seed"); i += 2; }
            "--out" => { out_dir = args[i + 1].clone(); i += 2; }
            "--only" => { cfg.only = Some(args[i + 1].parse().expect("only")); i += 2; }
            "--scale" => { cfg.scale = args[i + 1].parse().expect("scale"); i += 2; }
            other => { cfg.extra.push(other.to_string()); i += 1; }
        }
    }
    let Some(run) = props::dispatch(&id) else {
        eprintln!("unknown property {id}");
        std::process::exit(2);
    };
    let mut out = rt::Out::create(&id, &out_dir);
    let t0 = std::time::Instant::now();
    run(&cfg, &mut out);
    out.finish(t0.elapsed().as_secs_f64());
}
