//! argument parsing + run loop shared by `jjverif` and `jjverif-cli`
use crate::rt;

pub fn main_with(dispatch: fn(&str) -> Option<fn(&crate::rt::Cfg, &mut crate::rt::Out)>, all: &[&str]) {
    let args: Vec<String> = std::env::args().collect();
    if args.len() < 2 {
        eprintln!("usage: jjverif <Cxx|list> --tier quick|thorough --seed N --out DIR");
        std::process::exit(2);
    }
    if args[1] == "list" {
        println!("{}", all.join(" "));
        return;
    }
    let id = args[1].clone();
    let mut cfg = rt::Cfg { tier: rt::Tier::Quick, seed: 1, only: None, scale: 1, extra: Vec::new() };
    let mut out_dir = String::from(".");
    let mut i = 2;
    while i < args.len() {
        match args[i].as_str() {
            "--tier" => { cfg.tier = if args[i + 1] == "thorough" { rt::Tier::Thorough } else { rt::Tier::Quick }; i += 2; }
            "--seed" => { cfg.seed = args[i + 1].parse().expect("seed"); i += 2; }
            "--out" => { out_dir = args[i + 1].clone(); i += 2; }
            "--only" => { cfg.only = Some(args[i + 1].parse().expect("only")); i += 2; }
            "--scale" => { cfg.scale = args[i + 1].parse().expect("scale"); i += 2; }
            other => { cfg.extra.push(other.to_string()); i += 1; }
        }
    }
    let Some(run) = dispatch(&id) else {
        eprintln!("unknown property {id}");
        std::process::exit(2);
    };
    let mut out = rt::Out::create(&id, &out_dir);
    let t0 = std::time::Instant::now();
    run(&cfg, &mut out);
    out.finish(t0.elapsed().as_secs_f64());
}
