//! Same driver as `jjverif`, for the properties anchored in the `jj-cli` crate.
//! A link named `jj` to this binary runs the real jj command line in-process (used as the `jj` binary by
//! the CLI-level checks so that no second full build of /repo is needed).
#[path = "../../jjverif/src/rt.rs"]
pub mod rt;
pub mod props {
    include!(concat!(env!("OUT_DIR"), "/props_gen.rs"));
}
#[path = "../../jjverif/src/cli_main.rs"]
mod cli_main;

fn main() -> std::process::ExitCode {
    // invoked through a link named `jj` (harness/target/debug/jj -> jjverif-cli): behave as the jj binary
    let argv0 = std::env::args_os().next().unwrap_or_default();
    if std::path::Path::new(&argv0).file_name().and_then(|n| n.to_str()) == Some("jj") {
        return jj_cli::cli_util::CliRunner::init().version("0.0.0-verif").run().into();
    }
    cli_main::main_with(props::dispatch, props::ALL);
    std::process::ExitCode::SUCCESS
}
