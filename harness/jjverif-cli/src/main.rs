//! Same driver as `jjverif`, for the properties anchored in the `jj-cli` crate.
//! A link named `jj` to this binary runs the real jj command line in-process (used as the `jj` binary by
//! the CLI-level checks so that no second full build of /repo is needed).
#[path = "../../jjverif/src/rt.rs"]
pub mod rt;
pub mod props {
    include!(concat!(env!("OUT_DIR"), "/props_gen.rs"));
}
#[path = "../../jjverif/src/cli_main.rs"]
mod cli_main;

fn main() -> std::process::ExitCode {
    // invoked through a link named `jj` (harness/target/debug/jj -> jjverif-cli): behave as the jj binary
    let argv0 = std::env::args_os().next().unwrap_or_default();
    if std::path::Path::new(&argv0).file_name().and_then(|n| n.to_str()) == Some("jj") {
        install_crash_hook();
        return jj_cli::cli_util::CliRunner::init().version("0.0.0-verif").run().into();
    }
    cli_main::main_with(props::dispatch, props::ALL);
    std::process::ExitCode::SUCCESS
}

/// Crash/trace hook for the real jj command line (hook H2, `jj_lib::verif_hooks`):
///   JJ_VERIF_TRACE=<file>   append one line `<kind> <detail>` per step point reached;
///   JJ_VERIF_CRASH_AT=<k>   abort the process (as `kill -9` would) when the k-th step point
///                           (1-based, counted over this process) is about to be performed.
fn install_crash_hook() {
    use std::io::Write as _;
    use std::sync::atomic::{AtomicU64, Ordering};
    let trace = std::env::var("JJ_VERIF_TRACE").ok();
    let crash_at: Option<u64> = std::env::var("JJ_VERIF_CRASH_AT").ok().and_then(|s| s.parse().ok());
    if trace.is_none() && crash_at.is_none() {
        return;
    }
    static COUNTER: AtomicU64 = AtomicU64::new(0);
    jj_lib::verif_hooks::set_hook(Some(Box::new(move |kind, detail| {
        let n = COUNTER.fetch_add(1, Ordering::SeqCst) + 1;
        if let Some(path) = &trace {
            if let Ok(mut f) = std::fs::OpenOptions::new().create(true).append(true).open(path) {
                let _ = writeln!(f, "{n} {kind} {detail}");
            }
        }
        if crash_at == Some(n) {
            // no unwinding, no destructors, no flush: the closest in-process equivalent of SIGKILL
            std::process::abort();
        }
    })));
}
