//! Helpers for the CLI-level checks (C40, C42): drive the real `jj` binary (`$JJ_VERIF_JJ_BIN`, built
//! from /repo's working tree) in throw-away repositories, the way /repo/cli/tests/common does.
#![allow(dead_code)]
use std::collections::BTreeMap;
use std::path::{Path, PathBuf};
use std::process::Command;

pub struct Res {
    pub code: i32,
    pub out: String,
    pub err: String,
}

pub struct Env {
    _dir: tempfile::TempDir,
    pub root: PathBuf,
    pub home: PathBuf,
    pub tmp: PathBuf,
    pub cfg: PathBuf,
    pub jj_bin: PathBuf,
    /// per-environment command counter: seeds JJ_RANDOMNESS_SEED and the clock (1 s per command)
    pub counter: u64,
    pub seed_base: u64,
    pub invocations: u64,
}

pub fn jj_bin() -> PathBuf {
    std::env::var_os("JJ_VERIF_JJ_BIN").map(PathBuf::from).unwrap_or_else(|| {
        let mut p = std::env::current_exe().unwrap();
        p.pop();
        p.join("jj")
    })
}

pub fn scratch_parent() -> PathBuf {
    match std::env::var_os("JJ_VERIF_ROOT") {
        Some(r) => {
            let p = PathBuf::from(r).join("scratch").join("cli-tmp");
            let _ = std::fs::create_dir_all(&p);
            p
        }
        None => std::env::temp_dir(),
    }
}

impl Env {
    pub fn new(tag: &str, seed_base: u64) -> Env {
        let dir = tempfile::Builder::new().prefix(&format!("{tag}-")).tempdir_in(scratch_parent()).unwrap();
        let root = dir.path().canonicalize().unwrap();
        let home = root.join("home");
        let tmp = root.join("tmp");
        std::fs::create_dir_all(&home).unwrap();
        std::fs::create_dir_all(&tmp).unwrap();
        let cfg = root.join("config.toml");
        std::fs::write(
            &cfg,
            "[user]\nname = \"Test User\"\nemail = \"test.user@example.com\"\n[ui]\ncolor = \"never\"\npaginate = \"never\"\neditor = \"true\"\n[git]\ncolocate = false\n",
        )
        .unwrap();
        Env { _dir: dir, root, home, tmp, cfg, jj_bin: jj_bin(), counter: 0, seed_base, invocations: 0 }
    }

    pub fn cmd(&mut self, cwd: &Path) -> Command {
        self.counter += 1;
        self.invocations += 1;
        let mut c = Command::new(&self.jj_bin);
        c.current_dir(cwd);
        c.env_clear();
        c.env("PATH", std::env::var_os("PATH").unwrap_or_default());
        c.env("HOME", &self.home);
        c.env("TMPDIR", &self.tmp);
        c.env("COLUMNS", "200");
        c.env("JJ_CONFIG", &self.cfg);
        c.env("JJ_USER", "Test User");
        c.env("JJ_EMAIL", "test.user@example.com");
        c.env("JJ_OP_HOSTNAME", "host.example.com");
        c.env("JJ_OP_USERNAME", "test-username");
        c.env("JJ_TZ_OFFSET_MINS", "0");
        c.env("GIT_CONFIG_SYSTEM", "/dev/null");
        c.env("GIT_CONFIG_GLOBAL", "/dev/null");
        c.env("JJ_RANDOMNESS_SEED", (self.seed_base.wrapping_mul(100_000) + self.counter).to_string());
        // 2001-02-03T04:05:06Z + one second per command: every rewrite gets a new committer timestamp
        let secs = 981_173_106u64 + self.counter;
        let ts = rfc3339(secs);
        c.env("JJ_TIMESTAMP", &ts);
        c.env("JJ_OP_TIMESTAMP", &ts);
        c
    }

    pub fn jj(&mut self, cwd: &Path, args: &[&str]) -> Res {
        self.jj_env(cwd, args, &[])
    }

    pub fn jj_env(&mut self, cwd: &Path, args: &[&str], envs: &[(&str, &str)]) -> Res {
        let mut c = self.cmd(cwd);
        c.args(args);
        for (k, v) in envs {
            c.env(k, v);
        }
        match c.output() {
            Ok(o) => Res {
                code: o.status.code().unwrap_or(-1),
                out: String::from_utf8_lossy(&o.stdout).into_owned(),
                err: String::from_utf8_lossy(&o.stderr).into_owned(),
            },
            Err(e) => Res { code: -2, out: String::new(), err: format!("spawn failed: {e}") },
        }
    }
}

/// seconds since the epoch → RFC 3339 (UTC); enough for 2001
pub fn rfc3339(secs: u64) -> String {
    let days = secs / 86_400;
    let rem = secs % 86_400;
    let (h, m, s) = (rem / 3600, (rem % 3600) / 60, rem % 60);
    // civil-from-days (Howard Hinnant)
    let z = days as i64 + 719_468;
    let era = z.div_euclid(146_097);
    let doe = z.rem_euclid(146_097);
    let yoe = (doe - doe / 1460 + doe / 36_524 - doe / 146_096) / 365;
    let y = yoe + era * 400;
    let doy = doe - (365 * yoe + yoe / 4 - yoe / 100);
    let mp = (5 * doy + 2) / 153;
    let d = doy - (153 * mp + 2) / 5 + 1;
    let mo = if mp < 10 { mp + 3 } else { mp - 9 };
    let y = if mo <= 2 { y + 1 } else { y };
    format!("{y:04}-{mo:02}-{d:02}T{h:02}:{m:02}:{s:02}+00:00")
}

/// Digest of the user-visible files of a workspace directory (everything except `.jj`):
/// relative path → (executable bit, content).
pub fn disk_state(ws: &Path) -> BTreeMap<String, (bool, Vec<u8>)> {
    fn walk(base: &Path, dir: &Path, acc: &mut BTreeMap<String, (bool, Vec<u8>)>) {
        let Ok(rd) = std::fs::read_dir(dir) else { return };
        for e in rd.flatten() {
            let p = e.path();
            let name = e.file_name();
            if dir == base && name == ".jj" {
                continue;
            }
            let Ok(md) = std::fs::symlink_metadata(&p) else { continue };
            if md.is_dir() {
                walk(base, &p, acc);
            } else if md.is_file() {
                use std::os::unix::fs::PermissionsExt;
                let exec = md.permissions().mode() & 0o111 != 0;
                let rel = p.strip_prefix(base).unwrap().to_string_lossy().replace('\\', "/");
                acc.insert(rel, (exec, std::fs::read(&p).unwrap_or_default()));
            }
        }
    }
    let mut acc = BTreeMap::new();
    walk(ws, ws, &mut acc);
    acc
}

/// Run `work(i)` for `i in 0..n` on a small thread pool; results in index order.
pub fn par_map<T: Send>(n: usize, work: impl Fn(usize) -> T + Sync) -> Vec<T> {
    let threads: usize = std::env::var("JJ_VERIF_CLI_THREADS")
        .ok()
        .or_else(|| std::env::var("RAYON_NUM_THREADS").ok())
        .and_then(|s| s.parse().ok())
        .unwrap_or(8)
        .clamp(1, 32);
    let next = std::sync::atomic::AtomicUsize::new(0);
    let results: std::sync::Mutex<Vec<Option<T>>> = std::sync::Mutex::new((0..n).map(|_| None).collect());
    std::thread::scope(|s| {
        for _ in 0..threads.min(n.max(1)) {
            s.spawn(|| loop {
                let i = next.fetch_add(1, std::sync::atomic::Ordering::SeqCst);
                if i >= n {
                    break;
                }
                let r = work(i);
                results.lock().unwrap()[i] = Some(r);
            });
        }
    });
    results.into_inner().unwrap().into_iter().map(|x| x.expect("worker result")).collect()
}
